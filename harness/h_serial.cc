// Correspondence harness for serialisation (C11, C12): builds objects of
// every persistable type by seeded operator histories on the REAL library,
// saves / reloads them, and feeds arbitrary (damaged) streams to the real
// load() on targets that hold unrelated valid content.
//
// input lines
//   SSET <prob>                                  -> n (opcode arity param)*
//   GEN  <type> <prob> <seed> <steps>            -> OK | dump | savehex | ret | dump' | savehex' | sig sig' | valid' | dump with cached signatures cleared | return value of save
//   LOAD <type> <prob> <seed> <steps> <hex|-> [flags]
//                                                -> OK | ret | dump0 | savehex0 | valid0 | dump1 | savehex1 | valid1 | problem0 problem1
//   (target of LOAD = the object GEN builds from the same type/prob/seed/steps; flags: 's' = then every value
//    it holds is replaced keeping its SHAPE (matrix shape, genome length, rows x categories, team size, layer
//    structure), so that a target of the shape of a serialised object but with other content is obtained by
//    passing that object's own seed/steps; '2' = load() is called with a SECOND, distinct problem object of the
//    same construction; problem0/1 = which problem object a population is bound to before/after, '-' otherwise)
//   CACHE <bits> <op>...   ops I,k0,k1,w[,w..] insert  C clear()  X,k0,k1 clear(key)   (hex 64-bit patterns)
//                                                -> OK | ret | savehex | savehex of the reloaded fresh cache | n (k0 k1 lookup-original lookup-reloaded)*
//   SEARCH <cache bits> <individuals> <seed> <clear after k|-1> <file: ok|none|bad>
//          a search<i_mep> with a counting evaluator behind the evaluator_proxy; the individuals are evaluated
//          (the cache is cleared after the k-th), search::save() writes env.misc.serialization_file, a second
//          search object on the same problem search::load()s it; every individual is then evaluated through
//          both proxies:  hit = the wrapped evaluator was NOT called
//          -> OK | save ret | load ret | hex of the file | hex of cache::save of the first proxy | n (sig find-in-original find-in-reloaded find-just-before hit-through-reloaded-proxy value)*
//   MODEL <scheme> <comp> <classes> <xslot> <nprog> <prog>... <ntrain> {<label> <in0> <in1> <in2>}... <nquery> {<in0> <in1> <in2>}...
//          (the case format of harness/h_lambda.cc: scheme reg|dyn|gauss|bin, comp ind|team|wta|mv, prog x0|x1|x2|r<seed>,
//          label i:<class>|d:<hex64>, inputs v|d:<hex64>)  a trained model of that kind is built on the training rows,
//          saved with serialize::save, reloaded with serialize::lambda::load, saved again
//          an optional last token L<style> selects how the class labels look (inner / leading / trailing blanks, tabs,
//          digits only, blank-only, empty)
//          -> OK | saved | loaded 1|0|EXC.. | hex of the text | hex of the text saved by the reloaded model
//             | n (prediction-original prediction-reloaded name-original name-reloaded)*
//             over the queries; prediction = value token (regression) or <label>/<hex64 sureness>; name = hex of name(prediction)
//   SSET 2 / SSET 3 = the symbol sets of the second problem objects
// types: H F MEP GA DE TEAM POPMEP POPGA POPDE POPTEAM SUMMEP SUMGA SUMDE DIST MAT
//        DISTX = DIST fed with finite values whose squares overflow (non-finite second moment)
//
// dump grammar (tokens; X = 16 hex digits, n = decimal):
//   H      : X X
//   F      : n X*
//   MEP    : age:X cols:X n (opcode:X par:X n arg:X*)* best.index:X best.category:X sig:H
//            (par printed as 0 for genes whose symbol is not a parametric terminal)
//   GA     : age:X n int* sig:H          DE : age:X n X* sig:H
//   TEAM   : n MEP* sig:H
//   POPx   : n (allowed:X n IND*)*
//   SUMx   : best.solution:IND best.score.fitness:F accuracy:X elapsed:int mutations:X crossovers:X gen:X last_imp:X
//   DIST   : count:X mean:X min:X max:X m2:X n (key:X val:X)*
//   MAT    : cols:X n int*
#include <chrono>
#include <cstdio>
#include <fstream>
#include <unistd.h>
#include <cstdint>
#include <cstring>
#include <iostream>
#include <limits>
#include <map>
#include <sstream>
#include <string>
#include <vector>

#define private public
#define protected public
#include "kernel/vita.h"
#include "kernel/ga/i_de.h"
#include "kernel/ga/i_ga.h"
#include "kernel/ga/problem.h"
#include "kernel/gp/src/primitive/factory.h"
#include "kernel/gp/team.h"
#include "kernel/distribution.h"
#include "kernel/evaluator_proxy.h"
#include "kernel/search.h"
#include "utility/matrix.h"
#undef private
#undef protected

using namespace vita;

namespace
{
std::string hex64(std::uint64_t x)
{
  char buf[32];
  std::snprintf(buf, sizeof(buf), "%016llx", static_cast<unsigned long long>(x));
  return buf;
}
std::uint64_t bits_of(double d)
{
  std::uint64_t u;
  std::memcpy(&u, &d, sizeof(u));
  return u;
}
double double_of(std::uint64_t u)
{
  double d;
  std::memcpy(&d, &u, sizeof(d));
  return d;
}
std::vector<std::string> split(const std::string &l)
{
  std::istringstream ss(l);
  std::vector<std::string> out;
  std::string w;
  while (ss >> w) out.push_back(w);
  return out;
}
std::string to_hex(const std::string &s)
{
  if (s.empty()) return "-";
  std::string out;
  for (unsigned char c : s)
  {
    char b[4];
    std::snprintf(b, sizeof(b), "%02x", c);
    out += b;
  }
  return out;
}
std::string from_hex(const std::string &h)
{
  std::string s;
  if (h == "-") return s;
  for (std::size_t i(0); i + 1 < h.size(); i += 2)
    s += static_cast<char>(std::stoi(h.substr(i, 2), nullptr, 16));
  return s;
}

// ---- the problems -------------------------------------------------------
struct problems
{
  problem mep1;       // one category
  problem mep2;       // two categories (reals and strings)
  ga_problem ga;
  de_problem de;
  symbol_factory factory;

  problems()
  {
    mep1.env.init();
    for (const char *n : {"REAL", "FADD", "FSUB", "FMUL", "FLN", "FIFL", "FABS", "FIFE"})
      mep1.sset.insert(factory.make(n, {0, 0}));
    mep1.sset.insert(factory.make("123.5", {0}));
    mep1.env.mep.code_length = 12;

    mep2.env.init();
    for (const char *n : {"REAL", "FADD", "FMUL", "FIFZ"})
      mep2.sset.insert(factory.make(n, {0}));
    mep2.sset.insert(factory.make("FLENGTH", {1, 0}));
    mep2.sset.insert(factory.make("FIFE", {0, 0}));
    for (const char *n : {"apple", "pear", "plum"})
      mep2.sset.insert(factory.make(n, {1}));
    mep2.sset.insert(factory.make("SIFE", {1, 0}));
    mep2.env.mep.code_length = 9;

    ga.env.init();
    ga.insert(range(-5, 6));
    ga.insert(range(-100000, 100000));
    ga.insert(range(std::numeric_limits<int>::min(), std::numeric_limits<int>::max()));
    ga.insert(range(0, 2));

    de.env.init();
    de.insert(range(-1.0, 1.0));
    de.insert(range(-1e300, 1e300));
    de.insert(range(1e-310, 1e-300));
  }

  problem &mep(int k) { return k ? mep2 : mep1; }
};

problems *P;
problems *P2;  // second, distinct problem objects of the same construction

// random finite double of any magnitude (random pattern, exponent < 2047)
double extreme()
{
  switch (random::between(0, 8))
  {
  case 0: return std::numeric_limits<double>::max();
  case 1: return std::numeric_limits<double>::lowest();
  case 2: return std::numeric_limits<double>::denorm_min();
  case 3: return -0.0;
  case 4: return std::numeric_limits<double>::min();
  case 5: return random::between(-1000.0, 1000.0);
  default:
  {
    const std::uint64_t hi(random::between<std::uint64_t>(0, 1ull << 32));
    const std::uint64_t lo(random::between<std::uint64_t>(0, 1ull << 32));
    std::uint64_t u((hi << 32) | lo);
    if (((u >> 52) & 2047) == 2047)
      u &= ~(1ull << 62);
    return double_of(u);
  }
  }
}

// ---- dumps -----------------------------------------------------------------
void dump(std::ostream &o, const hash_t &h) { o << hex64(h.data[0]) << ' ' << hex64(h.data[1]); }
void dump(std::ostream &o, const fitness_t &f)
{
  o << f.size();
  for (std::size_t i(0); i < f.size(); ++i) o << ' ' << hex64(bits_of(f[i]));
}
void dump(std::ostream &o, const i_mep &x)
{
  o << hex64(x.age_) << ' ' << hex64(x.genome_.cols_) << ' ' << x.genome_.data_.size();
  for (const auto &g : x.genome_.data_)
  {
    const bool par(g.sym->terminal() && terminal::cast(g.sym)->parametric());
    o << ' ' << hex64(g.sym->opcode()) << ' ' << hex64(par ? bits_of(g.par) : 0) << ' ' << g.args.size();
    for (auto a : g.args) o << ' ' << hex64(a);
  }
  o << ' ' << hex64(x.best_.index) << ' ' << hex64(x.best_.category) << ' ';
  dump(o, x.signature_);
}
void dump(std::ostream &o, const i_ga &x)
{
  o << hex64(x.age_) << ' ' << x.genome_.size();
  for (auto g : x.genome_) o << ' ' << g;
  o << ' ';
  dump(o, x.signature_);
}
void dump(std::ostream &o, const i_de &x)
{
  o << hex64(x.age_) << ' ' << x.genome_.size();
  for (auto g : x.genome_) o << ' ' << hex64(bits_of(g));
  o << ' ';
  dump(o, x.signature_);
}
template<class T> void dump(std::ostream &o, const team<T> &t)
{
  o << t.individuals_.size();
  for (const auto &i : t.individuals_) { o << ' '; dump(o, i); }
  o << ' ';
  dump(o, t.signature_);
}
template<class T> void dump(std::ostream &o, const population<T> &p)
{
  o << p.pop_.size();
  for (std::size_t l(0); l < p.pop_.size(); ++l)
  {
    o << ' ' << hex64(p.allowed_[l]) << ' ' << p.pop_[l].size();
    for (const auto &i : p.pop_[l]) { o << ' '; dump(o, i); }
  }
}
template<class T> void dump(std::ostream &o, const summary<T> &s)
{
  dump(o, s.best.solution);
  o << ' ';
  dump(o, s.best.score.fitness);
  o << ' ' << hex64(bits_of(s.best.score.accuracy));
  o << ' ' << s.elapsed.count() << ' ' << hex64(s.mutations) << ' ' << hex64(s.crossovers)
    << ' ' << hex64(s.gen) << ' ' << hex64(s.last_imp);
}
void dump(std::ostream &o, const distribution<double> &d)
{
  o << hex64(d.count_) << ' ' << hex64(bits_of(d.mean_)) << ' ' << hex64(bits_of(d.min_)) << ' '
    << hex64(bits_of(d.max_)) << ' ' << hex64(bits_of(d.m2_)) << ' ' << d.seen_.size();
  for (const auto &e : d.seen_) o << ' ' << hex64(bits_of(e.first)) << ' ' << hex64(e.second);
}
void dump(std::ostream &o, const matrix<int> &m)
{
  o << hex64(m.cols_) << ' ' << m.data_.size();
  for (auto e : m.data_) o << ' ' << e;
}
template<class T> std::string dump_s(const T &x)
{
  std::ostringstream o;
  dump(o, x);
  return o.str();
}

// ---- uniform access ---------------------------------------------------------
bool do_load(hash_t &x, std::istream &in, const problem &) { return x.load(in); }
bool do_load(fitness_t &x, std::istream &in, const problem &) { return x.load(in); }
bool do_load(i_mep &x, std::istream &in, const problem &p) { return x.load(in, p.sset); }
bool do_load(i_ga &x, std::istream &in, const problem &p) { return x.load(in, p.sset); }
bool do_load(i_de &x, std::istream &in, const problem &p) { return x.load(in, p.sset); }
template<class T> bool do_load(team<T> &x, std::istream &in, const problem &p) { return x.load(in, p.sset); }
template<class T> bool do_load(population<T> &x, std::istream &in, const problem &p) { return x.load(in, p); }
template<class T> bool do_load(summary<T> &x, std::istream &in, const problem &p) { return x.load(in, p); }
bool do_load(distribution<double> &x, std::istream &in, const problem &) { return x.load(in); }
bool do_load(matrix<int> &x, std::istream &in, const problem &) { return x.load(in); }

template<class T> bool valid(const T &x) { return x.is_valid(); }
bool valid(const hash_t &) { return true; }
bool valid(const fitness_t &) { return true; }
bool valid(const matrix<int> &) { return true; }
template<class T> bool valid(const summary<T> &s) { return s.best.solution.is_valid(); }

// computed signature (not the cached field): "-" for types without one
template<class T> std::string sig(const T &) { return "-"; }
std::string sig(const i_mep &x) { return dump_s(x.signature()); }
std::string sig(const i_ga &x) { return dump_s(x.signature()); }
std::string sig(const i_de &x) { return dump_s(x.signature()); }
template<class T> std::string sig(const team<T> &x) { return x.individuals() ? dump_s(x.signature()) : "-"; }
template<class T> std::string sig(const population<T> &p)
{
  std::string s;
  for (const auto &l : p.pop_)
    for (const auto &i : l) s += sig(i) + ",";
  return s.empty() ? "-" : s;
}
template<class T> std::string sig(const summary<T> &s)
{
  return s.best.solution.empty() ? "-" : sig(s.best.solution);
}

// copy with every cached signature cleared (what a reload must reproduce)
template<class T> void clear_sigs(T &) {}
void clear_sigs(i_mep &x) { x.signature_.clear(); }
void clear_sigs(i_ga &x) { x.signature_.clear(); }
void clear_sigs(i_de &x) { x.signature_.clear(); }
template<class T> void clear_sigs(team<T> &t)
{
  t.signature_.clear();
  for (auto &i : t.individuals_) clear_sigs(i);
}
template<class T> void clear_sigs(population<T> &p)
{
  for (auto &l : p.pop_)
    for (auto &i : l) clear_sigs(i);
}
template<class T> void clear_sigs(summary<T> &s) { clear_sigs(s.best.solution); }

bool last_save_ok = true;  // return value of the most recent save()
bool long_elapsed = false;    // type SUMGAX: a run longer than 2^31 ms

template<class T> std::string save_s(const T &x)
{
  std::ostringstream o;
  last_save_ok = x.save(o);
  return o.str();
}

// ---- histories ----------------------------------------------------------------
template<class T> struct tag {};

void perturb(i_mep &x)
{
  // ephemeral constants of any magnitude
  for (auto &g : x.genome_.data_)
    if (g.sym->terminal() && terminal::cast(g.sym)->parametric() && random::boolean(0.5))
      g.par = extreme();
  x.signature_.clear();
}

i_mep gen(tag<i_mep>, problem &p, unsigned steps)
{
  i_mep a(p);
  for (unsigned s(0); s < steps; ++s)
    switch (random::between(0, 10))
    {
    // block operations: the entry locus of the result is, in general, not {0,0}
    case 6:
      a = a.get_block({random::sup(static_cast<index_t>(a.size())), random::sup(static_cast<category_t>(a.categories()))});
      break;
    case 7: a = a.destroy_block(random::sup(static_cast<index_t>(a.size())), p.sset); break;
    case 8: a = a.replace(gene(p.sset.roulette_terminal(a.category()))); break;
    case 9: a = a.cse(); break;
    case 0: a.mutation(0.3, p); break;
    case 1:
    {
      i_mep b(p);
      for (auto j(random::between(0u, 40u)); j; --j) b.inc_age();
      a = crossover(a, b);
      break;
    }
    case 2: a.inc_age(); break;
    case 3: (void)a.signature(); break;
    case 4: perturb(a); break;
    default: a.inc_age(); a.mutation(0.1, p); break;
    }
  return a;
}

i_ga gen(tag<i_ga>, problem &p, unsigned steps)
{
  i_ga a(p);
  for (unsigned s(0); s < steps; ++s)
    switch (random::between(0, 4))
    {
    case 0: a.mutation(0.5, p); break;
    case 1:
    {
      i_ga b(p);
      for (auto j(random::between(0u, 40u)); j; --j) b.inc_age();
      a = crossover(a, b);
      break;
    }
    case 2: a.inc_age(); break;
    default: (void)a.signature(); break;
    }
  return a;
}

i_de gen(tag<i_de>, problem &p, unsigned steps)
{
  i_de a(p);
  for (unsigned s(0); s < steps; ++s)
    switch (random::between(0, 4))
    {
    case 0:
    {
      i_de b(p), c(p), d(p);
      for (auto j(random::between(0u, 40u)); j; --j) c.inc_age();
      a = a.crossover(0.7, {0.5, 1.0}, b, c, d);
      break;
    }
    case 1:
    {
      std::vector<double> v(a.parameters());
      for (auto &e : v) e = extreme();
      a = v;
      a.signature_.clear();
      break;
    }
    case 2: a.inc_age(); break;
    default: (void)a.signature(); break;
    }
  return a;
}

team<i_mep> gen(tag<team<i_mep>>, problem &p, unsigned steps)
{
  p.env.team.individuals = random::between(1u, 4u);
  team<i_mep> a(p);
  for (unsigned s(0); s < steps; ++s)
    switch (random::between(0, 5))
    {
    case 0: a.mutation(0.3, p); break;
    case 1:
    {
      team<i_mep> b(p);
      for (auto j(random::between(0u, 40u)); j; --j) b.inc_age();
      a = crossover(a, b);
      break;
    }
    case 2: a.inc_age(); break;
    case 3: (void)a.signature(); break;
    default:
      for (auto &i : a.individuals_)
        if (random::boolean(0.3)) { perturb(i); i.inc_age(); }
        else if (random::boolean(0.4)) i = gen(tag<i_mep>(), p, 6);   // a member reached by its own history
      a.signature_.clear();
      break;
    }
  return a;
}

template<class T> population<T> gen(tag<population<T>>, problem &p, unsigned steps)
{
  p.env.individuals = random::between(2u, 7u);
  p.env.min_individuals = 1;
  population<T> a(p);
  for (unsigned s(0); s < steps; ++s)
    switch (random::between(0, 9))
    {
    case 0:
      if (a.layers() < 5) a.add_layer();
      break;
    case 1: a.inc_age(); break;
    case 2:
    {
      // the first layer keeps one individual, the others may be emptied
      const auto l(random::sup(a.layers()));
      if (a.individuals(l) > (l ? 0u : 1u)) a.pop_from_layer(l);
      break;
    }
    case 3:
    {
      const auto l(random::sup(a.layers()));
      a.set_allowed(l, random::between<unsigned>(1, static_cast<unsigned>(a.pop_[l].capacity()) + 1));
      break;
    }
    case 4:
    {
      const auto l(random::sup(a.layers()));
      a.add_to_layer(l, gen(tag<T>(), p, 2));
      break;
    }
    case 5:
      if (a.layers() > 1) a.remove_layer(random::between(1u, a.layers()));
      break;
    case 6:
      // an intermediate or top layer loses all its individuals (allowed stays > 0)
      if (a.layers() > 1)
      {
        const auto l(random::between(1u, a.layers()));
        while (a.individuals(l)) a.pop_from_layer(l);
      }
      break;
    case 7:
    {
      // a member reached by its own operator history
      const auto l(random::sup(a.layers()));
      if (a.individuals(l))
        a[{l, random::sup(a.individuals(l))}] = gen(tag<T>(), p, 6);
      break;
    }
    default:
      if (a.layers() < 5) a.add_layer();
      break;
    }
  return a;
}

fitness_t gen(tag<fitness_t>, problem &, unsigned steps)
{
  fitness_t::values_t v(1 + steps % 4);
  for (auto &e : v) e = extreme();
  return fitness_t(v);
}

template<class T> summary<T> gen(tag<summary<T>>, problem &p, unsigned steps)
{
  summary<T> s;
  s.elapsed = std::chrono::milliseconds(random::between(0u, 2000000000u));
  if (long_elapsed)
    s.elapsed = std::chrono::milliseconds(2147483648ll + random::between(0u, 2000000000u) * 1000ll);
  s.mutations = random::between<std::uintmax_t>(0, std::numeric_limits<std::uintmax_t>::max());
  s.crossovers = random::between<std::uintmax_t>(0, 1000000);
  s.gen = random::between(0u, 100000u);
  s.last_imp = random::between(0u, std::numeric_limits<unsigned>::max());
  if (steps)
  {
    s.best.solution = gen(tag<T>(), p, steps);
    s.best.score.fitness = gen(tag<fitness_t>(), p, random::between(0u, 4u));
    s.best.score.accuracy = random::boolean() ? -1.0 : random::between(0.0, 1.0);
  }
  return s;
}

hash_t gen(tag<hash_t>, problem &, unsigned steps)
{
  auto r([] { return random::between<std::uint64_t>(0, std::numeric_limits<std::uint64_t>::max()); });
  switch (steps % 4)
  {
  case 0: return hash_t(r(), r());
  case 1: return hash_t(0, std::numeric_limits<std::uint64_t>::max());
  case 2: return hash_t(std::numeric_limits<std::uint64_t>::max(), r() % 10);
  default: return hash_t(r() % 1000, 0);
  }
}

bool dist_unbounded = false;  // type DISTX: values whose squares overflow

distribution<double> gen(tag<distribution<double>>, problem &, unsigned steps)
{
  distribution<double> d;
  if (dist_unbounded)
  {
    d.add(1e200);
    d.add(-1e200);
  }
  for (unsigned s(0); s < steps; ++s)
    switch (random::between(0, 4))
    {
    case 0:
    {
      const double e(extreme());
      d.add(std::fabs(e) < 1e100 ? e : 1e100);
      break;
    }
    case 1: d.add(static_cast<double>(random::between(-3, 4))); break;
    case 2: d.add(random::between(-1e6, 1e6)); break;
    default: d.add(0.5); break;
    }
  return d;
}

matrix<int> gen(tag<matrix<int>>, problem &, unsigned steps)
{
  matrix<int> m(random::between(0u, 5u), steps % 5);
  for (auto &e : m.data_)
    switch (random::between(0, 4))
    {
    case 0: e = std::numeric_limits<int>::min(); break;
    case 1: e = std::numeric_limits<int>::max(); break;
    default: e = random::between(-1000, 1000); break;
    }
  return m;
}

// ---- replace the content, keep the shape -----------------------------------------
void reshape(hash_t &h, problem &) { h.data[0] ^= 1; h.data[1] ^= 0x5555; }
void reshape(fitness_t &f, problem &)
{
  fitness_t::values_t v(f.size());
  for (std::size_t i(0); i < f.size(); ++i) v[i] = -f[i] + 1.0;
  f = fitness_t(v);
}
void reshape(i_mep &x, problem &p)
{
  if (x.empty()) return;
  const auto age(x.age());
  x = i_mep(p);                       // same rows x categories
  for (unsigned i(0); i < age + 3; ++i) x.inc_age();
}
void reshape(i_ga &x, problem &)
{
  for (auto &g : x.genome_) g ^= 0x2A;
  x.inc_age();
  x.signature_.clear();
}
void reshape(i_de &x, problem &)
{
  for (auto &g : x.genome_) g = -g * 0.5 + 1.0;
  x.inc_age();
  x.signature_.clear();
}
template<class T> void reshape(team<T> &t, problem &p)
{
  for (auto &i : t.individuals_) reshape(i, p);
  t.signature_.clear();
}
template<class T> void reshape(population<T> &pop, problem &p)
{
  for (auto &l : pop.pop_)
    for (auto &i : l) reshape(i, p);
}
template<class T> void reshape(summary<T> &s, problem &p)
{
  reshape(s.best.solution, p);
  if (s.best.score.fitness.size()) reshape(s.best.score.fitness, p);
  s.mutations ^= 0xFF;
  s.gen += 1;
}
void reshape(distribution<double> &d, problem &)
{
  std::map<double, std::uintmax_t> m;
  for (const auto &e : d.seen_) m[-e.first] = e.second + 1;
  d.seen_ = m;
  const double mn(d.min_), mx(d.max_);
  d.min_ = -mx;
  d.max_ = -mn;
  d.mean_ = -d.mean_;
  d.m2_ = d.m2_ * 0.5;
}
void reshape(matrix<int> &m, problem &)
{
  for (auto &e : m.data_) e ^= 0x2A;
}

// which of the known problem objects a population is bound to
template<class T> std::string bound_problem(const T &) { return "-"; }
template<class T> std::string bound_problem(const population<T> &pop)
{
  const problem *q(pop.prob_);
  const problem *known[] = {&P->mep1, &P->mep2, &P->ga, &P->de, &P2->mep1, &P2->mep2, &P2->ga, &P2->de};
  for (int i(0); i < 8; ++i)
    if (q == known[i]) return "P" + std::to_string(i);
  return "P?";
}

template<class T> T fresh(tag<T>, problem &) { return T(); }
template<class T> population<T> fresh(tag<population<T>>, problem &p) { return population<T>(p); }

template<class T> void run(const std::vector<std::string> &w, problem &p, problem &palt)
{
  const unsigned seed(static_cast<unsigned>(std::stoul(w[3])));
  const unsigned steps(static_cast<unsigned>(std::stoul(w[4])));
  random::seed(seed);
  T x(gen(tag<T>(), p, steps));

  if (w[0] == "GEN")
  {
    const std::string d0(dump_s(x)), s0(save_s(x)), g0(sig(x));
    const bool save_ok(last_save_ok);
    T y(fresh(tag<T>(), p));
    std::istringstream in(s0);
    const bool ret(do_load(y, in, p));
    T xc(x);
    clear_sigs(xc);
    std::cout << "OK | " << d0 << " | " << to_hex(s0) << " | " << ret << " | " << dump_s(y) << " | "
              << to_hex(save_s(y)) << " | " << g0 << ' ' << (ret && valid(y) ? sig(y) : std::string("invalid"))
              << " | " << valid(y) << " | " << dump_s(xc) << " | " << save_ok << '\n';
  }
  else
  {
    const std::string flags(w.size() > 6 ? w[6] : "");
    if (flags.find('s') != std::string::npos)
      reshape(x, p);
    problem &lp(flags.find('2') != std::string::npos ? palt : p);
    const std::string d0(dump_s(x)), s0(save_s(x)), b0(bound_problem(x));
    const bool v0(valid(x));
    std::istringstream in(from_hex(w[5]));
    const bool ret(do_load(x, in, lp));
    std::cout << "OK | " << ret << " | " << d0 << " | " << to_hex(s0) << " | " << v0 << " | " << dump_s(x) << " | "
              << to_hex(save_s(x)) << " | " << valid(x) << " | " << b0 << ' ' << bound_problem(x) << '\n';
  }
}

// ---- the fitness cache: op script, save, load into a fresh cache, every key ever used looked up in both
void run_cache(const std::vector<std::string> &w)
{
  const unsigned bits(static_cast<unsigned>(std::stoul(w[1])));
  cache c(bits);
  std::vector<hash_t> keys;
  auto note([&keys](const hash_t &h)
  {
    for (const auto &k : keys)
      if (k == h) return;
    keys.push_back(h);
  });
  auto fields([](const std::string &s)
  {
    std::vector<std::string> out;
    std::string cur;
    for (char ch : s)
      if (ch == ',') { out.push_back(cur); cur.clear(); } else cur += ch;
    out.push_back(cur);
    return out;
  });
  for (std::size_t i(2); i < w.size(); ++i)
  {
    const auto f(fields(w[i]));
    if (f[0] == "C")
      c.clear();
    else if (f[0] == "X" && f.size() == 3)
    {
      const hash_t h(std::stoull(f[1], nullptr, 16), std::stoull(f[2], nullptr, 16));
      note(h);
      c.clear(h);
    }
    else if (f[0] == "I" && f.size() >= 3)
    {
      const hash_t h(std::stoull(f[1], nullptr, 16), std::stoull(f[2], nullptr, 16));
      fitness_t::values_t v;
      for (std::size_t j(3); j < f.size(); ++j) v.push_back(double_of(std::stoull(f[j], nullptr, 16)));
      note(h);
      c.insert(h, fitness_t(v));
    }
  }
  std::ostringstream o;
  c.save(o);
  cache c2(bits);
  std::istringstream in(o.str());
  const bool ret(c2.load(in));
  std::ostringstream o2;
  c2.save(o2);
  std::cout << "OK | " << ret << " | " << to_hex(o.str()) << " | " << to_hex(o2.str()) << " | " << keys.size();
  for (const auto &k : keys)
  {
    std::cout << ' ';
    dump(std::cout, k);
    const fitness_t a(c.find(k)), b(c2.find(k));
    std::cout << ' ';
    if (!a.size()) std::cout << '-';
    for (std::size_t j(0); j < a.size(); ++j) std::cout << (j ? "," : "") << hex64(bits_of(a[j]));
    std::cout << ' ';
    if (!b.size()) std::cout << '-';
    for (std::size_t j(0); j < b.size(); ++j) std::cout << (j ? "," : "") << hex64(bits_of(b[j]));
  }
  std::cout << '\n';
}
// ---- search::save / search::load of the evaluator cache --------------------------------
unsigned long eva_calls = 0;
struct counting_evaluator : evaluator<i_mep>
{
  fitness_t operator()(const i_mep &i) override
  {
    ++eva_calls;
    const hash_t h(i.signature());
    return {static_cast<double>(h.data[0] % 100000) / 7.0, -static_cast<double>(h.data[1] % 1000)};
  }
};

std::string fit_s(const fitness_t &f)
{
  if (!f.size()) return "-";
  std::string s;
  for (std::size_t j(0); j < f.size(); ++j) s += (j ? "," : "") + hex64(bits_of(f[j]));
  return s;
}

void run_search(const std::vector<std::string> &w)
{
  problem &p(P->mep1);
  const unsigned bits(static_cast<unsigned>(std::stoul(w[1])));
  const unsigned n(static_cast<unsigned>(std::stoul(w[2])));
  random::seed(static_cast<unsigned>(std::stoul(w[3])));
  const int clear_after(std::stoi(w[4]));
  const std::string file(w[5] == "none" ? "" : w[5] == "bad" ? "/nonexistent-dir/vv/cache.txt"
                                             : "/tmp/vv_c11_search_" + std::to_string(getpid()) + ".txt");
  const auto old_cache(p.env.cache_size);
  const auto old_file(p.env.misc.serialization_file);
  p.env.cache_size = bits;
  p.env.misc.serialization_file = file;

  std::vector<i_mep> inds;
  for (unsigned i(0); i < n; ++i) inds.push_back(gen(tag<i_mep>(), p, i % 4));

  search<i_mep, std_es> s1(p);
  s1.training_evaluator<counting_evaluator>();
  using proxy_t = evaluator_proxy<i_mep, counting_evaluator>;
  auto *px1(static_cast<proxy_t *>(s1.eva1_.get()));
  for (unsigned i(0); i < n; ++i)
  {
    (*s1.eva1_)(inds[i]);
    if (static_cast<int>(i) == clear_after) s1.eva1_->clear();
  }
  const bool sret(s1.save());
  std::string content;
  if (!file.empty())
  {
    std::ifstream f(file);
    std::stringstream ss;
    ss << f.rdbuf();
    content = ss.str();
  }
  std::ostringstream cs;
  px1->cache_.save(cs);

  search<i_mep, std_es> s2(p);
  s2.training_evaluator<counting_evaluator>();
  const bool lret(s2.load());

  std::cout << "OK | " << sret << " | " << lret << " | " << to_hex(content) << " | " << to_hex(cs.str()) << " | " << n;
  auto *px2(static_cast<proxy_t *>(s2.eva1_.get()));
  // pure lookups first (they do not change the tables) ...
  std::vector<std::string> col;
  for (unsigned i(0); i < n; ++i)
  {
    const hash_t h(inds[i].signature());
    col.push_back(hex64(h.data[0]) + ' ' + fit_s(px1->cache_.find(h)) + ' ' + fit_s(px2->cache_.find(h)));
  }
  // ... then one evaluation through the reloaded proxy (a miss inserts, possibly over another slot: the
  // expected answer is the lookup made just before)
  for (unsigned i(0); i < n; ++i)
  {
    const fitness_t pre(px2->cache_.find(inds[i].signature()));
    const auto c0(eva_calls);
    const fitness_t e2((*s2.eva1_)(inds[i]));
    std::cout << ' ' << col[i] << ' ' << fit_s(pre) << ' ' << (eva_calls == c0) << ' ' << fit_s(e2);
  }
  std::cout << '\n';
  if (!file.empty()) std::remove(file.c_str());
  p.env.cache_size = old_cache;
  p.env.misc.serialization_file = old_file;
}
// ---- trained models: serialize::save / serialize::lambda::load -------------------------
src_problem *SP = nullptr;

value_t parse_val(const std::string &t)
{
  if (t == "v") return {};
  if (t.size() > 2 && t[1] == ':')
  {
    if (t[0] == 'i') return static_cast<D_INT>(std::stol(t.substr(2)));
    if (t[0] == 'd') return double_of(std::stoull(t.substr(2), nullptr, 16));
  }
  throw std::runtime_error("bad value token " + t);
}
std::string show_val(const value_t &v)
{
  switch (v.index())
  {
  case d_void: return "v";
  case d_int: return "i:" + std::to_string(std::get<D_INT>(v));
  case d_double:
  {
    const double d(std::get<D_DOUBLE>(v));
    return d != d ? "d:7ff8000000000000" : "d:" + hex64(bits_of(d));
  }
  default: return "s";
  }
}
std::string show_tag(const classification_result &c)
{
  const double s(c.sureness);
  return std::to_string(c.label) + "/" + (s != s ? std::string("7ff8000000000000") : hex64(bits_of(s)));
}
std::string predict_src(const basic_src_lambda_f &l, const dataframe::example &e, bool cls)
{
  return cls ? show_tag(l.tag(e)) : show_val(l(e));
}

i_mep model_prog(const std::string &spec)
{
  if (spec[0] == 'x')
  {
    symbol *s(SP->sset.decode("X" + std::to_string(std::stoi(spec.substr(1)) + 1)));
    if (!s) throw std::runtime_error("no variable");
    return i_mep(std::vector<gene>{gene(std::pair<symbol *, std::vector<index_t>>{s, {}})});
  }
  random::seed(static_cast<unsigned>(std::stoul(spec.substr(1))));
  return i_mep(*SP);
}
template<class P> P model_program(const std::vector<std::string> &specs);
template<> i_mep model_program<i_mep>(const std::vector<std::string> &specs) { return model_prog(specs.at(0)); }
template<> team<i_mep> model_program<team<i_mep>>(const std::vector<std::string> &specs)
{
  std::vector<i_mep> v;
  for (const auto &s : specs) v.push_back(model_prog(s));
  return team<i_mep>(v);
}

template<class M, class P, class MK>
void model_case(const std::vector<std::string> &progs, const std::vector<dataframe::example> &query, MK mk)
{
  constexpr bool cls = std::is_base_of_v<core_class_lambda_f, M>;
  std::unique_ptr<P> prg(new P(model_program<P>(progs)));
  std::unique_ptr<M> m(new M(mk(*prg, SP->data())));
  prg.reset();
  std::stringstream ss;
  const bool saved(serialize::save(ss, *m));
  const std::string text(ss.str());
  std::unique_ptr<basic_src_lambda_f> l2;
  std::string loaded("1");
  try { l2 = serialize::lambda::load<P>(ss, SP->sset); }
  catch (const std::exception &e) { loaded = std::string("EXC:") + e.what(); for (auto &ch : loaded) if (ch == ' ' || ch == '|') ch = '_'; }
  if (!l2 && loaded == "1") loaded = "0";
  std::string text2;
  if (l2)
  {
    std::stringstream s2;
    serialize::save(s2, *l2);
    text2 = s2.str();
  }
  std::cout << "OK | " << saved << " | " << loaded << " | " << to_hex(text) << " | " << to_hex(text2) << " | " << query.size();
  // the label STRING of the prediction too (class names travel with the model)
  for (const auto &e : query)
    std::cout << ' ' << predict_src(*m, e, cls) << ' ' << (l2 ? predict_src(*l2, e, cls) : std::string("-"))
              << ' ' << to_hex(m->name((*m)(e))) << ' ' << (l2 ? to_hex(l2->name((*l2)(e))) : std::string("?"));
  std::cout << '\n';
}

void run_model(const std::vector<std::string> &w)
{
  using IND = i_mep;
  using TEAM = team<i_mep>;
  using MV_DYN = team_class_lambda_f<IND, true, true, basic_dyn_slot_lambda_f, team_composition::mv>;
  using MV_GAUSS = team_class_lambda_f<IND, true, true, basic_gaussian_lambda_f, team_composition::mv>;
  using MV_BIN = team_class_lambda_f<IND, true, true, basic_binary_lambda_f, team_composition::mv>;
  std::size_t p(1);
  auto next([&]() -> const std::string & { if (p >= w.size()) throw std::runtime_error("short line"); return w[p++]; });
  const std::string key(next() + "/" + w.at(2));
  ++p;
  const long classes(std::stol(next()));
  const unsigned xs(static_cast<unsigned>(std::stoul(next())));
  std::vector<std::string> progs;
  for (long n(std::stol(next())); n > 0; --n) progs.push_back(next());
  dataframe &d(SP->data());
  d.clear();
  d.classes_map_.clear();
  // optional last token L<style>: how the class labels look (they are saved one per line)
  const int style(w.back().size() >= 2 && w.back()[0] == 'L' ? std::stoi(w.back().substr(1)) : 0);
  for (long c(0); c < classes; ++c)
  {
    const std::string k(std::to_string(c));
    std::string name("c" + k);
    switch (style)
    {
    case 1: name = "Iris setosa " + k; break;                        // inner blanks
    case 2: name = c ? "  lead " + k : "first"; break;               // leading blanks (not on the first label)
    case 3: name = "trail" + k + "  "; break;                        // trailing blanks
    case 4: name = "tab\there" + k + "\tx"; break;                   // tabs
    case 5: name = std::to_string(c * 7 + 10); break;                // digits only
    case 6: name = c ? "1" + k + " 2" + k + " 3" : "0 0"; break;     // digits with blanks
    case 7: name = c ? std::string(static_cast<std::size_t>(c), ' ') : "x"; break;  // blank-only, empty looking
    case 8: name = c == 1 ? "" : "n" + k; break;                     // one empty label
    default: break;
    }
    d.classes_map_[name] = static_cast<class_t>(c);
  }
  for (long n(std::stol(next())); n > 0; --n)
  {
    dataframe::example e;
    e.output = parse_val(next());
    for (int k(0); k < 3; ++k) e.input.push_back(parse_val(next()));
    d.push_back(e);
  }
  std::vector<dataframe::example> query;
  for (long n(std::stol(next())); n > 0; --n)
  {
    dataframe::example e;
    for (int k(0); k < 3; ++k) e.input.push_back(parse_val(next()));
    query.push_back(e);
  }
  auto reg([](const auto &prg, dataframe &) { return reg_lambda_f<std::decay_t<decltype(prg)>>(prg); });
#define MCASE(K, M, P, MK) if (key == K) { model_case<M, P>(progs, query, MK); return; }
  MCASE("reg/ind", reg_lambda_f<IND>, IND, reg)
  MCASE("reg/team", reg_lambda_f<TEAM>, TEAM, reg)
  MCASE("dyn/ind", dyn_slot_lambda_f<IND>, IND, ([xs](const IND &q, dataframe &df) { return dyn_slot_lambda_f<IND>(q, df, xs); }))
  MCASE("dyn/wta", dyn_slot_lambda_f<TEAM>, TEAM, ([xs](const TEAM &q, dataframe &df) { return dyn_slot_lambda_f<TEAM>(q, df, xs); }))
  MCASE("dyn/mv", MV_DYN, TEAM, ([xs](const TEAM &q, dataframe &df) { return MV_DYN(q, df, xs); }))
  MCASE("gauss/ind", gaussian_lambda_f<IND>, IND, ([](const IND &q, dataframe &df) { return gaussian_lambda_f<IND>(q, df); }))
  MCASE("gauss/wta", gaussian_lambda_f<TEAM>, TEAM, ([](const TEAM &q, dataframe &df) { return gaussian_lambda_f<TEAM>(q, df); }))
  MCASE("gauss/mv", MV_GAUSS, TEAM, ([](const TEAM &q, dataframe &df) { return MV_GAUSS(q, df); }))
  MCASE("bin/ind", binary_lambda_f<IND>, IND, ([](const IND &q, dataframe &df) { return binary_lambda_f<IND>(q, df); }))
  MCASE("bin/wta", binary_lambda_f<TEAM>, TEAM, ([](const TEAM &q, dataframe &df) { return binary_lambda_f<TEAM>(q, df); }))
  MCASE("bin/mv", MV_BIN, TEAM, ([](const TEAM &q, dataframe &df) { return MV_BIN(q, df); }))
#undef MCASE
  std::cout << "BADCASE " << key << '\n';
}
}  // namespace

int main()
{
  log::reporting_level = log::lOFF;
  problems ps;
  P = &ps;
  problems ps2;
  P2 = &ps2;
  src_problem spr;
  {
    std::istringstream csv("1.0,1.0,2.0,3.0\n2.0,4.0,5.0,6.0\n3.0,7.0,8.0,9.5\n");
    spr.data().read_csv(csv);
  }
  spr.env.init();
  spr.env.mep.code_length = 12;
  spr.setup_symbols();
  SP = &spr;

  std::ios::sync_with_stdio(false);
  std::string line;
  while (std::getline(std::cin, line))
  {
    const auto w(split(line));
    try
    {
      if (w.size() == 2 && w[0] == "SSET")
      {
        const int ks(std::stoi(w[1]));
        const auto &ss((ks < 2 ? ps : ps2).mep(ks % 2).sset);
        std::cout << ss.symbols_.size();
        for (const auto &s : ss.symbols_)
          std::cout << ' ' << hex64(s->opcode()) << ' ' << s->arity() << ' '
                    << (s->terminal() && terminal::cast(s.get())->parametric() ? 1 : 0);
        std::cout << '\n';
        continue;
      }
      if (w.size() > 8 && w[0] == "MODEL")
      {
        run_model(w);
        continue;
      }
      if (w.size() == 6 && w[0] == "SEARCH")
      {
        run_search(w);
        continue;
      }
      if (w.size() >= 2 && w[0] == "CACHE")
      {
        run_cache(w);
        continue;
      }
      if (w.size() < 5 || (w[0] != "GEN" && w[0] != "LOAD") || (w[0] == "LOAD" && w.size() < 6))
      {
        std::cout << "BADLINE\n";
        continue;
      }
      const std::string &t(w[1]);
      const int k(std::stoi(w[2]));
      if (t == "H") run<hash_t>(w, ps.mep1, ps2.mep1);
      else if (t == "F") run<fitness_t>(w, ps.mep1, ps2.mep1);
      else if (t == "MEP") run<i_mep>(w, ps.mep(k), ps2.mep(k));
      else if (t == "GA") run<i_ga>(w, ps.ga, ps2.ga);
      else if (t == "DE") run<i_de>(w, ps.de, ps2.de);
      else if (t == "TEAM") run<team<i_mep>>(w, ps.mep(k), ps2.mep(k));
      else if (t == "POPMEP") run<population<i_mep>>(w, ps.mep(k), ps2.mep(k));
      else if (t == "POPGA") run<population<i_ga>>(w, ps.ga, ps2.ga);
      else if (t == "POPDE") run<population<i_de>>(w, ps.de, ps2.de);
      else if (t == "POPTEAM") run<population<team<i_mep>>>(w, ps.mep(k), ps2.mep(k));
      else if (t == "SUMMEP") run<summary<i_mep>>(w, ps.mep(k), ps2.mep(k));
      else if (t == "SUMGA" || t == "SUMGAX")
      {
        long_elapsed = (t == "SUMGAX");
        run<summary<i_ga>>(w, ps.ga, ps2.ga);
      }
      else if (t == "SUMDE") run<summary<i_de>>(w, ps.de, ps2.de);
      else if (t == "DIST" || t == "DISTX")
      {
        dist_unbounded = (t == "DISTX");
        run<distribution<double>>(w, ps.mep1, ps2.mep1);
      }
      else if (t == "MAT") run<matrix<int>>(w, ps.mep1, ps2.mep1);
      else std::cout << "BADTYPE\n";
    }
    catch (const std::exception &e)
    {
      std::cout << "EXC " << e.what() << '\n';
    }
  }
}
