// Correspondence harness for C02 (genetic operators of i_mep / team<i_mep>).
// Runs histories of the REAL operators (constructor, mutation, crossover with
// the flavour read/forced through hook H2, get_block, replace, destroy_block,
// cse, team liftings) and prints, per operation, the random draws the real
// code consumed (hook H1) and the resulting individual cell by cell.
//
// input, one case per line:
//   <I|T> <seed> <rows> <patch> <team size> <slots>
//   S <cats> <nsyms> { <cat> <f|b|t|p|q|n> <weight> <nargs> <argcat>... }
//   O { N k | M k pgmhex | F k t | X a b k | B k idx cat |
//       R k idx cat symid parhex nargs args... | D k idx | C k | A k | W k | E rows patch }
// output, one line per case:
//   W <cat wheels> ; <draws> # <count> # <dump> ; ...
#include <bits/stdc++.h>
#include <unistd.h>

#define private public
#define protected public
#include "common.h"
#include "kernel/gp/src/primitive/real.h"
#undef private
#undef protected

using namespace vita;

namespace
{
std::vector<std::string> draws;
bool logging = false;

std::string ld_int(long double v)
{
  char buf[64];
  std::snprintf(buf, sizeof(buf), "%.0Lf", v);
  return buf;
}

void sink(char k, long double lo, long double hi, long double v)
{
  if (!logging) return;
  switch (k)
  {
  case 'i':
    draws.push_back("i:" + ld_int(lo) + ":" + ld_int(hi) + ":" + ld_int(v));
    break;
  case 'b':
    draws.push_back("b:" + vv::hex64(vv::bits_of(static_cast<double>(hi))) + ":"
                    + (v != 0 ? "1" : "0"));
    break;
  case 'r':
    draws.push_back("r:" + vv::hex64(vv::bits_of(static_cast<double>(v))));
    break;
  default:
    draws.push_back(std::string("?:") + k);
  }
}

class vfun final : public function
{
public:
  vfun(const std::string &n, category_t c, cvect a) : function(n, c, std::move(a)) {}
  value_t eval(symbol_params &) const override { return {}; }
};
class vterm final : public terminal
{
public:
  vterm(const std::string &n, category_t c) : terminal(n, c) {}
  value_t eval(symbol_params &) const override { return {}; }
};
class vpar_i final : public terminal
{
public:
  vpar_i(const std::string &n, category_t c) : terminal(n, c) {}
  bool parametric() const override { return true; }
  terminal_param_t init() const override { return random::between<int>(-100, 100); }
  value_t eval(symbol_params &) const override { return {}; }
};
class vpar_r final : public terminal
{
public:
  vpar_r(const std::string &n, category_t c) : terminal(n, c) {}
  bool parametric() const override { return true; }
  terminal_param_t init() const override { return random::between<double>(-10.0, 10.0); }
  value_t eval(symbol_params &) const override { return {}; }
};

// ephemeral constant drawn from a very narrow interval: many constants that
// differ by less than the 1e-5 relative tolerance of almost_equal without
// being identical (the boundary between gene::operator== and an exact order)
class vpar_n final : public terminal
{
public:
  vpar_n(const std::string &n, category_t c) : terminal(n, c) {}
  bool parametric() const override { return true; }
  terminal_param_t init() const override { return random::between<double>(1.0, 1.00003); }
  value_t eval(symbol_params &) const override { return {}; }
};

struct ctx
{
  problem prob;
  std::vector<symbol *> syms;
  std::map<const symbol *, unsigned> id;
};

std::string dump(const ctx &cx, const i_mep &p)
{
  std::ostringstream o;
  o << p.size() << ' ' << p.categories() << ' ';
  if (p.empty())
    o << "0 0";
  else
    o << p.best().index << ' ' << p.best().category;
  o << ' ' << p.age() << ' ' << static_cast<int>(p.verif_crossover());
  for (index_t i(0); i < p.size(); ++i)
    for (category_t c(0); c < p.categories(); ++c)
    {
      const gene &g(p[{i, c}]);
      o << ' ';
      if (!g.sym) { o << '-'; continue; }
      const auto it(cx.id.find(g.sym));
      if (it == cx.id.end()) { o << '?'; continue; }
      o << it->second;
      if (g.sym->terminal() && terminal::cast(g.sym)->parametric())
        o << '/' << vv::hex64(vv::bits_of(g.par));
      for (auto a : g.args) o << ',' << a;
    }
  return o.str();
}

std::string dump(const ctx &cx, const team<i_mep> &t)
{
  std::string o;
  for (unsigned i(0); i < t.individuals(); ++i)
    o += (i ? " | " : "") + dump(cx, t[i]);
  return o;
}

std::string take_draws()
{
  std::string o;
  for (const auto &d : draws) o += (o.empty() ? "" : " ") + d;
  draws.clear();
  return o;
}

std::string wheels(const ctx &cx)
{
  std::ostringstream o;
  o << "W";
  for (category_t c(0); c < cx.prob.sset.categories(); ++c)
  {
    const auto &v(cx.prob.sset.views_[c]);
    o << " F";
    for (const auto &ws : v.functions) o << ' ' << cx.id.at(ws.sym) << ':' << ws.weight;
    o << " T";
    for (const auto &ws : v.terminals) o << ' ' << cx.id.at(ws.sym) << ':' << ws.weight;
    o << " E";
  }
  return o.str();
}

template<class T> void force(T &x, int t);
template<> void force(i_mep &x, int t) { x.verif_crossover(static_cast<i_mep::crossover_t>(t)); }
template<> void force(team<i_mep> &x, int t)
{
  for (auto &i : x.individuals_) force(i, t);
}

template<class T> std::string run_case(ctx &cx, const std::vector<std::string> &w, std::size_t pos,
                                       unsigned nslots)
{
  std::vector<T> slot(nslots);
  std::string out(wheels(cx));
  auto U = [&](std::size_t i) { return static_cast<unsigned>(std::stoul(w.at(i))); };

  while (pos < w.size())
  {
    const std::string op(w[pos++]);
    std::string extra("-");
    unsigned k(0);
    draws.clear();
    if (op == "E")
    {
      // the same problem object reused with another code / patch length
      cx.prob.env.mep.code_length = U(pos);
      cx.prob.env.mep.patch_length = U(pos + 1);
      pos += 2;
      out += " ;  # - # E";
      continue;
    }
    if (op == "N")
    {
      k = U(pos++);
      logging = true;
      slot[k] = T(cx.prob);
      logging = false;
    }
    else if (op == "M")
    {
      k = U(pos++);
      const double pgm(vv::double_of(std::stoull(w.at(pos++), nullptr, 16)));
      logging = true;
      const unsigned n(slot[k].mutation(pgm, cx.prob));
      logging = false;
      extra = std::to_string(n);
    }
    else if (op == "F")
    {
      k = U(pos++);
      force(slot[k], static_cast<int>(U(pos++)));
    }
    else if (op == "A")
    {
      k = U(pos++);
      slot[k].inc_age();
    }
    else if (op == "X")
    {
      const unsigned a(U(pos++)), b(U(pos++));
      k = U(pos++);
      logging = true;
      T child(crossover(slot[a], slot[b]));
      logging = false;
      slot[k] = child;
    }
    else if constexpr (std::is_same_v<T, i_mep>)
    {
      if (op == "B")
      {
        k = U(pos++);
        const locus l{U(pos), U(pos + 1)};
        pos += 2;
        slot[k] = slot[k].get_block(l);
      }
      else if (op == "R")
      {
        k = U(pos++);
        const locus l{U(pos), U(pos + 1)};
        pos += 2;
        symbol *s(cx.syms.at(U(pos++)));
        const double par(vv::double_of(std::stoull(w.at(pos++), nullptr, 16)));
        const unsigned na(U(pos++));
        std::vector<index_t> args;
        for (unsigned j(0); j < na; ++j) args.push_back(U(pos++));
        gene g(std::pair<symbol *, std::vector<index_t>>{s, args});   // draws of init() not logged
        g.par = par;
        slot[k] = slot[k].replace(l, g);
      }
      else if (op == "D")
      {
        k = U(pos++);
        const index_t idx(U(pos++));
        logging = true;
        i_mep r(slot[k].destroy_block(idx, cx.prob.sset));
        logging = false;
        slot[k] = r;
      }
      else if (op == "W")
      {
        // the begin()/end() walk (loci in visiting order), active_symbols() and blocks()
        k = U(pos++);
        std::ostringstream o;
        o << "w";
        for (auto it(slot[k].begin()); it != slot[k].end(); ++it)
          o << ',' << it.locus().index << '.' << it.locus().category;
        o << "|n" << slot[k].active_symbols() << "|b";
        for (const auto &l : slot[k].blocks())
          o << ',' << l.index << '.' << l.category;
        extra = o.str();
      }
      else if (op == "C")
      {
        k = U(pos++);
        i_mep r(slot[k].cse());
        slot[k] = r;
      }
      else
        return out + " ; BADOP " + op;
    }
    else
      return out + " ; BADOP " + op;

    out += " ; " + take_draws() + " # " + extra + " # " + dump(cx, slot[k]);
  }
  return out;
}
}  // namespace

int main()
{
  random::verif::draw_sink = sink;
  std::ios::sync_with_stdio(false);
  std::string line;
  while (std::getline(std::cin, line))
  {
    const auto w(vv::split(line));
    // an ill-formed individual can make the real code loop for ever (walks
    // that never leave a row): give every history a generous time limit; the
    // default action of SIGALRM ends the process and the check records it
    alarm(8);
    try
    {
      if (w.size() < 9) { std::cout << "BADLINE" << std::endl; continue; }
      ctx cx;
      const bool is_team(w[0] == "T");
      random::seed(static_cast<unsigned>(std::stoul(w[1])));
      cx.prob.env.mep.code_length = std::stoul(w[2]);
      cx.prob.env.mep.patch_length = std::stoul(w[3]);
      cx.prob.env.team.individuals = static_cast<unsigned>(std::stoul(w[4]));
      const unsigned nslots(static_cast<unsigned>(std::stoul(w[5])));
      std::size_t pos(6);
      if (w[pos++] != "S") { std::cout << "BADLINE" << std::endl; continue; }
      ++pos;  // cats (implied by the symbols)
      const unsigned nsyms(static_cast<unsigned>(std::stoul(w.at(pos++))));
      for (unsigned s(0); s < nsyms; ++s)
      {
        const category_t cat(static_cast<category_t>(std::stoul(w.at(pos++))));
        const std::string kind(w.at(pos++));
        const double weight(std::stod(w.at(pos++)));
        const unsigned na(static_cast<unsigned>(std::stoul(w.at(pos++))));
        cvect ac;
        for (unsigned j(0); j < na; ++j) ac.push_back(static_cast<category_t>(std::stoul(w.at(pos++))));
        const std::string name("s" + std::to_string(s));
        symbol *p(nullptr);
        if (kind == "f") p = cx.prob.sset.insert(std::make_unique<vfun>(name, cat, ac), weight);
        // the shipped five-argument primitive FIFB: arguments {c0, c0, c0, c1, c1}, result c1
        else if (kind == "b") p = cx.prob.sset.insert(std::make_unique<real::ifb>(cvect{ac.at(0), cat}), weight);
        else if (kind == "t") p = cx.prob.sset.insert(std::make_unique<vterm>(name, cat), weight);
        else if (kind == "p") p = cx.prob.sset.insert(std::make_unique<vpar_i>(name, cat), weight);
        else if (kind == "n") p = cx.prob.sset.insert(std::make_unique<vpar_n>(name, cat), weight);
        else p = cx.prob.sset.insert(std::make_unique<vpar_r>(name, cat), weight);
        cx.syms.push_back(p);
        cx.id[p] = s;
      }
      if (w.at(pos++) != "O") { std::cout << "BADLINE" << std::endl; continue; }
      if (is_team)
        std::cout << run_case<team<i_mep>>(cx, w, pos, nslots) << std::endl;
      else
        std::cout << run_case<i_mep>(cx, w, pos, nslots) << std::endl;
    }
    catch (const std::exception &e)
    {
      std::cout << "EXC " << e.what() << std::endl;
    }
  }
}
