// libFuzzer target for the dataset readers (C10, thorough tier only; SEARCH, never counted as proof).
// Input layout: byte0 mode (0 csv explicit, 1 csv sniffed, 2 xrff, 3 csv by src_problem), byte1 delimiter index,
// byte2 header (0 guess, 1 no, 2 yes), byte3 output index (>= 10: none), byte4 bit0 trim, bit1-2 filter
// (0 none, 1 drop field 0, 2 drop field 1), rest = the bytes given to the reader.
// The outcome oracle of C10 is evaluated in-process: a frame returned normally must pass is_valid() and have
// uniform input width (XRFF: unless 0 is returned); anything else aborts, which libFuzzer reports as a crash.
#include <cstdint>
#include <cstdlib>
#include <sstream>
#include <string>

#include "kernel/vita.h"

using namespace vita;

namespace
{
void check_frame(const dataframe &d, std::size_t ret, bool xrff)
{
  if (xrff && ret == 0) return;
  bool ok(false);
  try { ok = d.is_valid(); } catch (const std::bad_variant_access &) { ok = false; }
  if (!ok) std::abort();
  std::size_t w(0);
  bool first(true);
  for (const auto &e : d)
  {
    if (first) { w = e.input.size(); first = false; }
    else if (e.input.size() != w) std::abort();
  }
  if (!xrff && d.empty()) std::abort();
}
}  // namespace

extern "C" int LLVMFuzzerTestOneInput(const std::uint8_t *data, std::size_t size)
{
  static bool init(false);
  if (!init) { log::reporting_level = log::lOFF; init = true; }
  if (size < 5) return 0;
  const unsigned mode(data[0] % 4);
  const char delims[] = {',', ';', '\t', ':', '|', 0};
  const std::string text(reinterpret_cast<const char *>(data + 5), size - 5);
  try
  {
    std::istringstream is(text);
    if (mode == 2)
    {
      dataframe d;
      dataframe::params p;
      const auto n(d.read_xrff(is, p));
      check_frame(d, n, true);
    }
    else if (mode == 3)
    {
      src_problem prob(is);
      check_frame(prob.data(), prob.data().size(), false);
    }
    else
    {
      dataframe::params p;
      p.dialect.delimiter = mode == 1 ? 0 : delims[data[1] % 6];
      p.dialect.has_header = mode == 1 ? pocket_csv::dialect::GUESS_HEADER
                             : data[2] % 3 == 0 ? pocket_csv::dialect::GUESS_HEADER
                             : data[2] % 3 == 1 ? pocket_csv::dialect::NO_HEADER : pocket_csv::dialect::HAS_HEADER;
      if (data[3] >= 10) p.no_output(); else p.output(data[3]);
      p.dialect.trim_ws = data[4] & 1;
      const unsigned f((data[4] >> 1) & 3);
      if (f == 1 || f == 2)
        p.filter = [f](dataframe::record_t &r)
                   {
                     if (f - 1 < r.size()) r.erase(r.begin() + static_cast<std::ptrdiff_t>(f - 1));
                     return true;
                   };
      dataframe d;
      const auto n(d.read_csv(is, p));
      check_frame(d, n, false);
    }
  }
  catch (const std::exception &)
  {
    // standard exceptions are an accepted outcome
  }
  return 0;
}
