// Correspondence harness for C05 (evaluators): runs the REAL evaluators of
// kernel/gp/src/evaluator.tcc, kernel/ga/evaluator.tcc and
// kernel/constrained_evaluator.tcc on a dataframe built in memory.
//
// input lines
//   <kind> <classes> <prog> <nrows> { <x1> <x2> <target> <difficulty> }*
//       kind   : mae rmae mse count (optionally with the suffix .fast) binary dynslot gaussian
//       classes: number of classes (0 for the error based evaluators)
//       prog   : X        identity on column 1 (the cell IS the program output;
//                         a monostate cell gives an undefined output)
//                K:<hex>  constant double
//                ADD SUB MUL DIV LN SQRT   primitive over column 1 (and 2)
//                R:<seed> random MEP program over {X1,X2,REAL,ADD,SUB,MUL,DIV,LN,SQRT,ABS}
//                Y        identity on column 2
//                T:<p>+<p>+...  a team<i_mep> of such members (output line gets mouts=<m1>/<m2>/..,...)
//       values : v | i:<dec> | d:<hex64>
//   ga <hex>                     ga_evaluator on an objective returning <hex>
//   con <hexpenalty> <hexvalue>  constrained_evaluator(ga_evaluator(value), penalty)
//   tdist <id>...  /  tfixed <id>   test_evaluator (distinct / fixed) on a sequence of programs
//
// output line
//   fit=<hex,...> outs=<value,...> diff=<dec,...> frame=<0|1> tags=<label>:<hex sureness>,...
//   THROW outs=... diff=... frame=...   when label() threw std::bad_variant_access
//   (tags: what a separately built lambda answers for each example, only for
//    the classification evaluators; outs: what basic_reg_lambda_f answers)
#include <cstdint>
#include <cstring>
#include <iostream>
#include <map>
#include <memory>
#include <sstream>
#include <string>
#include <vector>

#define private public
#define protected public
#include "kernel/vita.h"
#include "kernel/gp/src/variable.h"
#include "kernel/gp/src/constant.h"
#include "kernel/gp/src/primitive/real.h"
#include "kernel/ga/evaluator.h"
#include "kernel/constrained_evaluator.h"
#undef private
#undef protected
#include "common.h"

using namespace vita;

static std::string show_fit(const fitness_t &f)
{
  std::string s("fit=");
  for (std::size_t i(0); i < f.size(); ++i)
  {
    const double d(f[i]);
    if (i) s += ",";
    s += (d != d) ? std::string("7ff8000000000000") : vv::hex64(vv::bits_of(d));
  }
  return s;
}

struct symbols
{
  variable x1{"X1", 0}, x2{"X2", 1};
  real::add add{{0}};
  real::sub sub{{0}};
  real::mul mul{{0}};
  real::div div{{0}};
  real::ln ln{{0}};
  real::sqrt sqrt{{0}};
  real::abs abs{{0}};
};

static i_mep make_program(const std::string &p, symbols &s,
                          std::vector<std::unique_ptr<symbol>> &keep)
{
  using G = std::pair<symbol *, std::vector<index_t>>;
  if (p == "X")
    return i_mep(std::vector<gene>{gene(G{&s.x1, {}})});
  if (p == "Y")
    return i_mep(std::vector<gene>{gene(G{&s.x2, {}})});
  if (p.rfind("K:", 0) == 0)
  {
    const double k(vv::double_of(std::stoull(p.substr(2), nullptr, 16)));
    keep.push_back(std::make_unique<constant<double>>(k));
    return i_mep(std::vector<gene>{gene(G{keep.back().get(), {}})});
  }
  if (p.rfind("R:", 0) == 0)
  {
    // the symbols live in the problem's symbol set: keep one for the whole run
    static std::unique_ptr<problem> pp;
    if (!pp)
    {
      pp = std::make_unique<problem>();
      pp->env.init();
      pp->env.mep.code_length = 12;
      pp->sset.insert<variable>("X1", 0);
      pp->sset.insert<variable>("X2", 1);
      pp->sset.insert<real::real>(cvect{0}, -10.0, 10.0);
      pp->sset.insert<real::add>(cvect{0});
      pp->sset.insert<real::sub>(cvect{0});
      pp->sset.insert<real::mul>(cvect{0});
      pp->sset.insert<real::div>(cvect{0});
      pp->sset.insert<real::ln>(cvect{0});
      pp->sset.insert<real::sqrt>(cvect{0});
      pp->sset.insert<real::abs>(cvect{0});
    }
    random::seed(static_cast<unsigned>(std::stoul(p.substr(2))));
    return i_mep(*pp);
  }
  symbol *f(nullptr);
  unsigned ar(2);
  if (p == "ADD") f = &s.add;
  else if (p == "SUB") f = &s.sub;
  else if (p == "MUL") f = &s.mul;
  else if (p == "DIV") f = &s.div;
  else if (p == "LN") { f = &s.ln; ar = 1; }
  else if (p == "SQRT") { f = &s.sqrt; ar = 1; }
  else if (p == "ABS") { f = &s.abs; ar = 1; }
  else throw std::runtime_error("unknown program " + p);
  std::vector<gene> g;
  if (ar == 2)
    g.push_back(gene(G{f, {1, 2}}));
  else
    g.push_back(gene(G{f, {1}}));
  g.push_back(gene(G{&s.x1, {}}));
  g.push_back(gene(G{&s.x2, {}}));
  return i_mep(g);
}

template<class E, class P>
static fitness_t run_eva(dataframe &d, const P &prg, bool fast = false)
{
  E eva(d);
  return fast ? eva.fast(prg) : eva(prg);
}

// one dataset, one program (an individual or a team): outputs, evaluator,
// difficulties, frame
template<class T>
static void eval_case(const T &prg, const std::string &kind, bool fast, dataframe &d,
                      const std::vector<std::string> &w, std::size_t n, const std::string &mouts)
{

  std::string outs("outs=");
  {
    const basic_reg_lambda_f<T, false> agent(prg);
    bool first(true);
    for (const auto &e : d)
    {
      if (!first) outs += ",";
      first = false;
      outs += vv::show(agent(e));
    }
  }

  // what lexical_cast<double> (std::stod) answers on the string cells:
  // <output cast>/<target cast> per row, hex64 | T (throws) | - (not a string)
  std::string casts(" casts=");
  {
    const basic_reg_lambda_f<T, false> agent(prg);
    auto cast_of = [](const value_t &v) -> std::string
    {
      if (v.index() != d_string) return "-";
      try
      {
        const double c(lexical_cast<double>(v));
        return (c != c) ? std::string("7ff8000000000000") : vv::hex64(vv::bits_of(c));
      }
      catch (const std::logic_error &) { return "T"; }
    };
    bool first(true);
    for (const auto &e : d)
    {
      if (!first) casts += ",";
      first = false;
      casts += cast_of(agent(e)) + "/" + cast_of(e.output);
    }
  }

  std::string tags;
  auto add_tags = [&](const auto &lambda)
  {
    tags = " tags=";
    bool first(true);
    for (const auto &e : d)
    {
      const auto r(lambda.tag(e));
      if (!first) tags += ",";
      first = false;
      const double s(r.sureness);
      tags += std::to_string(r.label) + ":"
              + ((s != s) ? std::string("7ff8000000000000") : vv::hex64(vv::bits_of(s)));
    }
  };

  fitness_t f;
  bool thrown(false);
  try
  {
    if (kind == "mae") f = run_eva<mae_evaluator<T>>(d, prg, fast);
    else if (kind == "rmae") f = run_eva<rmae_evaluator<T>>(d, prg, fast);
    else if (kind == "mse") f = run_eva<mse_evaluator<T>>(d, prg, fast);
    else if (kind == "count") f = run_eva<count_evaluator<T>>(d, prg, fast);
    else if (kind == "binary")
    {
      try { add_tags(basic_binary_lambda_f<T, false, false>(prg, d)); }
      catch (const std::bad_variant_access &) { tags = " tags=THROW"; }
      f = run_eva<binary_evaluator<T>>(d, prg);
    }
    else if (kind == "dynslot")
    {
      try { add_tags(basic_dyn_slot_lambda_f<T, false, false>(prg, d, 10)); }
      catch (const std::bad_variant_access &) { tags = " tags=THROW"; }
      f = run_eva<dyn_slot_evaluator<T>>(d, prg);
    }
    else if (kind == "gaussian")
    {
      try { add_tags(basic_gaussian_lambda_f<T, false, false>(prg, d)); }
      catch (const std::bad_variant_access &) { tags = " tags=THROW"; }
      f = run_eva<gaussian_evaluator<T>>(d, prg);
    }
    else { std::cout << "UNKNOWN\n"; return; }
  }
  catch (const std::bad_variant_access &)
  {
    // label() on an example whose output cell is not an integer: the
    // dataset is reported as the evaluator left it
    thrown = true;
  }
  catch (const std::logic_error &)
  {
    // lexical_cast<double>(string) = std::stod: std::invalid_argument /
    // std::out_of_range
    thrown = true;
  }

  std::string diff(" diff=");
  {
    bool first(true);
    for (const auto &e : d)
    {
      if (!first) diff += ",";
      first = false;
      diff += std::to_string(e.difficulty);
    }
  }
  // frame: everything but the difficulty must be untouched, order kept
  bool frame(d.size() == n);
  {
    std::size_t i(0);
    for (const auto &e : d)
    {
      if (i < n)
        frame = frame && vv::show(e.input[0]) == vv::show(vv::parse_value(w[4 + 4 * i]))
                && vv::show(e.input[1]) == vv::show(vv::parse_value(w[5 + 4 * i]))
                && vv::show(e.output) == vv::show(vv::parse_value(w[6 + 4 * i]))
                && e.age == 0 && e.input.size() == 2;
      ++i;
    }
  }
  std::cout << (thrown ? std::string("THROW") : show_fit(f)) << ' ' << outs << diff
            << " frame=" << (frame ? 1 : 0) << casts << mouts << tags << '\n';
}

int main()
{
  std::ios::sync_with_stdio(false);
  symbols syms;
  std::string line;
  while (std::getline(std::cin, line))
  {
    const auto w(vv::split(line));
    try
    {
      if (w.empty()) { std::cout << "BADLINE\n"; continue; }
      if (w[0] == "tdist" || w[0] == "tfixed")
      {
        // test_evaluator<i_mep>: programs are constants identified by an id
        test_evaluator<i_mep> eva(w[0] == "tdist" ? test_evaluator_type::distinct
                                                  : test_evaluator_type::fixed);
        static std::map<int, std::unique_ptr<symbol>> consts;
        using G = std::pair<symbol *, std::vector<index_t>>;
        std::string out("fit=");
        for (std::size_t i(1); i < w.size(); ++i)
        {
          const int id(std::stoi(w[i]));
          if (!consts.count(id))
            consts[id] = std::make_unique<constant<double>>(static_cast<double>(id));
          const i_mep prg(std::vector<gene>{gene(G{consts[id].get(), {}})});
          const fitness_t f(eva(prg));
          if (i > 1) out += "|";
          out += show_fit(f).substr(4);
        }
        std::cout << out << '\n';
        continue;
      }
      if (w[0] == "ga")
      {
        const double v(vv::double_of(std::stoull(w.at(1), nullptr, 16)));
        auto eva(make_ga_evaluator<i_ga>([v](const i_ga &) { return v; }));
        std::cout << show_fit(eva(i_ga())) << '\n';
        continue;
      }
      if (w[0] == "con")
      {
        const double p(vv::double_of(std::stoull(w.at(1), nullptr, 16)));
        const double v(vv::double_of(std::stoull(w.at(2), nullptr, 16)));
        auto base(make_ga_evaluator<i_ga>([v](const i_ga &) { return v; }));
        auto pen([p](const i_ga &) { return p; });
        constrained_evaluator<i_ga, decltype(base), decltype(pen)> eva(base, pen);
        std::cout << show_fit(eva(i_ga())) << '\n';
        continue;
      }
      if (w.size() < 4) { std::cout << "BADLINE\n"; continue; }
      std::string kind(w[0]);
      const bool fast(kind.size() > 5 && kind.substr(kind.size() - 5) == ".fast");
      if (fast) kind = kind.substr(0, kind.size() - 5);
      const unsigned classes(std::stoul(w[1]));
      const std::size_t n(std::stoul(w[3]));
      if (w.size() != 4 + 4 * n) { std::cout << "BADLINE\n"; continue; }

      dataframe d;
      for (unsigned c(0); c < classes; ++c)
        d.classes_map_["c" + std::to_string(c)] = c;
      for (std::size_t i(0); i < n; ++i)
      {
        dataframe::example e;
        e.input.push_back(vv::parse_value(w[4 + 4 * i]));
        e.input.push_back(vv::parse_value(w[5 + 4 * i]));
        e.output = vv::parse_value(w[6 + 4 * i]);
        e.difficulty = std::stoull(w[7 + 4 * i]);
        d.push_back(e);
      }

      std::vector<std::unique_ptr<symbol>> keep;
      if (w[2].rfind("T:", 0) == 0)
      {
        // a team: T:<member>+<member>+...   (members: X Y K:<hex> ...)
        std::vector<i_mep> members;
        std::istringstream ms(w[2].substr(2));
        std::string m;
        while (std::getline(ms, m, '+'))
          members.push_back(make_program(m, syms, keep));
        // what each member yields on each example (the team's documented output
        // is the running mean of the defined ones)
        std::string mouts(" mouts=");
        bool first(true);
        for (const auto &e : d)
        {
          if (!first) mouts += ",";
          first = false;
          for (std::size_t k(0); k < members.size(); ++k)
          {
            const basic_reg_lambda_f<i_mep, false> agent(members[k]);
            if (k) mouts += "/";
            mouts += vv::show(agent(e));
          }
        }
        eval_case(team<i_mep>(members), kind, fast, d, w, n, mouts);
      }
      else
        eval_case(make_program(w[2], syms, keep), kind, fast, d, w, n, "");
    }
    catch (const std::exception &e)
    {
      std::cout << "EXC " << e.what() << '\n';
    }
  }
}
