// Correspondence harness for vita::fitness_t (C18): calls the real relational
// operators, dominating, the arithmetic, combine, distance, abs, sqrt, round_to
// and model_measurements::operator>= and prints the results canonically.
//
// input : <A> <B> <scalar hex> <accuracy A hex> <accuracy B hex>
//         A, B = comma separated 64-bit patterns, or - for the empty fitness
// output: lt eq gt ge le ne dom mm nanA finA plus minus times divs muls abs sqrt round dist comb
//         small nonneg ae aes   (issmall(A) isnonnegative(A) almost_equal(A,B) almost_equal(A,B,scalar))
//         (booleans 0/1; vectors as the input; X = the function's Expects
//          contract is not met by the arguments, the function is not called)
#include "common.h"
#include "kernel/model_measurements.h"

using namespace vita;

static std::string hexd(double d)
{
  if (d != d) return "7ff8000000000000";   // all NaNs print alike
  return vv::hex64(vv::bits_of(d));
}

static fitness_t parse_fit(const std::string &t)
{
  fitness_t::values_t v;
  if (t != "-")
  {
    std::size_t pos(0);
    while (pos <= t.size())
    {
      const auto c(t.find(',', pos));
      const std::string w(t.substr(pos, c == std::string::npos ? c : c - pos));
      v.push_back(vv::double_of(std::stoull(w, nullptr, 16)));
      if (c == std::string::npos) break;
      pos = c + 1;
    }
  }
  return fitness_t(v);
}

static std::string show_fit(const fitness_t &f)
{
  if (!f.size()) return "-";
  std::string out;
  for (std::size_t i(0); i < f.size(); ++i)
  {
    if (i) out += ",";
    out += hexd(f[i]);
  }
  return out;
}

int main()
{
  std::string line;
  while (std::getline(std::cin, line))
  {
    const auto w(vv::split(line));
    if (w.size() != 5)
    {
      std::cout << "BADLINE" << std::endl;
      continue;
    }
    const fitness_t a(parse_fit(w[0])), b(parse_fit(w[1]));
    const double s(vv::double_of(std::stoull(w[2], nullptr, 16)));
    const double acc_a(vv::double_of(std::stoull(w[3], nullptr, 16)));
    const double acc_b(vv::double_of(std::stoull(w[4], nullptr, 16)));

    std::ostringstream o;
    o << (a < b) << ' ' << (a == b) << ' ' << (a > b) << ' ' << (a >= b) << ' '
      << (a <= b) << ' ' << (a != b) << ' ' << dominating(a, b) << ' ';

    // model_measurements' constructor expects accuracy <= 1.0
    if (acc_a <= 1.0 && acc_b <= 1.0)
    {
      const model_measurements ma(a, acc_a, false), mb(b, acc_b, false);
      o << (ma >= mb) << ' ';
    }
    else
      o << "X ";

    o << isnan(a) << ' ' << isfinite(a) << ' ';

    // lhs[i] op= rhs[i] for i < lhs.size(): rhs[i] must exist
    if (a.size() <= b.size())
      o << show_fit(a + b) << ' ' << show_fit(a - b) << ' ' << show_fit(a * b) << ' ';
    else
      o << "X X X ";

    o << show_fit(a / s) << ' ' << show_fit(a * s) << ' ' << show_fit(abs(a)) << ' '
      << show_fit(sqrt(a)) << ' ' << show_fit(round_to(a)) << ' ';

    if (a.size() == b.size())
      o << hexd(distance(a, b)) << ' ';
    else
      o << "X ";

    o << show_fit(combine(a, b)) << ' ';

    // utility.h scalars lifted to fitness_t: issmall, isnonnegative, almost_equal
    o << issmall(a) << ' ' << isnonnegative(a) << ' ';
    if (a.size() == b.size())
      o << almost_equal(a, b) << ' ' << almost_equal(a, b, s);
    else
      o << "X X";
    std::cout << o.str() << std::endl;
  }
  return 0;
}
