// Correspondence harness for C20: runs op scripts on the REAL
// vita::small_vector<T,S> (S = 1..8, T in {int, double, std::string, Tracked})
// in lock-step with std::vector<T>, under ASan/UBSan/LSan.
//
// Two slots `a` and `b` hold one small_vector each (initially default
// constructed).  An op names its target slot t; "the other" is the other slot.
//
// input  : <T> <S> <op> <op> ...          T: i int, d double, s string, k Tracked
//   N<t><n>        destroy t, construct small_vector(n) in its place
//   F<t><n>,<x>    ... small_vector(n, x)
//   L<t><x,x,..>   ... small_vector{x, x, ...}     (at most 12 elements)
//   C<t>           ... small_vector(other)          copy constructor
//   M<t>           ... small_vector(std::move(other))
//   A<t>           t = other
//   V<t>           t = std::move(other)
//   Y<t>           t = t
//   X<t>           t.clear()
//   P<t><x>        t.push_back(x)
//   Q<t><i>        t.push_back(t[i])
//   E<t><x>        t.emplace_back(x)
//   G<t><i>        t.emplace_back(t[i])
//   I<t><p>,<x,..> t.insert(t.begin()+p, src.begin(), src.end())   (src external)
//   R<t><n>        t.resize(n)
//   Z<t><n>        t.reserve(n)
//   S<t><i>,<x>    t[i] = x
// output : one record per op, separated by " | ", then the record of the final
//          destruction of both slots:
//   <ret>;<l|h><capacity>[v,v,..];<l|h><capacity>[..];<a==b><a!=b><a<b><a<=b><a>b><a>=b>;<live>;<flags>;<ref>
//   (double: the values 100001..100008 stand for -0.0, two NaNs, +-inf, denormals)
//   ret   index returned by insert, '-' otherwise
//   live  number of live Tracked objects ('-' for the other element types)
//   flags lifetime errors seen by Tracked since the previous record:
//         D construction over a live object, X destruction of a dead object,
//         A assignment to raw memory, R read of a dead object; '-' if none
//   ref   'ok' when both slots equal their std::vector mirrors and ret / the
//         comparisons agree with std::vector's, 'BAD' otherwise
//   end;<live>;<flags>;<leak>    leak = 1 when LeakSanitizer reports a leak; the process then
//          exits with status 77 so that the leak cannot taint later cases
//   The observers front(), back(), operator[], data(), empty(), max_size(),
//   (c)begin/(c)end, rbegin/rend (const and non-const) are compared with the
//   mirror inside 'ref'.
#include <algorithm>
#include <cstdint>
#include <cstring>
#include <iostream>
#include <memory>
#include <sstream>
#include <string>
#include <unordered_set>
#include <vector>

#include <sanitizer/lsan_interface.h>
#include <sys/time.h>
#include <unistd.h>

#define private public
#include "utility/small_vector.h"
#undef private

namespace
{
// ---------------------------------------------------------------- Tracked
std::unordered_set<const void *> g_live;
std::string g_flags;

void flag(char c)
{
  if (g_flags.find(c) == std::string::npos)
    g_flags += c;
}

struct Tracked
{
  int val;

  void born()
  {
    if (!g_live.insert(this).second)
      flag('D');
  }
  void check_src(const Tracked &o) const
  {
    if (!g_live.count(&o))
      flag('R');
  }

  Tracked() : val(0) { born(); }
  explicit Tracked(int v) : val(v) { born(); }
  Tracked(const Tracked &o) : val(o.val) { check_src(o); born(); }
  Tracked(Tracked &&o) : val(o.val) { check_src(o); o.val = -1; born(); }
  Tracked &operator=(const Tracked &o)
  {
    check_src(o);
    if (!g_live.count(this)) flag('A');
    val = o.val;
    return *this;
  }
  Tracked &operator=(Tracked &&o)
  {
    check_src(o);
    if (!g_live.count(this)) flag('A');
    const int v(o.val);
    o.val = -1;
    val = (this == &o) ? -1 : v;
    return *this;
  }
  ~Tracked()
  {
    if (!g_live.erase(this))
      flag('X');
  }
  bool operator==(const Tracked &o) const { return val == o.val; }
  bool operator<(const Tracked &o) const { return val < o.val; }
};

// ------------------------------------------------------ value <-> element
template<class T> struct conv;
template<> struct conv<int>
{
  static int mk(int z) { return z; }
  static std::string show(const int &v) { return std::to_string(v); }
};
// special doubles travel as the codes 100001..100008
const std::uint64_t special_bits[] = {
  0x8000000000000000ull,   // 100001  -0.0
  0x7ff8000000000000ull,   // 100002  quiet NaN
  0x7ff8000000000123ull,   // 100003  quiet NaN, another payload
  0x7ff0000000000000ull,   // 100004  +inf
  0xfff0000000000000ull,   // 100005  -inf
  0x0000000000000001ull,   // 100006  smallest denormal
  0x8000000000000001ull,   // 100007  -smallest denormal
  0x000fffffffffffffull};  // 100008  largest denormal

template<> struct conv<double>
{
  static double mk(int z)
  {
    if (z > 100000 && z <= 100008)
    {
      double d;
      std::memcpy(&d, &special_bits[z - 100001], sizeof(d));
      return d;
    }
    return z;
  }
  static std::string show(const double &v)
  {
    std::uint64_t u;
    std::memcpy(&u, &v, sizeof(u));
    for (int k(0); k < 8; ++k)
      if (u == special_bits[k])
        return std::to_string(100001 + k);
    if (v == v && v > -1e9 && v < 1e9 && v == static_cast<double>(static_cast<long>(v)))
      return std::to_string(static_cast<long>(v));
    return "?";
  }
};

// "the same element": the same object representation for double (NaN is the
// same as itself, +0.0 is not -0.0), operator== otherwise
template<class T> bool same_elem(const T &a, const T &b) { return a == b; }
template<> bool same_elem<double>(const double &a, const double &b)
{
  return std::memcmp(&a, &b, sizeof(double)) == 0;
}
template<> struct conv<std::string>
{
  // order preserving, long enough to live on the heap (leaks are visible);
  // 0 <-> "" (value-initialised and moved-from strings)
  static std::string mk(int z)
  {
    if (z == 0) return "";
    char b[64];
    std::snprintf(b, sizeof(b), "v%06d_________________________________", z);
    return b;
  }
  static std::string show(const std::string &v)
  {
    if (v.empty()) return "0";
    if (v.size() != 40 || v[0] != 'v') return "?";
    return std::to_string(std::stoi(v.substr(1, 6)));
  }
};
template<> struct conv<Tracked>
{
  static Tracked mk(int z) { return Tracked(z); }
  static std::string show(const Tracked &v) { return std::to_string(v.val); }
};

std::vector<int> ints(const std::string &s)
{
  std::vector<int> out;
  std::string cur;
  for (char c : s)
    if (c == ',')
    {
      if (!cur.empty()) out.push_back(std::stoi(cur));
      cur.clear();
    }
    else
      cur += c;
  if (!cur.empty()) out.push_back(std::stoi(cur));
  return out;
}

template<class T, std::size_t S>
struct machine
{
  using SV = vita::small_vector<T, S>;
  using RV = std::vector<T>;
  static constexpr bool tracked = std::is_same_v<T, Tracked>;

  alignas(SV) unsigned char buf[2][sizeof(SV)];
  SV *sv[2];
  RV rv[2];

  void raw(int t) { std::memset(buf[t], 0xCD, sizeof(SV)); }

  std::string show_slot(int t) const
  {
    const SV &v(*sv[t]);
    std::string out(v.local_storage_used() ? "l" : "h");
    out += std::to_string(v.capacity()) + "[";
    for (std::size_t i(0); i < v.size(); ++i)
    {
      if (i) out += ",";
      out += conv<T>::show(v[i]);
    }
    return out + "]";
  }

  static bool same(const SV &v, const RV &r)
  {
    return v.size() == r.size() && std::equal(v.begin(), v.end(), r.begin(), same_elem<T>);
  }

  std::string record(long ret, long ref_ret)
  {
    std::string out(ret < 0 ? "-" : std::to_string(ret));
    out += ";" + show_slot(0) + ";" + show_slot(1) + ";";
    const bool eq(*sv[0] == *sv[1]), ne(*sv[0] != *sv[1]), lt(*sv[0] < *sv[1]), le(*sv[0] <= *sv[1]),
               gt(*sv[0] > *sv[1]), ge(*sv[0] >= *sv[1]);
    for (bool b : {eq, ne, lt, le, gt, ge})
      out += b ? "1" : "0";
    // live Tracked objects owned by the two small_vectors (the mirrors' own
    // elements are not counted)
    out += ";" + (tracked ? std::to_string(g_live.size() - rv[0].size() - rv[1].size()) : std::string("-"));
    out += ";" + (g_flags.empty() ? std::string("-") : g_flags);
    bool ok(same(*sv[0], rv[0]) && same(*sv[1], rv[1]) && ret == ref_ret
            && eq == (rv[0] == rv[1]) && lt == (rv[0] < rv[1]) && gt == (rv[0] > rv[1])
            && ne == (rv[0] != rv[1]) && le == (rv[0] <= rv[1]) && ge == (rv[0] >= rv[1])
            // a vector compared with itself and with a copy of itself
            && (*sv[0] == *sv[0]) == (rv[0] == rv[0]) && (*sv[1] == *sv[1]) == (rv[1] == rv[1]));
    for (int t(0); t < 2; ++t)
    {
      SV &v(*sv[t]);
      const SV &cv(v);
      const RV &r(rv[t]);
      ok = ok && v.size() <= v.capacity() && v.capacity() >= S && v.empty() == r.empty()
           && v.data() == v.begin() && cv.data() == cv.cbegin() && cv.begin() == cv.cbegin()
           && cv.end() == cv.cend() && v.end() == v.begin() + v.size()
           && v.max_size() >= v.capacity();
      if (ok && !r.empty())
        ok = same_elem(v.front(), r.front()) && same_elem(v.back(), r.back())
             && same_elem(cv.front(), r.front()) && same_elem(cv.back(), r.back())
             && same_elem(v[0], r[0]) && same_elem(cv[r.size() - 1], r[r.size() - 1]);
      ok = ok && std::equal(v.rbegin(), v.rend(), r.rbegin(), r.rend(), same_elem<T>)
           && std::equal(cv.rbegin(), cv.rend(), r.rbegin(), r.rend(), same_elem<T>);
    }
    out += ok ? ";ok" : ";BAD";
    g_flags.clear();
    return out;
  }

  void construct_list(int t, const std::vector<T> &x)
  {
    void *p(buf[t]);
    switch (x.size())
    {
    case 0: sv[t] = new (p) SV(std::initializer_list<T>{}); break;
    case 1: sv[t] = new (p) SV{x[0]}; break;
    case 2: sv[t] = new (p) SV{x[0], x[1]}; break;
    case 3: sv[t] = new (p) SV{x[0], x[1], x[2]}; break;
    case 4: sv[t] = new (p) SV{x[0], x[1], x[2], x[3]}; break;
    case 5: sv[t] = new (p) SV{x[0], x[1], x[2], x[3], x[4]}; break;
    case 6: sv[t] = new (p) SV{x[0], x[1], x[2], x[3], x[4], x[5]}; break;
    case 7: sv[t] = new (p) SV{x[0], x[1], x[2], x[3], x[4], x[5], x[6]}; break;
    case 8: sv[t] = new (p) SV{x[0], x[1], x[2], x[3], x[4], x[5], x[6], x[7]}; break;
    case 9: sv[t] = new (p) SV{x[0], x[1], x[2], x[3], x[4], x[5], x[6], x[7], x[8]}; break;
    case 10: sv[t] = new (p) SV{x[0], x[1], x[2], x[3], x[4], x[5], x[6], x[7], x[8], x[9]}; break;
    case 11: sv[t] = new (p) SV{x[0], x[1], x[2], x[3], x[4], x[5], x[6], x[7], x[8], x[9], x[10]}; break;
    default: sv[t] = new (p) SV{x[0], x[1], x[2], x[3], x[4], x[5], x[6], x[7], x[8], x[9], x[10], x[11]}; break;
    }
  }

  static std::vector<T> elems(const std::vector<int> &zs, std::size_t from = 0)
  {
    std::vector<T> out;
    for (std::size_t i(from); i < zs.size(); ++i)
      out.push_back(conv<T>::mk(zs[i]));
    return out;
  }

  // the moved-from source is "valid but unspecified": the mirror takes over
  // whatever the small_vector holds
  void resync(int t) { rv[t].assign(sv[t]->begin(), sv[t]->end()); }

  std::string run(const std::vector<std::string> &ops)
  {
    std::string out;
    for (int t(0); t < 2; ++t)
    {
      raw(t);
      sv[t] = new (buf[t]) SV();
      rv[t].clear();
    }

    for (const auto &op : ops)
    {
      const char c(op[0]);
      const int t(op[1] == 'a' ? 0 : 1), o(1 - t);
      const std::vector<int> z(ints(op.substr(2)));
      long ret(-1), ref_ret(-1);
      SV &v(*sv[t]);
      RV &r(rv[t]);

      switch (c)
      {
      case 'N':
        v.~SV(); raw(t);
        sv[t] = new (buf[t]) SV(static_cast<std::size_t>(z[0]));
        r = RV(static_cast<std::size_t>(z[0]));
        break;
      case 'F':
      {
        const T x(conv<T>::mk(z[1]));
        v.~SV(); raw(t);
        sv[t] = new (buf[t]) SV(static_cast<std::size_t>(z[0]), x);
        r = RV(static_cast<std::size_t>(z[0]), x);
        break;
      }
      case 'L':
      {
        const std::vector<T> x(elems(z));
        v.~SV(); raw(t);
        construct_list(t, x);
        r = x;
        break;
      }
      case 'C':
        v.~SV(); raw(t);
        sv[t] = new (buf[t]) SV(*sv[o]);
        r = RV(rv[o]);
        break;
      case 'M':
        v.~SV(); raw(t);
        sv[t] = new (buf[t]) SV(std::move(*sv[o]));
        r = RV(rv[o]);
        resync(o);
        break;
      case 'A':
        v = *sv[o];
        r = rv[o];
        break;
      case 'V':
        v = std::move(*sv[o]);
        r = rv[o];
        resync(o);
        break;
      case 'Y':
      {
        SV &alias(v);
        v = alias;
        break;
      }
      case 'X':
        v.clear();
        r.clear();
        break;
      case 'P':
      {
        const T x(conv<T>::mk(z[0]));
        v.push_back(x);
        r.push_back(x);
        break;
      }
      case 'Q':
        v.push_back(v[static_cast<std::size_t>(z[0])]);
        r.push_back(T(r[static_cast<std::size_t>(z[0])]));
        break;
      case 'E':
        if constexpr (tracked)
        {
          v.emplace_back(z[0]);   // Tracked(int)
          r.emplace_back(z[0]);
        }
        else
        {
          v.emplace_back(conv<T>::mk(z[0]));
          r.emplace_back(conv<T>::mk(z[0]));
        }
        break;
      case 'G':
        v.emplace_back(v[static_cast<std::size_t>(z[0])]);
        r.emplace_back(T(r[static_cast<std::size_t>(z[0])]));
        break;
      case 'I':
      {
        const std::vector<T> src(elems(z, 1));
        const auto it(v.insert(v.begin() + z[0], src.begin(), src.end()));
        ret = it - v.begin();
        const auto rit(r.insert(r.begin() + z[0], src.begin(), src.end()));
        ref_ret = rit - r.begin();
        break;
      }
      case 'R':
        v.resize(static_cast<std::size_t>(z[0]));
        r.resize(static_cast<std::size_t>(z[0]));
        break;
      case 'Z':
        v.reserve(static_cast<std::size_t>(z[0]));
        r.reserve(static_cast<std::size_t>(z[0]));
        break;
      case 'S':
      {
        const T x(conv<T>::mk(z[1]));
        v[static_cast<std::size_t>(z[0])] = x;
        r[static_cast<std::size_t>(z[0])] = x;
        break;
      }
      default:
        return "BADOP " + op;
      }

      out += record(ret, ref_ret) + " | ";
    }

    sv[0]->~SV();
    sv[1]->~SV();
    rv[0] = RV();
    rv[1] = RV();
    out += "end;" + (tracked ? std::to_string(g_live.size()) : std::string("-"));
    out += ";" + (g_flags.empty() ? std::string("-") : g_flags);
    return out;
  }
};

template<class T, std::size_t S>
std::string run_case(const std::vector<std::string> &ops)
{
  g_live.clear();
  g_flags.clear();
  std::string out;
  {
    auto m(std::make_unique<machine<T, S>>());
    out = m->run(ops);
  }
  g_live.clear();
  return out;
}

template<class T>
std::string dispatch_s(std::size_t s, const std::vector<std::string> &ops)
{
  switch (s)
  {
  case 1: return run_case<T, 1>(ops);
  case 2: return run_case<T, 2>(ops);
  case 3: return run_case<T, 3>(ops);
  case 4: return run_case<T, 4>(ops);
  case 5: return run_case<T, 5>(ops);
  case 6: return run_case<T, 6>(ops);
  case 7: return run_case<T, 7>(ops);
  case 8: return run_case<T, 8>(ops);
  default: return "BADS";
  }
}
}  // namespace

int main()
{
  std::string line;
  unsigned long count(0);
  while (std::getline(std::cin, line))
  {
    // a run-away loop (e.g. destroy_range(b, e) with b > e) ends the process: 5 s
    // of CPU time of this process (not wall-clock time: the machine may be loaded)
    {
      struct itimerval tv = {{0, 0}, {5, 0}};
      setitimer(ITIMER_PROF, &tv, nullptr);
    }
    std::istringstream ss(line);
    std::string ty, w;
    std::size_t s(0);
    ss >> ty >> s;
    std::vector<std::string> ops;
    while (ss >> w) ops.push_back(w);

    std::string out;
    if (ty == "i") out = dispatch_s<int>(s, ops);
    else if (ty == "d") out = dispatch_s<double>(s, ops);
    else if (ty == "s") out = dispatch_s<std::string>(s, ops);
    else if (ty == "k") out = dispatch_s<Tracked>(s, ops);
    else out = "BADTYPE";

    // memory leaks (operator new blocks, string buffers) case by case
    const int leak(__lsan_do_recoverable_leak_check());
    std::cout << out << ";" << (leak ? 1 : 0) << std::endl;
    ++count;
    if (leak)
      _exit(77);  // LeakSanitizer would report this leak again for every later case
  }
  return 0;
}
