"""C08 -- Models agree with the interpreter and honour the prediction contract.

proof:  coq/Props/Properties_C08.v (+ Refuted_C08.v) about coq/Lambda/LambdaDefs.v,
        a hand-written model of detail/lambda_f.h (object identities), lambda_f.tcc
        (team mean, dyn_slot, gaussian, binary, wta/mv), discretization.h,
        distribution.tcc, model_metric.cc and the classification evaluators.
tie:    correspondence -- harness/h_lambda.cc runs the real model objects under
        ASan/UBSan, ocaml/lambda_driver.ml runs the extracted model on the same
        cases (program outputs enter as the oracle the harness measured with a
        fresh interpreter); labels compared exactly, doubles bitwise.
search: the property restated on the implementation's outputs (python, below):
        prediction == interpreter / running mean, label < classes, confidence in
        [0,1], accuracy == fraction, evaluator == mismatches of the same tags,
        every object of a copy/assign/move/vector history answers like a fresh
        model of its programs, no sanitizer report.
"""
import json
import os
import math
import re
import struct

import vv
import prims_common as pc

NV = 3
# majority-vote teams are saved under the wta id on trees without the fix
# "fix: a majority-vote team classifier is saved under the winner-takes-all id ..." (findings/C08.json)
CHECK_MV_ROUNDTRIP = os.environ.get("C08_MV_ROUNDTRIP", "1") == "1"
# damaged model streams fed to serialize::lambda::load (D cases): needs the loader fixes of findings/C08.json
# (branch wt2b-c08) in the tree; default off until they are in /repo, then make "1" the default
CHECK_DAMAGED = os.environ.get("C08_DAMAGED", "1") == "1"
# V cases (validation frame filled by holdout / dss): need "fix: the validation dataframe filled by holdout / dss
# has no class map ..." (findings/C08.json, branch wt5-c08); default off until it is in /repo
CHECK_VALIDATION_FRAME = os.environ.get("C08_VALIDATION_FRAME", "1") == "1"
WORD_RE = re.compile(r"^[A-Za-z_][A-Za-z_0-9]*$")


def typed_tokens(R):
    """the real serialize::save text as typed tokens for the model's parser:
    each member individual's own text becomes one token i:<k>"""
    if not R["ser"] or R["ser"][0] == "-":
        return None
    text = bytes.fromhex(R["ser"][0]).decode("latin-1")
    pos = 0
    for k, h in enumerate(R["inds"]):
        it = bytes.fromhex(h).decode("latin-1")
        i = text.find(it, pos)
        if i < 0:
            return None
        mark = " @%d " % k
        text = text[:i] + mark + text[i + len(it):]
        pos = i + len(mark)
    out = []
    for t in text.split():
        if t[0] == "@":
            out.append("i:" + t[1:])
        elif re.match(r"^-?[0-9]+$", t):
            out.append("n:" + t)
        elif WORD_RE.match(t) and t not in ("inf", "nan"):
            out.append("s:" + t)
        else:
            try:
                out.append("f:" + canon(float(t)))
            except ValueError:
                return None
    return out


# ------------------------------------------------------------------ doubles
def hx(x):
    return struct.pack(">d", x).hex()


def unhx(h):
    return struct.unpack(">d", bytes.fromhex(h))[0]


def tok(x):
    return "v" if x is None else "d:" + hx(x)


def untok(t):
    if t == "v":
        return None
    if t.startswith("d:"):
        return unhx(t[2:])
    if t.startswith("i:"):
        return float(int(t[2:]))
    raise ValueError(t)


def canon(x):
    """hex with all NaNs alike (the harness prints NaN canonically)"""
    return "7ff8000000000000" if x != x else hx(x)


SPECIAL = [0.0, -0.0, 1.0, -1.0, 0.5, -0.5, 2.0, 3.0, 1e-300, -1e-300, 5e-324, 2.2250738585072014e-308,
           1e300, -1e300, 1.7976931348623157e308, -1.7976931348623157e308, 1e7, -1e7, 10000001.0, -10000001.0,
           9999999.0, 1e8, 1e16, -1e16, 4.440892098500626e-16, 4.4408920985006257e-16, 1e-17, 0.1, 0.3, 7.0, 100.0,
           1e154, -1e154, 1.5e154, 12345.678, -98765.4321, 1e-8, 2.5, -2.5]


def rand_value(rng, void_p=0.08, inf_p=0.02):
    r = rng.random()
    if r < void_p:
        return None
    if r < void_p + inf_p:
        return rng.choice([math.inf, -math.inf])
    r = rng.random()
    if r < 0.35:
        return rng.choice(SPECIAL)
    if r < 0.6:
        return float(rng.randint(-5, 5))
    if r < 0.8:
        return rng.uniform(-10, 10)
    if r < 0.9:
        return rng.gauss(0, 1) * 10 ** rng.randint(-12, 12)
    return unhx("%016x" % (rng.getrandbits(64) & 0x7fefffffffffffff | (rng.getrandbits(1) << 63)))


def rand_row(rng, profile):
    if profile == "tame":
        return [rng.choice([float(rng.randint(-4, 4)), rng.uniform(-3, 3), 0.5, 1.0]) for _ in range(NV)]
    if profile == "voidy":
        return [rand_value(rng, void_p=0.4) for _ in range(NV)]
    return [rand_value(rng) for _ in range(NV)]


def rand_prog(rng):
    return rng.choice(["x0", "x1", "x2", "x0", "r%d" % rng.randint(1, 5000), "r%d" % rng.randint(1, 5000)])


# ------------------------------------------------------------------ cases
COMBOS_T = ["reg/ind", "reg/team", "dyn/ind", "dyn/wta", "dyn/mv", "gauss/ind", "gauss/wta", "gauss/mv",
            "bin/ind", "bin/wta", "bin/mv"]
COMBOS_H = ["reg/ind", "reg/team", "dyn/ind", "gauss/ind", "bin/ind", "dyn/wta", "gauss/wta"]


def gen_header(rng, combo, for_history=False):
    scheme, comp = combo.split("/")
    teamish = comp != "ind"
    classes = 0 if scheme == "reg" else (2 if scheme == "bin" else rng.choice([2, 2, 3, 4]))
    xslot = rng.choice([1, 1, 2, 3, 10]) if scheme == "dyn" else 1
    profile = rng.choice(["tame", "wild", "wild", "voidy"])
    if for_history:
        nprog = rng.randint(2, 4)
    else:
        nprog = rng.randint(1, 4) if teamish else 1
    progs = [rand_prog(rng) for _ in range(nprog)]
    shape = rng.choice(["normal", "normal", "empty", "single", "oneclass", "tiny"])
    if shape == "empty":
        ntrain = 0
    elif shape in ("single", "tiny"):
        ntrain = rng.randint(1, 2)
    else:
        ntrain = rng.randint(3, 10)
    train = []
    oneclass = rng.randrange(max(classes, 1))
    base = rand_row(rng, profile)
    for i in range(ntrain):
        row = rand_row(rng, profile)
        if shape == "oneclass" or rng.random() < 0.15:
            # repeated / identical outputs: zero variance, ties between classes
            row = list(base)
        if scheme == "reg":
            lab = rng.choice([row[0], rand_value(rng, 0, 0), 1.0])
            if lab is None:
                lab = 0.0
            label = "d:" + hx(lab)
        else:
            lab = oneclass if shape == "oneclass" else rng.randrange(classes)
            label = "i:%d" % lab
        train.append((label, row))
    nq = rng.randint(1, 4)
    query = []
    for j in range(nq):
        r = rng.random()
        if train and r < 0.3:
            query.append(list(rng.choice(train)[1]))       # a training row
        elif r < 0.6:
            query.append(rand_row(rng, "wild"))             # unseen, extreme
        else:
            query.append(rand_row(rng, profile))
    return {"scheme": scheme, "comp": comp, "classes": classes, "xslot": xslot, "progs": progs,
            "train": train, "query": query, "shape": shape, "profile": profile}


def gen_history(rng, c, nops):
    """a valid history (python keeps the value-semantics state)"""
    team = c["comp"] != "ind"
    live = {}      # slot -> 'heap' | 'vec'
    vec = []
    n = 0
    ops = []
    for k in range(nops):
        heap = [s for s, w in live.items() if w == "heap"]
        alls = list(live)
        choices = ["N"]
        if alls:
            choices += ["C", "C", "A", "A", "P", "P", "P"]
        if heap:
            choices += ["D", "M"]
        if vec:
            choices += ["E"]
        o = rng.choice(choices)
        if o == "N":
            m = rng.randint(1, len(c["progs"])) if team else 1
            ps = [rng.randrange(len(c["progs"])) for _ in range(m)]
            ops.append("N:" + ",".join(map(str, ps)))
            live[n] = "heap"
            n += 1
        elif o == "C":
            ops.append("C:%d" % rng.choice(alls))
            live[n] = "heap"
            n += 1
        elif o == "M":
            s = rng.choice(heap)
            ops.append("M:%d" % s)
            del live[s]
            live[n] = "heap"
            n += 1
        elif o == "A":
            d = rng.choice(alls)
            s = d if rng.random() < 0.1 else rng.choice(alls)
            ops.append("A:%d:%d" % (d, s))
        elif o == "D":
            s = rng.choice(heap)
            ops.append("D:%d" % s)
            del live[s]
        elif o == "P":
            ops.append("P:%d" % rng.choice(alls))
            live[n] = "vec"
            vec.append(n)
            n += 1
        elif o == "E":
            k2 = rng.randrange(len(vec))
            ops.append("E:%d" % k2)
            del live[vec[-1]]
            vec.pop()
    return ops


def case_line(kind, c):
    parts = [kind, c["scheme"], c["comp"], str(c["classes"]), str(c["xslot"]), str(len(c["progs"]))] + c["progs"]
    parts.append(str(len(c["train"])))
    for label, row in c["train"]:
        parts.append(label)
        parts += [tok(v) for v in row]
    parts.append(str(len(c["query"])))
    for row in c["query"]:
        parts += [tok(v) for v in row]
    if kind == "H":
        parts.append(str(len(c["ops"])))
        parts += c["ops"]
    return " ".join(parts)


def parse_case(line):
    t = line.split()
    p = [0]

    def nx():
        p[0] += 1
        return t[p[0] - 1]
    c = {"kind": nx(), "scheme": nx(), "comp": nx(), "classes": int(nx()), "xslot": int(nx())}
    c["progs"] = [nx() for _ in range(int(nx()))]
    c["train"] = []
    for _ in range(int(nx())):
        label = nx()
        c["train"].append((label, [untok(nx()) for _ in range(NV)]))
    c["query"] = [[untok(nx()) for _ in range(NV)] for _ in range(int(nx()))]
    c["ops"] = [nx() for _ in range(int(nx()))] if c["kind"] == "H" else []
    return c


def gen_cases(ck):
    rng = ck.rng
    lines = []
    # corpus: the witness of Refuted_C08.v (copy, then destroy the original) and
    # its assignment / vector variants, on every kind of model
    for combo in COMBOS_H:
        for ops in (["N:0", "C:0", "D:0"], ["N:0", "N:1", "A:1:0", "D:0"], ["N:0", "P:0", "D:0", "P:1", "P:2", "E:0"],
                    ["N:0", "M:0", "C:1", "D:1"]):
            c = gen_header(rng, combo, for_history=True)
            c["ops"] = ops
            lines.append(case_line("H", c))
    nt = 60 if not ck.thorough else 1500
    nh = 25 if not ck.thorough else 500
    for combo in COMBOS_T:
        for _ in range(nt):
            lines.append(case_line("T", gen_header(rng, combo)))
    # evaluator / lambdify on a validation frame filled by the real holdout / dss strategy
    # (examples arrive by push_back; classes may be absent from one side)
    if CHECK_VALIDATION_FRAME:
        for combo in ("dyn/ind", "gauss/ind", "bin/ind", "dyn/wta", "gauss/wta", "bin/wta"):
            for _ in range(8 if not ck.thorough else 120):
                c = gen_header(rng, combo)
                while len(c["train"]) < 2:
                    c = gen_header(rng, combo)
                lines.append(case_line("V", c) + " %s %d %d" % (rng.choice(["holdout", "dss"]),
                                                                rng.choice([20, 50, 50, 80, 99]), rng.randint(1, 10 ** 6)))
    if CHECK_DAMAGED:
        for combo in COMBOS_T:
            for _ in range(1 if not ck.thorough else 12):
                lines.append(case_line("D", gen_header(rng, combo)))
    for combo in COMBOS_H:
        for _ in range(nh):
            c = gen_header(rng, combo, for_history=True)
            c["ops"] = gen_history(rng, c, rng.randint(4, 14) if not ck.thorough else rng.randint(4, 60))
            lines.append(case_line("H", c))
    return lines


# ------------------------------------------------------------------ oracle
def running_mean(xs):
    avg, count = 0.0, 0.0
    for x in xs:
        if x is not None:
            count += 1.0
            try:
                avg += (x - avg) / count
            except OverflowError:       # python raises where IEEE gives inf
                return "skip"
    return avg if count > 0.0 else None


def split_out(o):
    """'O ... R ...' -> (oracle tokens, result tokens)"""
    t = o.split()
    if not t or t[0] != "O" or "R" not in t:
        return None, None
    i = t.index("R")
    return t[1:i], t[i + 1:]


def parse_T_result(rt):
    """q ... t ... acc x fit x l ..."""
    out = {"q": [], "t": [], "l": [], "var": [], "mat": [], "cls": [], "slots": [], "rt": [], "ser": [], "inds": [],
           "sertok": [], "rtm": [], "acc": None, "fit": None}
    cur = None
    i = 0
    while i < len(rt):
        w = rt[i]
        if w in ("q", "t", "l", "var", "mat", "cls", "slots", "rt", "ser", "inds", "sertok", "rtm"):
            cur = w
        elif w in ("acc", "fit"):
            out[w] = rt[i + 1]
            i += 1
            cur = None
        elif cur:
            out[cur].append(w)
        i += 1
    return out


def tag_of(s):
    a, b = s.split("/")
    return int(a), unhx(b)


def check_tag(c, s, where):
    """the prediction contract on one classification answer; returns problem or None"""
    lab, conf = tag_of(s)
    if lab >= c["classes"]:
        return "label %d is not an existing class (classes=%d) %s" % (lab, c["classes"], where)
    if c["scheme"] == "bin" and c["comp"] != "mv":
        if not (conf >= 0.0):
            return "binary sureness %r is not non-negative %s" % (conf, where)
    elif not (0.0 <= conf <= 1.0):
        return "confidence %r outside [0,1] %s" % (conf, where)
    return None


def dyn_rule(rows, classes):
    """the documented slot -> class rule: class with the largest count in the
    slot, ties to the higher class; a slot without examples inherits the class
    of its left neighbour (after that one's own fix-up), else of a known right
    neighbour, else class 0"""
    unknown = classes
    raw = []
    for r in rows:
        best = 0
        for j in range(1, classes):
            if r[j] >= r[best]:
                best = j
        raw.append(best if r[best] else unknown)
    out = list(raw)
    for i in range(len(out)):
        if out[i] == unknown:
            if i and out[i - 1] != unknown:
                out[i] = out[i - 1]
            elif i + 1 < len(out) and out[i + 1] != unknown:
                out[i] = out[i + 1]
            else:
                out[i] = 0
    return out


def oracle_dyn_tables(c, R, combo):
    """dyn_slot (individual): the tables and answers follow the documented
    rule from the training data.  Independent of the Coq model."""
    bad = []
    ntr, nq = len(c["train"]), len(c["query"])
    try:
        ns, ncl = int(R["mat"][0]), int(R["mat"][1])
        cells = [int(x) for x in R["mat"][2:]]
        rows = [cells[i * ncl:(i + 1) * ncl] for i in range(ns)]
        cls = [int(x) for x in R["cls"]]
        slots = [int(x) for x in R["slots"]]
    except ValueError:
        return [("harness:protocol", "table dump malformed")]
    if ns != c["classes"] * c["xslot"] or ncl != c["classes"] or len(cells) != ns * ncl or len(cls) != ns \
            or len(slots) != nq + ntr:
        return [("dyn_slot:table-shape", "matrix %dx%d / %d slot classes for %d classes x %d slots"
                 % (ns, ncl, len(cls), c["classes"], c["xslot"]))]
    if any(not (0 <= s < ns) for s in slots):
        bad.append(("dyn_slot:slot-out-of-range", "slot() returned %s with %d slots" % (slots, ns)))
        return bad
    # fill rule: one count per training example at (slot, label)
    want = [[0] * ncl for _ in range(ns)]
    for i, (lab, _) in enumerate(c["train"]):
        want[slots[nq + i]][int(lab[2:])] += 1
    if want != rows:
        bad.append(("dyn_slot:matrix-is-not-the-count-table",
                    "slot matrix %s, counting the training examples by (slot, label) gives %s" % (rows, want)))
    rule = dyn_rule(rows, ncl)
    if rule != cls:
        k = next(i for i in range(ns) if rule[i] != cls[i])
        bad.append(("dyn_slot:slot-class-rule",
                    "slot %d with counts %s (neighbours: %s) is assigned class %d; the documented rule (arg-max, ties to the "
                    "higher class, unknown slots inherit a neighbour) gives %d" % (k, rows[k], rows, cls[k], rule[k])))
    # answers: label = class of the slot, confidence = share of that class in the slot (0.5 when empty)
    preds = R["q"] + R["t"]
    for j, (p, s) in enumerate(zip(preds, slots)):
        lab, conf = tag_of(p)
        tot = sum(rows[s])
        wc = 0.5 if tot == 0 else rows[s][cls[s]] / tot
        if lab != cls[s] or canon(conf) != canon(wc):
            bad.append(("dyn_slot:answer-is-not-the-slot-class",
                        "row %d falls in slot %d (class %d, counts %s) but the answer is %s" % (j, s, cls[s], rows[s], p)))
            break
    return bad


def parse_V_result(rt):
    out = {"vc": None, "vs": None, "ts": None, "vrows": [], "fit": None, "l": []}
    cur = None
    i = 0
    while i < len(rt):
        w = rt[i]
        if w in ("vc", "vs", "ts", "fit"):
            out[w] = rt[i + 1]
            i += 1
            cur = None
        elif w in ("vrows", "l"):
            cur = w
        elif cur:
            out[cur].append(w)
        i += 1
    return out


def synth_T_from_V(line, otoks, rt):
    """the T case whose training set is the validation frame (rows in frame order),
    with the oracle outputs of those rows: what the model says the evaluator over
    the validation frame computes"""
    c = parse_case(line)
    R = parse_V_result(rt)
    try:
        rows = [int(x) for x in R["vrows"]]
    except ValueError:
        return None
    if not rows or any(r < 0 for r in rows):
        return None
    ntr, nq, npg = len(c["train"]), len(c["query"]), len(c["progs"])
    if len(otoks) != npg * (ntr + nq):
        return None
    c2 = dict(c)
    c2["train"] = [c["train"][r] for r in rows]
    o2 = []
    for p in range(npg):
        base = p * (ntr + nq)
        o2 += [otoks[base + r] for r in rows] + otoks[base + ntr:base + ntr + nq]
    return case_line("T", c2) + " O " + " ".join(o2)


def oracle_T(c, otoks, rt):
    """returns list of (key, what)"""
    bad = []
    combo = c["scheme"] + "/" + c["comp"]
    ntr, nq, npg = len(c["train"]), len(c["query"]), len(c["progs"])
    if len(otoks) != npg * (ntr + nq):
        return [("harness:protocol", "oracle section has %d tokens" % len(otoks))]
    outs = [[untok(x) for x in otoks[p * (ntr + nq):(p + 1) * (ntr + nq)]] for p in range(npg)]
    if any(v is not None and v != v for row in outs for v in row):
        return []          # a program produced NaN: outside the contract of C13, nothing is promised
    R = parse_T_result(rt)
    if len(R["q"]) != nq or len(R["t"]) != ntr:
        return [("harness:protocol", "result section malformed")]
    allpred = [("query %d" % j, R["q"][j], ntr + j) for j in range(nq)] + [("train row %d" % i, R["t"][i], i) for i in range(ntr)]
    if c["scheme"] == "reg":
        for where, pred, col in allpred:
            if c["comp"] == "ind":
                want = outs[0][col]
            else:
                want = running_mean([outs[p][col] for p in range(npg)])
                if want == "skip":
                    continue
            wt = "v" if want is None else "d:" + canon(want)
            if pred != wt:
                bad.append(("predict:%s:differs-from-interpreter" % combo,
                            "%s model answers %s on %s, interpreting the program(s) gives %s" % (combo, pred, where, wt)))
        if R["acc"] not in (None, "-") and ntr:
            ok = 0
            for i in range(ntr):
                v = untok(R["t"][i])
                lab = untok(c["train"][i][0])
                if v is not None and abs(v - lab) < 2.0 * 2.220446049250313e-16:
                    ok += 1
            if R["acc"] != canon(ok / ntr):
                bad.append(("accuracy:%s:not-the-fraction" % combo,
                            "accuracy %s but %d of %d predictions match" % (R["acc"], ok, ntr)))
    else:
        for where, pred, col in allpred:
            pb = check_tag(c, pred, "on " + where)
            if pb:
                bad.append(("tag:%s:contract" % combo, "%s: %s" % (combo, pb)))
        labels = [int(l[2:]) for l, _ in c["train"]]
        tags = [tag_of(s) for s in R["t"]]
        if ntr and R["acc"] not in (None, "-"):
            ok = sum(1 for (l, _), lab in zip(tags, labels) if l == lab)
            if R["acc"] != canon(ok / ntr):
                bad.append(("accuracy:%s:not-the-fraction" % combo,
                            "accuracy %s but %d of %d predictions match the label" % (R["acc"], ok, ntr)))
        if R["fit"] not in (None, "-"):
            if c["scheme"] in ("dyn", "bin"):
                want = -float(sum(1 for (l, _), lab in zip(tags, labels) if l != lab))
            else:
                want = 0.0
                scale = float(c["classes"] - 1)
                for (l, s), lab in zip(tags, labels):
                    if l == lab:
                        want += (s - 1.0) / scale
                    else:
                        want -= 1.0
            if R["fit"] != canon(want):
                bad.append(("evaluator:%s:scores-another-function" % combo,
                            "evaluator fitness %s, the model's own tags on the training set give %s" % (R["fit"], canon(want))))
    if R["mat"]:
        bad += oracle_dyn_tables(c, R, combo)
    for h in R["var"]:
        v = unhx(h)
        if not (v != v or v >= 0.0):
            bad.append(("gaussian:variance-negative", "per-class variance %r is neither NaN nor >= 0 "
                        "(contradicts C08_welford_variance_nan_or_nonneg)" % v))
    if R["rt"] and (c["comp"] != "mv" or CHECK_MV_ROUNDTRIP) and R["rt"] != R["q"]:
        bad.append(("roundtrip:%s:load-of-save-answers-differently" % combo,
                    "%s model answers %s on the queries; after serialize::save + serialize::lambda::load it answers %s"
                    % (combo, R["q"], R["rt"])))
    if R["l"] and R["l"] != R["q"]:
        bad.append(("lambdify:%s:differs-from-direct-construction" % combo,
                    "lambdify'ed model answers %s, directly constructed model %s" % (R["l"], R["q"])))
    return bad


def simulate(ops):
    """value semantics: slot -> tuple of program indices after each op"""
    live = {}
    vec = []
    n = 0
    states = []
    for o in ops:
        f = o.split(":")
        if f[0] == "N":
            live[n] = tuple(int(x) for x in f[1].split(","))
            n += 1
        elif f[0] == "C":
            live[n] = live[int(f[1])]
            n += 1
        elif f[0] == "M":
            live[n] = live.pop(int(f[1]))
            n += 1
        elif f[0] == "A":
            live[int(f[1])] = live[int(f[2])]
        elif f[0] == "D":
            del live[int(f[1])]
        elif f[0] == "P":
            live[n] = live[int(f[1])]
            vec.append(n)
            n += 1
        elif f[0] == "E":
            k = int(f[1])
            for j in range(k, len(vec) - 1):
                live[vec[j]] = live[vec[j + 1]]
            del live[vec[-1]]
            vec.pop()
        states.append(dict(live))
    return states


def oracle_H(c, otoks, rt):
    """every live object answers like a fresh model of its programs.
    returns (list of (key, what), index of the first failing op or None)"""
    combo = c["scheme"] + "/" + c["comp"]
    ntr, nq, npg = len(c["train"]), len(c["query"]), len(c["progs"])
    if len(otoks) != npg * (ntr + nq):
        return [("harness:protocol", "oracle section has %d tokens" % len(otoks))], None
    outs = [[untok(x) for x in otoks[p * (ntr + nq):(p + 1) * (ntr + nq)]] for p in range(npg)]
    if any(v is not None and v != v for row in outs for v in row):
        return [], None
    steps = " ".join(rt).split("|")[1:]
    states = simulate(c["ops"])
    if len(steps) != len(states):
        return [("harness:protocol", "history output has %d steps for %d ops" % (len(steps), len(states)))], None
    fresh = {}
    for k, (st, live) in enumerate(zip(steps, states)):
        got = dict(w.split("=") for w in st.split())
        if set(int(s) for s in got) != set(live):
            return [("harness:protocol", "live slots differ at op %d" % k)], k
        for s, progs in sorted(live.items()):
            preds = got[str(s)].split(",")
            if c["scheme"] == "reg":
                want = []
                for j in range(nq):
                    if c["comp"] == "ind":
                        w = outs[progs[0]][ntr + j]
                    else:
                        w = running_mean([outs[p][ntr + j] for p in progs])
                    want.append("?" if w == "skip" else ("v" if w is None else "d:" + canon(w)))
                wantl = [p if w == "?" else w for p, w in zip(preds, want)]
            else:
                for p in preds:
                    pb = check_tag(c, p, "after op %d (%s) in slot %d" % (k, c["ops"][k], s))
                    if pb:
                        return [("tag:%s:contract" % combo, "%s: %s" % (combo, pb))], k
                if c["ops"][k].startswith("N:") and s == max(live):
                    fresh.setdefault(progs, preds)
                wantl = fresh.get(progs, preds)
            if preds != wantl:
                return [("history:%s:object-answers-for-another-program" % combo,
                         "after op %d (%s) of %s the %s model in slot %d (programs %s) answers %s; a fresh model of those "
                         "programs answers %s" % (k, c["ops"][k], " ".join(c["ops"][:k + 1]), combo, s,
                                                  [c["progs"][p] for p in progs], preds, wantl))], k
    return [], None


# ------------------------------------------------------------------ run
def run(ck):
    vv.build_lib("asan")
    res = vv.prove("Properties_C08", vv.FLOCQ_AXIOMS)
    ck.add_proof(res)
    ck.add_proof(vv.prove("Refuted_C08", set()))
    ck.add_proof(vv.prove("Link_C08", vv.FLOCQ_AXIOMS))
    ck.trusted += ["coq/Lambda/LambdaDefs.v is a hand-written model (tie = correspondence only)",
                   "extraction: ExtrOcamlBasic only; ocaml/lambda_driver.ml + zutil.ml (libm atan/exp = OCaml Stdlib = glibc)",
                   "harness/h_lambda.cc (canonical printing, std::vector histories); g++ 12 ASan/UBSan as detector of "
                   "use-after-free / UB",
                   "std::vector relocation/assignment semantics (copy-construct + destroy; element-wise assignment)"]
    ck.assumptions += [
        "program outputs enter as an oracle (the interpreter is property C01); for slot() and the binary sureness they "
        "must not be NaN (the conversion of NaN to size_t is undefined; |NaN| is NaN): Props/Link_C08.v derives this "
        "from C13's closure theorem for every well-typed program over the shipped primitives on good inputs; the "
        "gaussian / team / accuracy theorems need no such precondition",
        "serialisation is modelled at token level: the text of an individual (i_mep::save/load) and the decimal / %.16e "
        "text of numbers are property C11's codec; every run the model's parser reads the REAL saved text",
        "H_libm (hypotheses of the gaussian theorems): exp(NaN) is NaN; exp(x) in [0,1] for x <= 0; "
        "atan enters only through the oracle [libm_atan] (no fact about it is needed for the range theorems)",
        "counters (unsigned / uintmax_t) do not wrap: fewer than 2^32 training examples",
    ]
    harness = vv.build_harness("h_lambda")
    model = vv.ocaml_model("Lambda")

    if ck.replay_path:
        rp = json.load(open(ck.replay_path))
        lines = rp.get("cases") or [rp["case"]]
    else:
        lines = gen_cases(ck)

    hout, crashes = pc.run_harness_resilient(harness, lines)
    mlines, midx = [], []
    for k, (l, o) in enumerate(zip(lines, hout)):
        ot, rt = split_out(o or "")
        if ot is not None and l.startswith("V"):
            vt = synth_T_from_V(l, ot, rt)
            if vt:
                mlines.append(vt)
                midx.append(k)
            continue
        if ot is not None and not l.startswith("D"):
            ml = l + " O " + " ".join(ot)
            if l.startswith("T") and " mv " not in l[:20]:
                st = typed_tokens(parse_T_result(rt))
                if st:
                    ml += " S %d %s" % (len(st), " ".join(st))
            mlines.append(ml)
            midx.append(k)
    rc, mout, merr = vv.run_lines_parallel(model, mlines)
    if rc != 0 or len(mout) != len(mlines):
        raise vv.BuildError("model driver failed: rc=%s %s" % (rc, merr[:500]))
    mres = dict(zip(midx, mout))

    hist = {}
    for k, line in enumerate(lines):
        c = parse_case(line)
        combo = "%s %s/%s" % (c["kind"], c["scheme"], c["comp"])
        hist[combo] = hist.get(combo, 0) + 1
        ck.count()
        ho = hout[k]
        if k % (len(lines) // 5 + 1) == 0:
            ck.sample({"case": line[:300], "impl": (ho or "")[:300], "model": mres.get(k, "")[:200]})
        if ho is None or ho.startswith("CRASH"):
            rep = crashes.get(k, "")
            what = "heap-use-after-free" if "heap-use-after-free" in rep else (
                "leak" if "LeakSanitizer" in rep or "detected memory leaks" in rep else "sanitizer-report")
            dl = [x for x in rep.splitlines() if x.startswith("D-")]
            if c["kind"] == "V":
                ck.add_violation("validation-frame:%s:%s:%s" % (line.split()[-3], c["scheme"] + "/" + c["comp"], what),
                                 "%s evaluator / lambdify on the validation frame filled by %s: %s"
                                 % (c["scheme"] + "/" + c["comp"], line.split()[-3], what),
                                 {"cases": [line], "sanitizer": rep[-2500:]})
                continue
            if c["kind"] == "D":
                ck.add_violation("damaged-load:%s:%s" % (c["scheme"] + "/" + c["comp"], what),
                                 "%s: damaged model stream variant %s: %s in serialize::lambda::load or in the loaded model"
                                 % (c["scheme"] + "/" + c["comp"], dl[-1] if dl else "?", what),
                                 {"cases": [line], "variant": dl[-1] if dl else None, "sanitizer": rep[-2500:]})
                continue
            ck.add_violation("%s:%s:%s" % ("history" if c["kind"] == "H" else "predict", c["scheme"] + "/" + c["comp"], what),
                             "%s/%s model: %s while running the case" % (c["scheme"], c["comp"], what),
                             {"cases": [line], "impl": ho, "sanitizer": rep[-2500:]})
            continue
        if c["kind"] == "V":
            combo2 = c["scheme"] + "/" + c["comp"]
            strategy = line.split()[-3]
            ot, rt = split_out(ho)
            ck.nontriv(("V", combo2, strategy, hash(line) % 100000))
            if rt is None:
                ck.add_diff({"case": line}, mres.get(k), ho, what="harness could not run the case: " + ho[:200])
                continue
            R = parse_V_result(rt)
            if R["vc"] is not None and int(R["vc"]) != c["classes"] and int(R["vs"] or 0) > 0:
                ck.add_violation("validation-frame:%s:classes-lost" % strategy,
                                 "after %s the validation frame holds %s examples of a %d-class problem but reports "
                                 "classes() = %s: classification evaluators / models built on it size their tables with it"
                                 % (strategy, R["vs"], c["classes"], R["vc"]), {"cases": [line], "impl": ho[:600]})
            for p in R["l"]:
                pb = check_tag(c, p, "on a query, model lambdify'ed from the validation frame")
                if pb:
                    ck.add_violation("tag:%s:contract" % combo2, "%s: %s" % (combo2, pb), {"cases": [line], "impl": ho[:600]})
                    break
            mo = mres.get(k)
            if mo is not None and not mo.startswith(("UB", "BADLINE")):
                Rm = parse_T_result(mo.split()[1:])
                ck.coverage["validation_frame_compared"] = ck.coverage.get("validation_frame_compared", 0) + 1
                if Rm["fit"] != R["fit"] or Rm["q"] != R["l"]:
                    ck.add_diff({"case": line}, "fit %s l %s" % (Rm["fit"], Rm["q"]), "fit %s l %s" % (R["fit"], R["l"]),
                                what="evaluator / lambdify over the validation frame differ from the model on the same rows")
            continue
        if c["kind"] == "D":
            # documented outcomes of serialize::lambda::load on a damaged stream: a model, nullptr, or
            # exception::data_format -- and a model that loaded and says is_valid() answers queries
            t = ho.split()
            ck.nontriv(("D", c["scheme"], c["comp"], hash(line) % 100000))
            if "other" in t and int(t[t.index("other") + 1]) > 0:
                first = t[t.index("other") + 2]
                combo2 = c["scheme"] + "/" + c["comp"]
                if c["comp"] == "mv" and "length_error" in first:
                    key = "damaged-load:mv-team:classes-not-validated"
                else:
                    key = "damaged-load:%s:other-exception" % combo2
                ck.add_violation(key, "%s: a damaged model stream (%s) makes serialize::lambda::load / the loaded model throw "
                                      "something else than exception::data_format" % (combo2, first),
                                 {"cases": [line], "impl": ho[:500]})
            continue
        if ho.startswith("EXC") or ho.startswith("BADCASE"):
            ck.add_diff({"case": line}, mres.get(k), ho, what="harness could not run the case: " + ho[:200])
            continue
        ot, rt = split_out(ho)
        ck.nontriv((c["kind"], c["scheme"], c["comp"], c["classes"], c["xslot"], len(c["train"]), len(c["progs"]),
                    tuple(c["ops"]), hash(line) % 100000))
        if c["kind"] == "T":
            bad = oracle_T(c, ot, rt)
            first = None
        else:
            bad, first = oracle_H(c, ot, rt)
        for key, what in bad:
            rl = line
            if first is not None and c["kind"] == "H":
                c2 = dict(c)
                c2["ops"] = c["ops"][:first + 1]
                c2["train"] = [(l, r) for l, r in c["train"]]
                rl = case_line("H", c2)
            ck.add_violation(key, what, {"cases": [rl], "impl": ho[:3000], "model": mres.get(k)})
        mo = mres.get(k)
        impl_r = "R " + " ".join(rt) if rt else "R"
        if c["kind"] == "T" and mo is not None:
            # serialisation: the model's parser must accept the real text, print it back
            # identically, and the model it loaded must answer like the really loaded one
            Ri = parse_T_result(rt)
            Rm = parse_T_result(mo.split()[1:])
            it = impl_r.split()
            if "rt" in it:
                a = it.index("rt")
                b = min([it.index(w) for w in ("mat", "var") if w in it[a:]] + [len(it)])
                impl_r = " ".join(it[:a] + it[b:])
            mo = mo.split(" sertok ")[0]
            if Rm["sertok"]:
                if Rm["sertok"][0] != "ok":
                    ck.add_diff({"case": line}, "sertok " + Rm["sertok"][0], Ri["ser"][0][:400],
                                what="the token-level model of serialize::save/load does not reproduce the real text")
                elif Rm["rtm"] != Ri["rt"]:
                    ck.add_diff({"case": line}, "rtm " + " ".join(Rm["rtm"]), "rt " + " ".join(Ri["rt"]),
                                what="model loaded from the real text answers differently from the really loaded model")
                else:
                    ck.coverage["serial_roundtrips"] = ck.coverage.get("serial_roundtrips", 0) + 1
        if mo is not None and " ".join(mo.split()) != " ".join(impl_r.split()):
            ck.add_diff({"case": line}, mo[:2000], impl_r[:2000])
    ck.coverage["per_kind"] = hist
    return ck.finish(
        rule="seeded random cases per (scheme, composition): programs = pass-through variables (the query fixes the "
             "program output exactly: void, +-0, denormals, 1e300, +-inf, values around the +-1e7 clamp and 2^-51) and "
             "random vita individuals; training sets with empty classes, one example, one class, identical outputs; "
             "queries = training rows, unseen and extreme rows; histories = random valid sequences of "
             "new/copy/move/assign/self-assign/destroy/vector push (relocating) /erase. non-trivial = every case that ran "
             "to completion; distinct = distinct (kind, scheme, composition, classes, slots, sizes, history, input hash)")
