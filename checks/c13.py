"""C13 -- Real-valued primitives are closed over finite-or-undefined values.

proof:  coq/Props/Properties_C13.v about the bodies real_*_body / string_ife_body
        of coq/Gen/Prims.v, regenerated from real.h / string.h on every run and
        run under the C++ semantics of coq/Cxx/CxxMini.v over Flocq binary64.
tie:    regenerated model + correspondence (harness h_prims under ASan/UBSan vs
        the extracted model, bitwise) on boundary products and random patterns,
        single primitives and random expression trees.
search: the property evaluated directly on the implementation's outputs by an
        independent oracle (python floats are IEEE binary64): closure,
        strictness on fetched arguments, IEEE value of the named operation,
        branch taken by the conditionals.
"""
import json
import math
import struct

import vv
import prims_common as pc

# ---------------------------------------------------------------- doubles
def f2b(x):
    return struct.unpack("<Q", struct.pack("<d", x))[0]


def b2f(b):
    return struct.unpack("<d", struct.pack("<Q", b & (2 ** 64 - 1)))[0]


def tok(b):
    return "v" if b is None else "d:%016x" % b


SIGN = 1 << 63
INF = 0x7FF0000000000000
NAN = 0x7FF8000000000000
TWO_EPS = 0x3CC0000000000000            # 2^-51
ONE = 0x3FF0000000000000
DBL_MAX = 0x7FEFFFFFFFFFFFFF
DBL_MIN = 0x0010000000000000


def finite_bits(b):
    return (b >> 52) & 0x7FF != 0x7FF


def pow2(k):
    return f2b(math.ldexp(1.0, k))


def boundary_bits(full):
    pos = {0, 1, 2, 0x000FFFFFFFFFFFFF, DBL_MIN, DBL_MIN + 1, DBL_MAX, DBL_MAX - 1,
           ONE, ONE + 1, ONE - 1, ONE + 2, ONE + 3, ONE + 4, ONE - 2,
           f2b(0.5), f2b(1.5), f2b(2.0), f2b(2.5), f2b(3.0), f2b(0.1), f2b(10.0),
           f2b(math.pi), f2b(math.pi / 2), f2b(math.e), f2b(1e22), f2b(1e300), f2b(1e-300),
           f2b(709.0), f2b(710.0), f2b(745.0), f2b(746.0), f2b(36.0), f2b(37.0), f2b(38.0),
           0x5FEFFFFFFFFFFFFF, 0x5FF0000000000000,      # ~sqrt(DBL_MAX): squares just below / above overflow
           0x7FE0000000000000,                          # 2^1023: x+x and x*2 overflow
           0x7FD0000000000000, 0x7FDFFFFFFFFFFFFF}
    for k in range(-3, 4):
        pos.add(TWO_EPS + k)                             # around the tolerance, 1 ulp steps
    ks = [-1074, -1073, -1023, -1022, -1021, -538, -537, -100, -64, -54, -53, -52, -51, -50, -49, -27, -26,
          -10, -2, 2, 10, 26, 27, 31, 32, 52, 53, 54, 63, 64, 100, 511, 512, 513, 1000, 1021, 1022, 1023]
    if not full:
        ks = [-1074, -1022, -537, -53, -52, -51, -50, -26, 26, 53, 64, 511, 512, 1022, 1023]
    for k in ks:
        pos.add(pow2(k))
    out = set()
    for b in pos:
        out.add(b)
        out.add(b | SIGN)
    return sorted(out)


def near_boundary(b, bset):
    if b is None:
        return True
    m = b & ~SIGN
    if m in bset:
        return True
    if (m & ((1 << 52) - 1)) in (0, 1, (1 << 52) - 1):   # within an ulp of a power of two
        return True
    return abs(m - TWO_EPS) <= 8 or abs(m - ONE) <= 8


# ---------------------------------------------------------------- primitives
UN = ["real_abs", "real_cos", "real_sin", "real_sqrt", "real_ln", "real_sigmoid"]
BIN = ["real_add", "real_sub", "real_mul", "real_div", "real_idiv", "real_mod", "real_aq", "real_max",
       "real_gt", "real_lt"]
TERMS = ["real_real", "real_integer"]
ARITY = {"real_ife": 4, "real_ifl": 4, "real_ifz": 3, "real_ifb": 5, "real_length": 1, "string_ife": 4}
for _n in UN:
    ARITY[_n] = 1
for _n in BIN:
    ARITY[_n] = 2
for _n in TERMS:
    ARITY[_n] = 0
LIBM = {"real_cos", "real_sin", "real_ln", "real_sigmoid"}


def ulps(a, b):
    """distance in representable doubles between two finite doubles"""
    def key(x):
        b_ = f2b(x)
        return -(b_ & ~SIGN) if b_ & SIGN else b_
    return abs(key(a) - key(b))


def pyfloor(q):
    if q != q or q in (math.inf, -math.inf):
        return q
    r = float(math.floor(q))
    if r == 0.0:
        return math.copysign(0.0, q)
    return r


def ieee(name, x):
    """(result as float or None when not a double, kind) of the named operation computed independently of the
    implementation: python floats are IEEE-754 binary64 with round-to-nearest-even"""
    try:
        if name == "real_add":
            return x[0] + x[1]
        if name == "real_sub":
            return x[0] - x[1]
        if name == "real_mul":
            return x[0] * x[1]
        if name in ("real_div", "real_idiv"):
            if x[1] == 0.0:
                if x[0] == 0.0 or x[0] != x[0]:
                    q = math.nan
                else:
                    q = math.copysign(math.inf, x[0]) * math.copysign(1.0, x[1])
            else:
                q = x[0] / x[1]
            return pyfloor(q) if name == "real_idiv" else q
        if name == "real_mod":
            if x[1] == 0.0 or x[0] in (math.inf, -math.inf):
                return math.nan
            return math.fmod(x[0], x[1])
        if name == "real_aq":
            return x[0] / math.sqrt(1.0 + x[1] * x[1])
        if name == "real_max":
            if x[0] != x[0]:
                return x[1]
            if x[1] != x[1]:
                return x[0]
            return x[0] if x[0] > x[1] else x[1]
        if name == "real_abs":
            return abs(x[0])
        if name == "real_sqrt":
            if x[0] < 0.0:
                return math.nan
            return math.sqrt(x[0])
        if name == "real_ln":
            if x[0] == 0.0:
                return -math.inf
            if x[0] < 0.0:
                return math.nan
            return math.log(x[0])
        if name == "real_sin":
            return math.sin(x[0])
        if name == "real_cos":
            return math.cos(x[0])
        if name == "real_sigmoid":
            if x[0] >= 0.0:
                return 1.0 / (1.0 + math.exp(-x[0]))
            return math.exp(x[0]) / (1.0 + math.exp(x[0]))
    except (OverflowError, ValueError):
        return math.nan
    raise KeyError(name)


def parse_out(line):
    """harness/model line -> (value token | 'THROW' | 'EXC' | 'CRASH' | None, fetched list)"""
    if line is None:
        return "CRASH", []
    w = line.split()
    if not w:
        return "CRASH", []
    if w[0] in ("THROW", "STUCK", "UNKNOWN", "BADLINE") or w[0].startswith("CRASH") or w[0] == "EXC":
        return w[0] if not w[0].startswith("CRASH") else "CRASH", []
    fetched = [int(t) for t in w[2:]] if len(w) > 1 and w[1] == "f" else []
    return w[0], fetched


def in_contract(name, args, par):
    """the property's hypothesis: every argument undefined or finite (and of the type the primitive is
    declared for); the ephemeral constant finite"""
    if name in TERMS:
        return par is not None and finite_bits(par)
    if name == "real_length":
        return args[0] == "v" or args[0].startswith("s:")
    if name == "string_ife":
        return all(a == "v" or a[0] in "sdi" and (a[0] != "d" or finite_bits(int(a[2:], 16))) for a in args)
    nreal = {"real_ife": 2, "real_ifl": 2, "real_ifz": 1, "real_ifb": 3}.get(name, len(args))
    for i, a in enumerate(args):
        if a == "v":
            continue
        if i < nreal and a[0] != "d":
            return False
        if a[0] == "d" and not finite_bits(int(a[2:], 16)):
            return False
    return True


def fou_token(t):
    if t == "v" or t.startswith("i:") or t.startswith("s:"):
        return True
    return t.startswith("d:") and finite_bits(int(t[2:], 16))


def oracle(name, args, par, out):
    """None when the implementation's output satisfies the property on this in-contract case, else text"""
    val, fetched = parse_out(out)
    if val in ("THROW", "EXC", "CRASH", "UNKNOWN", "BADLINE", "STUCK"):
        return "no value returned (%s)" % out
    if not fou_token(val):
        return "returns %s: neither undefined nor a finite number" % val
    if name in TERMS:
        return None if val == "d:%016x" % par else "ephemeral constant evaluates to %s" % val
    # strictness: an undefined fetched argument makes the result undefined
    for i in fetched:
        if i < len(args) and args[i] == "v" and val != "v":
            return "argument %d was fetched and is undefined, result is %s" % (i, val)
    for i in fetched:
        if i >= len(args):
            return "fetches argument %d of %d" % (i, len(args))
    xs = [b2f(int(a[2:], 16)) if a.startswith("d:") else None for a in args]
    # conditionals: documented branch, and only that branch is fetched
    def expect_branch(guard_n, taken):
        for i in range(guard_n):
            if args[i] == "v":
                return None if (val == "v" and fetched == list(range(i + 1))) else \
                    "guard argument %d undefined: result %s fetched %s" % (i, val, fetched)
        want_f = list(range(guard_n)) + [taken]
        if fetched != want_f:
            return "fetches %s, documented %s" % (fetched, want_f)
        if val != args[taken]:
            return "returns %s, documented branch returns argument %d = %s" % (val, taken, args[taken])
        return None
    if name == "real_ife":
        if None in xs[:2]:
            return expect_branch(2, 2)
        return expect_branch(2, 2 if abs(xs[0] - xs[1]) < 2.0 ** -51 else 3)
    if name == "real_ifz":
        if xs[0] is None:
            return expect_branch(1, 1)
        return expect_branch(1, 1 if abs(xs[0]) < 2.0 ** -51 else 2)
    if name == "real_ifl":
        if None in xs[:2]:
            return expect_branch(2, 2)
        return expect_branch(2, 2 if xs[0] < xs[1] else 3)
    if name == "real_ifb":
        if None in xs[:3]:
            return expect_branch(3, 3)
        lo, hi = min(xs[1], xs[2]), max(xs[1], xs[2])
        return expect_branch(3, 3 if lo <= xs[0] <= hi else 4)
    if name == "string_ife":
        if "v" in args[:2]:
            return expect_branch(2, 2)
        same = args[0] == args[1]
        if args[0][0] == "d" and args[1][0] == "d":
            same = xs[0] == xs[1]
        return expect_branch(2, 2 if same else 3)
    if name == "real_length":
        if args[0] == "v":
            return None if val == "v" else "length(undefined) = %s" % val
        want = "d:%016x" % f2b(float((len(args[0]) - 2) // 2))
        return None if val == want else "length returns %s, documented %s" % (val, want)
    if "v" in args:
        first = args.index("v")
        if val != "v":
            return "argument %d undefined, result %s" % (first, val)
        return None
    if name in ("real_gt", "real_lt"):
        want = "i:%d" % int(xs[0] > xs[1] if name == "real_gt" else xs[0] < xs[1])
        return None if val == want else "returns %s, documented %s" % (val, want)
    r = ieee(name, xs)
    if r != r or r in (math.inf, -math.inf):
        return None if val == "v" else "IEEE result is %r, the primitive returns %s instead of undefined" % (r, val)
    if val == "v":
        return "IEEE result %r (%016x) is finite, the primitive returns undefined" % (r, f2b(r))
    got = b2f(int(val[2:], 16))
    if name in LIBM:
        return None if ulps(got, r) <= 4 else "returns %r, libm reference %r" % (got, r)
    if name == "real_max" and r == 0.0 and got == 0.0:
        return None                       # ISO C leaves the sign of fmax(+0,-0) open
    if name == "real_aq":
        return None if f2b(got) == f2b(r) else "returns %016x, IEEE x/sqrt(1+y*y) = %016x" % (f2b(got), f2b(r))
    return None if f2b(got) == f2b(r) else "returns %016x, IEEE result of the operation is %016x" % (f2b(got), f2b(r))


# ---------------------------------------------------------------- generators
def gen_cases(ck, idents):
    rnd = ck.rng
    full = ck.thorough
    B = boundary_bits(full)
    Bv = B + [None]
    cases = []

    def add(name, args, par=None):
        if name in idents:
            cases.append((name, par, list(args)))

    nonfin = [INF, INF | SIGN, NAN]
    for n in UN:
        for x in Bv + nonfin:
            add(n, [tok(x)])
    for n in BIN:
        for x in Bv:
            for y in Bv:
                add(n, [tok(x), tok(y)])
        for x in nonfin:
            for y in (0, ONE, INF, NAN, None, DBL_MAX | SIGN):
                add(n, [tok(x), tok(y)])
                add(n, [tok(y), tok(x)])
    for n in TERMS:
        for x in B + nonfin:
            add(n, [], par=x)
    # conditionals: guard operands at the tolerance boundary; branches of every shape
    branches = [("d:%016x" % f2b(5.0), "d:%016x" % f2b(9.0)), ("v", "d:%016x" % f2b(9.0)),
                ("d:%016x" % f2b(5.0), "v"), ("d:%016x" % DBL_MAX, "d:%016x" % (SIGN | 1)), ("v", "v")]
    tol = []
    bases = [0, SIGN, ONE, ONE | SIGN, f2b(2.0), f2b(0.5), f2b(1e6), pow2(-51), pow2(-50), pow2(-52), DBL_MIN, 1,
             f2b(4.0), f2b(3.0), DBL_MAX, DBL_MAX | SIGN]
    for b0 in bases:
        x = b2f(b0)
        for d in (0.0, 2.0 ** -51, 2.0 ** -52, 2.0 ** -53, 3 * 2.0 ** -53, 2.0 ** -50, b2f(TWO_EPS - 1), b2f(TWO_EPS + 1)):
            for s in (1, -1):
                y = x + s * d
                if y == y and abs(y) != math.inf:
                    tol.append((b0, f2b(y)))
                    for k in (-1, 1):
                        yb = f2b(y) + k
                        if finite_bits(yb) and (f2b(y) & ~SIGN) + k >= 0:
                            tol.append((b0, yb))
    small = [0, SIGN, 1, SIGN | 1, ONE, ONE | SIGN, DBL_MAX, DBL_MAX | SIGN, f2b(2.0), f2b(-2.0), None]
    pairs = set(tol) | {(a, b) for a in small for b in small} | {(b, a) for a, b in tol}
    for (a, b) in sorted(pairs, key=lambda p: (p[0] is None, p[0] or 0, p[1] is None, p[1] or 0)):
        for t, e in branches:
            add("real_ife", [tok(a), tok(b), t, e])
            add("real_ifl", [tok(a), tok(b), t, e])
    for x in Bv + nonfin:
        for t, e in branches:
            add("real_ifz", [tok(x), t, e])
    tri = [0, SIGN, 1, ONE, ONE + 1, ONE - 1, ONE | SIGN, f2b(2.0), f2b(3.0), DBL_MAX, DBL_MAX | SIGN, None]
    if full:
        tri += [SIGN | 1, f2b(2.5), f2b(-2.5), DBL_MIN, NAN, INF]
    for a in tri:
        for b in tri:
            for c in tri:
                for t, e in branches[:3]:
                    add("real_ifb", [tok(a), tok(b), tok(c), t, e])
    # strings
    strs = ["v", "s:", "s:61", "s:6162", "s:616263", "s:00", "s:ff00ff", "s:" + "7a" * 40, "s:" + "41" * 300]
    for s in strs:
        add("real_length", [s])
    others = strs[:5] + ["d:%016x" % ONE, "d:%016x" % 0, "d:%016x" % SIGN, "i:1", "i:0"]
    for a in others:
        for b in others:
            for t, e in branches[:3] + [("s:79", "s:6e")]:
                add("string_ife", [a, b, t, e])
    # out of contract (ties the model's treatment of wrong alternatives: bad_variant_access)
    add("real_add", ["i:1", "d:%016x" % ONE])
    add("real_add", ["d:%016x" % ONE, "s:61"])
    add("real_length", ["d:%016x" % ONE])
    add("real_ifz", ["i:0", "v", "v"])

    # ---- operand pairs within 1-2 ulps of the guard thresholds the proofs split on ----
    def around(b, k=2):
        out = []
        for d in range(-k, k + 1):
            m = (b & ~SIGN) + d
            if m >= 0 and finite_bits(m):
                out.append((b & SIGN) | m)
        return out

    def both_signs(pairs):
        out = []
        for a, b in pairs:
            out += [(a, b), (a ^ SIGN, b ^ SIGN), (a ^ SIGN, b), (a, b ^ SIGN)]
        return out

    thr = {n: [] for n in BIN + UN}
    half_ulp_max = pow2(970)                     # DBL_MAX + 2^970 is the first sum that rounds to infinity
    for y in around(half_ulp_max) + around(pow2(971)) + around(pow2(969)):
        for x in around(DBL_MAX):
            thr["real_add"].append((x, y))
            thr["real_sub"].append((x, y ^ SIGN))
    for y in around(pow2(1023), 3):
        for x in around(pow2(1023), 3):
            thr["real_add"].append((x, y))
            thr["real_sub"].append((x, y ^ SIGN))
    # products at 2^1024: 2^512 * 2^512, sqrt(DBL_MAX)^2, DBL_MAX * (1 +- ulps), 2^1023 * (2 -+ ulps)
    for x in around(pow2(512), 3) + around(0x5FEFFFFFFFFFFFFF, 3):
        for y in around(pow2(512), 3) + around(0x5FEFFFFFFFFFFFFF, 3):
            thr["real_mul"].append((x, y))
            thr["real_aq"].append((f2b(1.0), y))
            thr["real_aq"].append((DBL_MAX, y))
    for x in around(DBL_MAX, 3) + around(pow2(1023), 3):
        for y in around(ONE, 3) + around(f2b(2.0), 3):
            thr["real_mul"].append((x, y))
            thr["real_div"].append((x, y))               # DBL_MAX / (1 - ulp) overflows, / (1 + ulp) does not
            thr["real_idiv"].append((x, y))
        for y in around(f2b(0.5), 3) + [1, 2, DBL_MIN, DBL_MIN - 1]:
            thr["real_div"].append((x, y))
            thr["real_idiv"].append((x, y))
    for x in (0, SIGN, 1, ONE, DBL_MAX):
        for y in (0, SIGN):
            thr["real_div"].append((x, y))
            thr["real_idiv"].append((x, y))
            thr["real_mod"].append((x, y))
    # smallest quotients / products: the results are denormal or zero, never undefined
    for x in around(DBL_MIN, 2) + [1, 2]:
        for y in around(f2b(2.0), 1) + around(DBL_MAX, 1) + around(ONE, 1):
            thr["real_div"].append((x, y))
        for y in around(f2b(0.5), 1) + around(DBL_MIN, 1) + [1]:
            thr["real_mul"].append((x, y))
    # idiv: quotients within an ulp of an integer (floor jumps), of 2^53 and of +-0
    for n_ in (1.0, 2.0, 3.0, 7.0, 1e15, 2.0 ** 52, 2.0 ** 53, 1e22):
        for x in around(f2b(n_), 2):
            thr["real_idiv"].append((x, ONE))
            thr["real_idiv"].append((x, ONE | SIGN))
    for a_, b_ in ((0.3, 0.1), (0.6, 0.2), (0.7, 0.1), (1.0, 0.1), (4.35, 0.01), (1.1, 1.1), (9.0, 3.0), (1e-300, 1e-300)):
        for x in around(f2b(a_), 2):
            for y in around(f2b(b_), 2):
                thr["real_idiv"].append((x, y))
                thr["real_mod"].append((x, y))
    for x in (1, SIGN | 1, DBL_MIN, SIGN | DBL_MIN):
        for y in (ONE, ONE | SIGN, DBL_MAX, DBL_MAX | SIGN):
            thr["real_idiv"].append((x, y))              # floor of a tiny negative quotient is -1, of a tiny positive +0
    # fmod: huge ratio x/y (long exact division), ratio next to 1, exact multiples
    bigs = [DBL_MAX, DBL_MAX - 1, pow2(1023), f2b(1e308), f2b(1e300), f2b(2.0 ** 600 * 3)]
    smalls = [1, 2, 3, DBL_MIN, DBL_MIN + 1, f2b(3.0), f2b(math.pi), f2b(0.1), f2b(1e-300), f2b(7.0), 0x000FFFFFFFFFFFFF]
    for x in bigs:
        for y in smalls:
            thr["real_mod"].append((x, y))
    for y in smalls + bigs + [ONE, f2b(0.5)]:
        for x in around(y, 2):
            thr["real_mod"].append((x, y))
        for k_ in (2.0, 3.0, 1024.0):
            z = b2f(y) * k_
            if z == z and abs(z) != math.inf:
                for x in around(f2b(z), 1):
                    thr["real_mod"].append((x, y))
    for n in BIN:
        seen = set()
        for a, b in both_signs(thr[n]):
            if (a, b) not in seen:
                seen.add((a, b))
                add(n, [tok(a), tok(b)])
    # unary thresholds: sqrt of -denormal / -0 / +denormal, ln at 0 and 1, exp overflow/underflow of sigmoid,
    # multiples of pi/2 for sin and cos
    un_thr = around(0, 2) + around(SIGN, 2) + around(ONE, 3) + around(DBL_MAX, 2) + around(DBL_MIN, 2)
    for v_ in (709.0, 709.782712893384, 710.0, 745.0, 745.1332191019412, 746.0, 36.0, 36.7368005696771, 37.0, 38.0,
               math.pi / 2, math.pi, 3 * math.pi / 2, 2 * math.pi, 1e22, 2.0 ** 53 * math.pi):
        un_thr += around(f2b(v_), 2)
    for n in UN:
        for x in un_thr:
            add(n, [tok(x)])
            add(n, [tok(x ^ SIGN)])

    # random streams
    def rbits():
        r = rnd.random()
        if r < 0.45:
            while True:
                b = rnd.getrandbits(64)
                if finite_bits(b):
                    return b
        if r < 0.55:
            return rnd.choice(B)
        if r < 0.70:
            b = rnd.choice(B)
            m = (b & ~SIGN) + rnd.randint(-4, 4)
            if m < 0 or not finite_bits(m):
                m = b & ~SIGN
            return (b & SIGN) | m
        if r < 0.85:
            return f2b(rnd.uniform(-1000.0, 1000.0))
        if r < 0.93:
            return f2b(float(rnd.randint(-50, 50)) / rnd.choice([1, 2, 4, 3]))
        if r < 0.97:
            return None
        return (rnd.getrandbits(1) << 63) | (rnd.randint(0, 2046) << 52) | rnd.getrandbits(52)

    def rnear(b):
        """a double whose distance from b straddles the 2^-51 tolerance"""
        if b is None:
            return rbits()
        x = b2f(b)
        y = x + rnd.choice([1, -1]) * b2f(TWO_EPS + rnd.randint(-3, 3)) * rnd.choice([1.0, 1.0, 0.5, 2.0])
        if y != y or abs(y) == math.inf:
            return b
        yb = f2b(y)
        m = (yb & ~SIGN) + rnd.randint(-2, 2)
        if m < 0 or not finite_bits(m):
            return yb
        return (yb & SIGN) | m

    nrand = 400000 if full else 30000
    names = [n for n in UN + BIN + ["real_ife", "real_ifl", "real_ifz", "real_ifb"] if n in idents]
    for _ in range(nrand):
        n = rnd.choice(names)
        k = ARITY[n]
        if n in ("real_ife", "real_ifl"):
            a = rbits()
            if rnd.random() < 0.3:
                a = f2b(rnd.uniform(-4.0, 4.0))
            b = rnear(a) if rnd.random() < 0.7 else rbits()
            t, e = rnd.choice(branches)
            add(n, [tok(a), tok(b), t, e])
        elif n == "real_ifz":
            a = rbits()
            if rnd.random() < 0.6:
                a = (rnd.getrandbits(1) << 63) | max(0, TWO_EPS + rnd.randint(-40, 40))
            t, e = rnd.choice(branches)
            add(n, [tok(a), t, e])
        elif n == "real_ifb":
            a, b, c = rbits(), rbits(), rbits()
            if rnd.random() < 0.5:
                a = rnd.choice([b, c])
                if a is not None and rnd.random() < 0.5:
                    m = (a & ~SIGN) + rnd.randint(-1, 1)
                    if m >= 0 and finite_bits(m):
                        a = (a & SIGN) | m
            t, e = rnd.choice(branches[:3])
            add(n, [tok(a), tok(b), tok(c), t, e])
        elif n == "real_mod":
            a, b = rbits(), rbits()
            if rnd.random() < 0.5 and a is not None and b is not None:
                # keep the exponents close: a small quotient (the long-division path is covered by the products)
                eb = (a >> 52) & 0x7FF
                b = (b & ~(0x7FF << 52)) | (max(0, min(2046, eb + rnd.randint(-60, 3))) << 52)
            add(n, [tok(a), tok(b)])
        else:
            add(n, [tok(rbits()) for _ in range(k)])
    for _ in range(nrand // 20):
        add(rnd.choice(TERMS), [], par=rbits() or 0)
    return cases



# ---------------------------------------------------------------- programs
C13_TABLE = ["real_real", "real_integer", "real_abs", "real_add", "real_aq", "real_cos", "real_div", "real_gt",
             "real_idiv", "real_ifb", "real_ife", "real_ifl", "real_ifz", "real_length", "real_ln", "real_lt",
             "real_max", "real_mod", "real_mul", "real_sin", "real_sqrt", "real_sub", "real_sigmoid", "string_ife"]
KREAL, KINT, KSTR = 0, 1, 2          # the categories used by the generated programs


def gen_example(rnd, B):
    """input variables: 0-3 real, 4 int, 5-6 string; each possibly undefined"""
    def rv():
        r = rnd.random()
        if r < 0.12:
            return "v"
        if r < 0.45:
            return tok(rnd.choice(B))
        if r < 0.8:
            return tok(f2b(rnd.uniform(-10.0, 10.0)))
        while True:
            b = rnd.getrandbits(64)
            if finite_bits(b):
                return tok(b)
    ex = [rv() for _ in range(4)]
    ex.append(rnd.choice(["i:0", "i:1", "v", "i:7"]))
    ex.append(rnd.choice(["s:", "s:61", "s:6162", "v"]))
    ex.append(rnd.choice(["s:61", "s:616263", "s:" + "7a" * 20]))
    return ex


VAR_CAT = [KREAL, KREAL, KREAL, KREAL, KINT, KSTR, KSTR]


def gen_tree(rnd, cat, depth, B):
    """a well-typed program of the given root category:
    ('P', ident, cvect, cat, argcats, param, kids) | ('V', index, cat)"""
    def var():
        return ("V", rnd.choice([i for i, c in enumerate(VAR_CAT) if c == cat]), cat)
    if depth <= 0 or rnd.random() < 0.12:
        if cat == KREAL and rnd.random() < 0.5:
            r = rnd.random()
            b = rnd.choice(B) if r < 0.5 else f2b(rnd.uniform(-100.0, 100.0))
            return ("P", rnd.choice(["real_real", "real_integer"]), [KREAL], KREAL, [], b, [])
        return var()
    def P(ident, cvect, argcats):
        return ("P", ident, cvect, cat, argcats, None, [gen_tree(rnd, c, depth - 1, B) for c in argcats])
    r = rnd.random()
    if r < 0.30:                                       # conditionals returning this category
        ident = rnd.choice(["real_ife", "real_ifl", "real_ifb", "string_ife"] + (["real_ifz"] if cat == KREAL else []))
        if ident == "real_ifz":
            return P(ident, [KREAL], [KREAL, KREAL, KREAL])
        if ident == "string_ife":
            k = rnd.choice([KREAL, KINT, KSTR])
            return P(ident, [k, cat], [k, k, cat, cat])
        n = 3 if ident == "real_ifb" else 2
        return P(ident, [KREAL, cat], [KREAL] * n + [cat, cat])
    if cat == KREAL:
        if r < 0.36:
            return P("real_length", [KSTR, KREAL], [KSTR])
        if r < 0.62:
            return P(rnd.choice(UN), [KREAL], [KREAL])
        return P(rnd.choice(["real_add", "real_sub", "real_mul", "real_div", "real_idiv", "real_mod", "real_aq",
                             "real_max"]), [KREAL], [KREAL, KREAL])
    if cat == KINT:
        return P(rnd.choice(["real_gt", "real_lt"]), [KREAL, KINT], [KREAL, KREAL])
    return var()


def tree_tokens(t, idx):
    """(harness tokens, model tokens) in prefix order"""
    if t[0] == "V":
        w = "V:%d:%d" % (t[1], t[2])
        return [w], [w]
    _, ident, cvect, cat, argcats, par, kids = t
    ac = ",".join(map(str, argcats)) or "-"
    pp = "-" if par is None else "%016x" % par
    h = ["P:%s:%s:%d:%s:%s" % (ident, ",".join(map(str, cvect)), cat, ac, pp)]
    m = ["P:%d:%d:%d:%s:%s" % (idx[ident], C13_TABLE.index(ident), cat, ac, pp)]
    for k in kids:
        hk, mk = tree_tokens(k, idx)
        h += hk
        m += mk
    return h, m


def tree_size(t):
    return 1 if t[0] == "V" else 1 + sum(tree_size(k) for k in t[6])


def subtrees(t):
    yield t
    if t[0] == "P":
        for k in t[6]:
            yield from subtrees(k)


def tree_text(t):
    if t[0] == "V":
        return "X%d" % t[1]
    if not t[6]:
        return "%s(%016x)" % (t[1], t[5])
    return "%s(%s)" % (t[1], ", ".join(tree_text(k) for k in t[6]))


def tree_lines(example, t, idx):
    h, m = tree_tokens(t, idx)
    pre = "TREE %d %s " % (len(example), " ".join(example))
    return pre + " ".join(h), pre + " ".join(m)


def tree_oracle(out):
    """a program over finite-or-undefined inputs and finite constants, rooted in the real category, yields a
    finite number or the undefined value"""
    w = (out or "CRASH").split()
    if w[0] == "v":
        return None
    if w[0].startswith("d:") and finite_bits(int(w[0][2:], 16)):
        return None
    return "the program yields %s" % (out,)

# ---------------------------------------------------------------- H_libm, measured
def libm_samples(ck):
    """finite doubles for the measured check of the Section hypotheses: every boundary value, 1-2 ulp
    neighbourhoods of the multiples of pi/2 (small and huge), of the exp thresholds, dense negative exponents,
    seeded random finite patterns"""
    rnd = ck.rng
    xs = set(boundary_bits(True))
    for k in range(0, 64):
        for q in (math.pi / 2, math.pi, 2 * math.pi):
            b = f2b(q * (2.0 ** k))
            for d in (-2, -1, 0, 1, 2):
                xs.add(b + d)
                xs.add((b + d) | SIGN)
    for k in range(-1074, 1024, 7):
        xs.add(pow2(k))
        xs.add(pow2(k) | SIGN)
    v = 0.0
    while v < 760.0:
        xs.add(f2b(-v))
        xs.add(f2b(v))
        v += 0.37
    for v_ in (708.3964185322641, 709.782712893384, 745.1332191019412, 1e-320, 5e-324):
        for d in (-2, -1, 0, 1, 2):
            m = f2b(v_) + d
            if m >= 0:
                xs.add(m)
                xs.add(m | SIGN)
    n = 200000 if ck.thorough else 6000
    for _ in range(n):
        b = rnd.getrandbits(64)
        if finite_bits(b):
            xs.add(b)
        xs.add(f2b(-rnd.uniform(0.0, 800.0)))
        xs.add(f2b(rnd.uniform(-1e6, 1e6)))
    return sorted(x for x in xs if finite_bits(x))


def check_libm(ck, harness, model):
    """measures, on the C library the implementation is linked with, the facts the theorems assume (sincos_finite,
    exp_unit) and that the OCaml oracle of the model driver is the same function bit for bit"""
    xs = libm_samples(ck)
    lines = []
    for fn in ("sin", "cos", "exp", "log"):
        for x in xs:
            lines.append("LIBM %s %016x" % (fn, x))
    hout, _ = pc.run_harness_resilient(harness, lines)
    rc, mout, merr = vv.run_lines(model, "\n".join(lines) + "\n")
    if rc != 0 or len(mout) != len(lines):
        raise vv.BuildError("model driver failed on LIBM lines: rc=%s %s" % (rc, merr[:300]))
    stats = {"samples_per_function": len(xs), "sin_cos_finite": 0, "exp_in_unit_interval": 0, "oracle_equal": 0}
    bad = {}
    for k, l in enumerate(lines):
        _, fn, hx = l.split()
        x = int(hx, 16)
        ho = hout[k]
        if ho is None or len(ho) != 16:
            bad.setdefault("libm:" + fn, "std::%s(%s) -> %r" % (fn, hx, ho))
            continue
        r = int(ho, 16)
        if fn in ("sin", "cos"):
            if finite_bits(r):
                stats["sin_cos_finite"] += 1
            else:
                bad.setdefault("sincos_finite", "std::%s(%s) = %s is not finite" % (fn, hx, ho))
        if fn == "exp" and b2f(x) <= 0.0:
            if finite_bits(r) and 0.0 <= b2f(r) <= 1.0:
                stats["exp_in_unit_interval"] += 1
            else:
                bad.setdefault("exp_unit", "std::exp(%s) = %s is outside [0,1] for an argument <= 0" % (hx, ho))
        if ho == mout[k]:
            stats["oracle_equal"] += 1
        else:
            ck.add_diff({"libm": fn, "x": hx}, mout[k], ho, what="the OCaml oracle of the model driver and the C "
                        "library of the implementation disagree on %s(%s)" % (fn, hx))
    for name, msg in bad.items():
        ck.add_unshown("hypothesis", name, "Section hypothesis %s of coq/Prims/RealProofs.v does not hold of the C "
                       "library in use: %s" % (name, msg))
    ck.count(len(lines))
    ck.coverage["libm_hypotheses_measured"] = stats


def case_lines(cases, idx):
    hl, ml = [], []
    for n, par, a in cases:
        p = "-" if par is None else "%016x" % par
        hl.append("%s %s %d %s" % (n, p, len(a), " ".join(a)))
        ml.append("%d %s %d %s" % (idx[n], p, len(a), " ".join(a)))
    return hl, ml


def run(ck):
    L = vv.build_lib("asan")
    idents, problems, regenerated = pc.regen_prims(L["snap"])
    ck.tie = "regenerated+correspondence" if regenerated else "correspondence"
    if problems:
        ck.notes.append("translator: " + "; ".join(problems)[:500] +
                        " -- Gen/Prims.v kept as hand-written model, tie = correspondence only")
    res = vv.prove("Properties_C13", vv.FLOCQ_AXIOMS)
    ck.add_proof(res)
    ck.trusted += ["translate/cxx_mini.py (C++ subset -> CxxMini AST; the helpers issmall<double> of utility.h, has_value of "
                   "value.h and real::base are parsed and inlined at their call sites, not assumed)",
                   "coq/Cxx/CxxMini.v as the semantics of that subset; coq/Base/F64.v (Flocq BinarySingleNaN, "
                   "fmod/fmin/fmax/floor defined there) as the semantics of binary64 and of the libm-adjacent calls",
                   "extraction: ExtrOcamlBasic only, no Extract Constant; ocaml/prims_driver.ml + zutil.ml "
                   "(log exp sin cos realised by OCaml's Stdlib = the glibc the harness links)",
                   "harness/h_prims.cc canonical printing; g++ 12 UBSan/ASan"]
    ck.assumptions += [
        "H_libm (Section hypotheses of coq/Prims/RealProofs.v, record CxxMini.libm): sincos_finite = sin and cos map "
        "finite doubles to finite doubles; exp_unit = exp maps a finite x <= 0 to a non-NaN double in [0,1]; log "
        "returns some double (its result is guarded by isfinite in the code). Both are MEASURED on every run on the "
        "C library the harness links (LIBM lines: boundary values, 1-2 ulp neighbourhoods of k*pi/2 up to 2^63*pi, "
        "exp thresholds, dense negatives, random patterns; coverage.libm_hypotheses_measured) and the OCaml oracle "
        "of the model driver is compared with it bit for bit",
        "strings are shorter than 2^64 bytes (size_t) in real::length",
    ]

    harness = vv.build_harness("h_prims")
    model = vv.ocaml_model("Prims")

    if ck.replay_path:
        rp = json.load(open(ck.replay_path))
        cs = rp.get("cases") or [rp]
        cases = [(c["prim"], (int(c["param"], 16) if c.get("param") else None), c["args"]) for c in cs if "prim" in c]
    else:
        cases = gen_cases(ck, set(idents))
    idx = {n: i for i, n in enumerate(idents)}
    if not ck.replay_path:
        check_libm(ck, harness, model)
    hl, ml = case_lines(cases, idx)
    hout, crashes, mout = [], {}, []
    if cases:
        hout, crashes = pc.run_harness_resilient(harness, hl)
        rc, mout, merr = vv.run_lines(model, "\n".join(ml) + "\n")
        if rc != 0 or len(mout) != len(cases):
            raise vv.BuildError("model driver failed: rc=%s %s" % (rc, merr[:500]))

    bset = set(b & ~SIGN for b in boundary_bits(True))
    hist = {}
    guard_hits = 0
    for k, (n, par, a) in enumerate(cases):
        ck.count()
        hist[n] = hist.get(n, 0) + 1
        ho, mo = hout[k], mout[k]
        contract = in_contract(n, a, par)
        dbl = [int(t[2:], 16) for t in a if t.startswith("d:")] + ([par] if par is not None else [])
        if contract and (any(near_boundary(b, bset) for b in dbl) or "v" in a or (ho or "").startswith("v")):
            ck.nontriv((n, par, tuple(a)))
        if contract and (ho or "").startswith("v") and "v" not in a:
            guard_hits += 1
        rep = {"prim": n, "param": (None if par is None else "%016x" % par), "args": a, "impl": ho, "model": mo}
        if k < 2 or (k % (len(cases) // 4 + 1) == 0) or ck.replay_path:
            ck.sample(rep)
        if ho is None or ho.startswith("CRASH"):
            ck.add_violation("%s:sanitizer" % n, "%s(%s) aborts under ASan/UBSan" % (n, " ".join(a)),
                             dict(rep, sanitizer=crashes.get(k, "")[-1500:]))
            continue
        if contract:
            bad = oracle(n, a, par, ho)
            if bad:
                ck.add_violation("%s:%s" % (n, "not-closed" if "neither" in bad or "no value" in bad else "wrong-result"),
                                 "%s(%s)%s: %s" % (n, " ".join(a), "" if par is None else " param=%016x" % par, bad),
                                 dict(rep, oracle=bad))
        if ho != mo:
            ck.add_diff({"prim": n, "param": rep["param"], "args": a}, mo, ho)
    # ---- programs: random well-typed expression trees run by the real interpreter (vita::run) ----
    def jt(t):
        return list(t[:6]) + [[jt(k) for k in t[6]]] if t[0] == "P" else list(t)

    def tj(j):
        return tuple(j[:6]) + ([tj(k) for k in j[6]],) if j[0] == "P" else tuple(j)

    if ck.replay_path:
        progs = [(c["example"], tj(c["tree"])) for c in cs if "tree" in c]
    else:
        B = boundary_bits(False)
        ntrees = 60000 if ck.thorough else 4000
        progs = []
        for _ in range(ntrees):
            progs.append((gen_example(ck.rng, B), gen_tree(ck.rng, KREAL, ck.rng.randint(1, 5), B)))
    if progs:
        tl = [tree_lines(ex, t, idx) for ex, t in progs]
        thout, tcr = pc.run_harness_resilient(harness, [h for h, _ in tl])
        rc, tmout, merr = vv.run_lines(model, "\n".join(m for _, m in tl) + "\n")
        if rc != 0 or len(tmout) != len(progs):
            raise vv.BuildError("model driver failed on programs: rc=%s %s" % (rc, merr[:500]))
        sizes = {}
        for k, (ex, t) in enumerate(progs):
            ck.count()
            n = tree_size(t)
            sizes[min(n, 40) // 5 * 5] = sizes.get(min(n, 40) // 5 * 5, 0) + 1
            ho, mo = thout[k], tmout[k]
            if n >= 3:
                ck.nontriv(("tree", " ".join(ex), tree_text(t)))
            if k < 2 or ck.replay_path:
                ck.sample({"program": tree_text(t), "example": ex, "impl": ho, "model": mo})
            bad = tree_oracle(ho)
            if bad or ho is None or ho.startswith("CRASH"):
                # shrink: the smallest real-rooted subtree that still violates
                subs = sorted((u for u in subtrees(t) if (u[2] if u[0] == "V" else u[3]) == KREAL), key=tree_size)
                sl = [tree_lines(ex, u, idx)[0] for u in subs]
                so, _ = pc.run_harness_resilient(harness, sl)
                best, bo = t, ho
                for u, o in zip(subs, so):
                    if tree_oracle(o):
                        best, bo = u, o
                        break
                root = best[1] if best[0] == "P" else "variable"
                ck.add_violation("program:%s:not-closed" % root,
                                 "program %s on inputs [%s]: %s" % (tree_text(best), " ".join(ex), tree_oracle(bo)),
                                 {"tree": jt(best), "example": ex, "program": tree_text(best), "impl": bo,
                                  "model": mo if best is t else None, "found_in": tree_text(t),
                                  "sanitizer": tcr.get(k, "")[-1500:]})
                continue
            if mo != ho + " wt":
                ck.add_diff({"tree": jt(t), "example": ex, "program": tree_text(t)}, mo, ho,
                            what="program: model and implementation differ (or the model's typing check sig_okb "
                                 "rejects a program the real constructors accept)")
        ck.coverage["programs"] = len(progs)
        ck.coverage["program_sizes"] = {"%d-%d" % (b, b + 4): c for b, c in sorted(sizes.items())}
    ck.coverage["per_primitive"] = hist
    ck.coverage["boundary_values"] = len(boundary_bits(ck.thorough))
    ck.coverage["guard_hits_on_defined_arguments"] = guard_hits
    return ck.finish(
        rule="product of %d boundary doubles (+-0, +-denormal min, +-DBL_MIN, +-1 and neighbours, 2^-51 in 1-ulp steps, "
             "+-2^+-k, +-DBL_MAX, operands whose sum/product/square just overflows, libm thresholds) and the undefined "
             "value per argument of every unary/binary primitive; conditionals on operand pairs whose difference "
             "straddles 2^-51 by 1 ulp with every defined/undefined branch shape; operand pairs within 1-3 ulps of every "
             "guard threshold of the proofs (DBL_MAX + 2^970, 2^1023 + 2^1023, 2^512 * 2^512, sqrt(DBL_MAX)^2, "
             "DBL_MAX * or / (1 +- ulp), x / +-0, quotients next to an integer for idiv, fmod with ratio ~2^2097, ~1 and "
             "exact multiples, sqrt(-denormal), ln at 0 and 1, exp thresholds of sigmoid); strings; seeded random bit patterns; "
             "random well-typed expression trees (depth <= 5, categories real/int/string, boundary constants and inputs) "
             "run by vita::run on the real interpreter and by the extracted run_tree; "
             "non-trivial = in-contract case with an operand within 8 ulps of a boundary value or of a power of two, an "
             "undefined operand, or an undefined result, or a program with at least 3 nodes; distinct = distinct "
             "(primitive, operands) / (program, inputs)"
             % len(boundary_bits(ck.thorough)))
