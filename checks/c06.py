"""C06 -- Invariants of an evolutionary run.

proof:  coq/Props/Properties_C06.v about the event model coq/Evo/EvoDefs.v
        (selection / recombination / replacement / after_generation of the std,
        ALPS and DE strategies re-executed from the logged random draws) and the
        parameter-tuning model coq/Evo/TuneDefs.v.
tie:    correspondence.  harness/h_evo.cc drives the REAL strategy objects step
        by step (and whole evolution::run / search::run) under ASan/UBSan and
        prints draws (hook H1), parents, offspring and a dump of population and
        summary after every event; the extracted model (ocaml/evo_driver.ml) must
        accept every event and reach the same population and summary.
oracle: the boolean forms of the theorems (extracted from Coq) evaluated on
        the implementation's own dumps; is_valid() of every individual;
        environment::is_valid(true) after tune_parameters; sanitizer reports.
"""
import json
import os
import sys

import vv
import prims_common as pc

COMBOS = [("mep", "std"), ("mep", "alps"), ("team", "std"), ("team", "alps"), ("ga", "std"), ("ga", "alps"), ("de", "de"), ("de", "dealps")]
FIELDS = ["kind", "strat", "mode", "seed", "individuals", "min_individuals", "layers", "tournament", "mate_zone",
          "elitism", "age_gap", "p_same", "p_cross", "p_mutation", "brood", "generations", "cache", "eval",
          "evalmod", "shake_every", "max_stuck", "shake0", "reruns"]


def p3(x):
    x = float(x)
    return "0" if x == 0 else "1" if x == 1 else "m"


def case_line(c):
    return "run " + " ".join(str(c.get(f, 4294967295) if f == "max_stuck" else c.get(f, 0) if f in ("shake0", "reruns") else c[f]) for f in FIELDS)


def envm(c):
    return "ENVM %s %s %s %s %s %s %s %s %s %s %d" % (
        c["strat"], c["individuals"], c["min_individuals"], c["layers"], c["tournament"], c["mate_zone"],
        c["elitism"], c["age_gap"], p3(c["p_same"]), p3(c["p_cross"]), 1 if float(c["p_mutation"]) == 0 else 0)


def gen_config(rng, mode=None, combo=None, big=False):
    kind, strat = combo or rng.choice(COMBOS)
    alps = strat in ("alps", "dealps")
    ind = rng.choice([4, 4, 5, 6, 7, 8, 8, 10, 12, 16, 16, 24, 32] + ([48, 64] if big else []))
    layers = rng.choice([1, 2, 3, 4, 5, 6]) if alps else rng.choice([1, 1, 3])
    mate = rng.choice([None, None, 20, 4294967295, ind, ind - 1, max(2, ind // 2), 3, 2])
    if mate is None:
        mate = rng.randint(2, ind + 4)
    tour = rng.randint(1, min(ind, mate, 8))
    if rng.random() < 0.15:
        tour = min(ind, mate)
    mode = mode or rng.choice(["step"] * 6 + ["whole"] * 2 + ["search"])
    total = ind * (layers if alps else 1)
    budget = 130000 if big else 40000
    gens = max(1, min(rng.choice([1, 2, 3, 4, 6, 8, 12]), budget // (total * total)))
    c = {
        "kind": kind, "strat": strat, "mode": mode, "seed": rng.randint(1, 10 ** 6),
        "individuals": ind, "min_individuals": rng.choice([2, 2, 3, max(2, ind // 2), ind]), "layers": layers,
        "tournament": tour, "mate_zone": mate, "elitism": rng.choice([0, 1, 1]),
        "age_gap": rng.choice([1, 1, 2, 2, 3, 4, 7, 20]), "p_same": rng.choice([0, 0.5, 0.75, 1]),
        "p_cross": rng.choice([0.3, 0.9, 1] if kind == "de" else [0, 0.3, 0.9, 1]),
        "p_mutation": rng.choice([0, 0.04, 0.5, 1]), "brood": rng.choice([1, 1, 2, 3, 4]),
        "generations": gens, "cache": rng.choice([0, 1]), "eval": rng.choice(["h", "h", "v", "r", "n"]),
        "evalmod": rng.choice([1, 2, 3, 7, 1000]), "shake_every": rng.choice([0, 0, 0, 2, 3]),
        "max_stuck": rng.choice([4294967295, 4294967295, 0, 1, 2, 3]),
        "shake0": rng.choice([0, 0, 1]),
        "reruns": rng.choice([0, 0, 1, 2]) if mode == "whole" else 0,
    }
    if mode == "search":
        # search::run tunes the environment itself and runs twice; keep it small
        c["generations"] = min(c["generations"], 3)
    return c


def gen_cases(ck):
    rng = ck.rng
    cases = []
    # every strategy x individual kind in every mode, boundary shapes first
    for combo in COMBOS:
        for mode in ("step", "whole"):
            cases.append(gen_config(rng, mode, combo))
        c = gen_config(rng, "step", combo)
        c.update(individuals=4, min_individuals=2, tournament=4, mate_zone=4, generations=4, evalmod=2)
        cases.append(c)          # tiny population, tournament == population == mating zone, many ties
        c = gen_config(rng, "step", combo)
        c.update(elitism=0, evalmod=3, p_cross=0.3 if combo[0] == "de" else 0, p_mutation=0.5)
        cases.append(c)          # no elitism, no crossover
        c = gen_config(rng, "step", combo)
        c.update(individuals=9, tournament=3, mate_zone=3, eval="h", evalmod=1)
        cases.append(c)          # all fitness values equal
    for mode in ("search",):
        for combo in COMBOS:
            cases.append(gen_config(rng, mode, combo))
    # user-supplied shake functions that change what the evaluator measures: firing at generation 0,
    # at generation 1 only, periodically -- whole evolution::run, best-so-far checked after every event
    for combo in COMBOS:
        for shake0, every in ((1, 0), (1, 2), (0, 1), (0, 3)):
            for ev in ("r", "h"):
                c = gen_config(rng, "whole", combo)
                c.update(shake0=shake0, shake_every=every, eval=ev, evalmod=1000, generations=max(2, c["generations"]),
                         max_stuck=4294967295)
                cases.append(c)
    # histories of runs: evolution::run called again on the SAME object (a converged population: few
    # fitness values, so that the later run does not improve at once); every run starts from a clean summary
    for combo in COMBOS:
        for _ in range(2):
            c = gen_config(rng, "whole", combo)
            c.update(reruns=2, evalmod=rng.choice([2, 3]), eval="h", generations=max(3, c["generations"]),
                     shake_every=0, shake0=0, max_stuck=4294967295)
            cases.append(c)
    # nearly equal, distinct fitness values (relative distance 1e-11) with elitism and a tournament of one:
    # the individual replaced is the one selected, so a tolerance in the elitist test lowers the maximum
    for combo in [cb for cb in COMBOS if cb[1] in ("std", "de")]:
        for _ in range(4 if ck.thorough else 2):
            c = gen_config(rng, "step", combo)
            c.update(eval="n", evalmod=1000, elitism=1, tournament=1, individuals=rng.choice([4, 5, 6]),
                     min_individuals=2, generations=8, shake_every=0, shake0=0, max_stuck=4294967295)
            cases.append(c)
    # ALPS selections from populations with UNEQUAL layer sizes (converged layers halved by set_allowed)
    for combo in [cb for cb in COMBOS if cb[1] in ("alps", "dealps")]:
        for _ in range(6 if ck.thorough else 3):
            c = gen_config(rng, "sel", combo)
            c.update(layers=rng.choice([2, 3, 4, 6]), individuals=rng.choice([6, 9, 16, 24]),
                     p_same=rng.choice([0, 0.25, 0.5, 0.75]), generations=rng.choice([2, 4]))
            c.update(min_individuals=rng.choice([1, 2, 2, 3]), tournament=rng.randint(1, 4), mate_zone=20,
                     age_gap=rng.choice([1, 2, 5]))
            cases.append(c)
    n = 6000 if ck.thorough else 170
    for i in range(n):
        cases.append(gen_config(rng, big=(i % 12 == 0)))
    if ck.thorough:
        for combo in COMBOS:
            for ind, gens in ((64, 3), (48, 6), (33, 10)):
                c = gen_config(rng, "step", combo, big=True)
                c.update(individuals=ind, generations=gens, tournament=min(c["tournament"], ind))
                if combo[1] in ("alps", "dealps"):
                    c.update(layers=min(c["layers"], 3), age_gap=2)
                cases.append(c)      # large populations, long histories
    return cases


def classify(model_line):
    """-> (ok, counters dict, findings [(kind, k, what)])"""
    ok = model_line.startswith("OK ")
    head, _, tail = model_line.partition(" | ")
    cnt = {}
    for t in head.split()[1:]:
        if "=" in t:
            a, b = t.split("=")
            cnt[a] = int(b)
    fs = []
    for t in tail.split():
        parts = t.split(":", 2)
        if len(parts) == 3:
            fs.append((parts[0], int(parts[1]), parts[2]))
    return ok, cnt, fs


def run_cases(harness, model, cases):
    if not cases:
        return [], {}, []
    lines = [case_line(c) for c in cases]
    hout, crashes = pc.run_harness_resilient(harness, lines, timeout=1500)
    ml = []
    for c, h in zip(cases, hout):
        ml.append(envm(c) + " " + (h if h and not h.startswith("CRASH") else "INIT EXC crash END"))
    rc, mout, merr = vv.run_lines(model, "\n".join(ml) + "\n")
    if rc != 0 or len(mout) != len(cases):
        raise vv.BuildError("model driver failed: rc=%s %s" % (rc, merr[:500]))
    return hout, crashes, mout


def shrink(harness, model, c, key_of):
    """smaller configuration with the same oracle failure"""
    best = dict(c)
    want = key_of(best)
    for field, cands in (("generations", [1, 2, 3]), ("individuals", [4, 5, 6, 8]), ("layers", [1, 2, 3]),
                         ("brood", [1]), ("shake_every", [0])):
        for v in cands:
            if v >= best[field] and field != "shake_every":
                continue
            t = dict(best)
            t[field] = v
            t["tournament"] = min(t["tournament"], t["individuals"])
            t["min_individuals"] = min(t["min_individuals"], t["individuals"])
            try:
                hout, crashes, mout = run_cases(harness, model, [t])
            except Exception:
                continue
            if want in keys_of(t, hout[0], mout[0]):
                best = t
                break
    return best


def keys_of(c, h, m):
    ks = set()
    if h is None or h.startswith("CRASH"):
        ks.add("sanitizer:%s" % c["strat"])
        return ks
    ok, cnt, fs = classify(m)
    for kind, k, what in fs:
        if kind == "X":
            ks.add("%s:%s" % (what, c["strat"]))
    return ks



# ------------------------------------------------------------------ tuning
TUNE_SHAPES = [("search", "std"), ("search", "alps"), ("ga", "std"), ("de", "de"), ("src", "std"), ("src", "alps")]
TF = ["code", "patch", "elitism", "p_mutation", "p_cross", "brood", "layers", "individuals", "min_individuals",
      "tournament", "mate_zone", "generations", "max_stuck_time", "dss", "validation"]


def gen_tune(rng, shape=None, blank=False):
    cls, strat = shape or rng.choice(TUNE_SHAPES)
    t = {"cls": cls, "strat": strat, "validator": rng.choice(["asis", "holdout", "dss"]) if cls == "src" else "asis",
         "rows": rng.choice([5, 8, 9, 20, 120, 1000]) if cls == "src" else 0}
    pick = (lambda xs: xs[0]) if blank else rng.choice
    t.update(code=pick([0, 0, 0, 2, 10, 100, 200]), patch=pick([0, 0, 0, 1, 5]), elitism=pick([-1, -1, 0, 1]),
             p_mutation=pick([-1, -1, 0, 0.04, 1]), p_cross=pick([-1, -1, 0, 0.5, 1]), brood=pick([0, 0, 1, 3]),
             layers=pick([0, 0, 0, 1, 3, 6, 20]), individuals=pick([0, 0, 0, 4, 8, 30, 100, 500]),
             min_individuals=pick([0, 0, 0, 2, 5, 40, 150]), tournament=pick([0, 0, 0, 1, 2, 5, 7, 40, 120]),
             mate_zone=pick([0, 0, 0, 3, 20, 100, 1000]), generations=pick([0, 0, 50]),
             max_stuck_time=pick([-1, -1, 10]), dss=pick([-1, -1, -1, 2]), validation=pick([-1, -1, -1, 30]))
    return t


def tune_line(t):
    return "tune %s %s %s %d %s" % (t["cls"], t["strat"], t["validator"], t["rows"], " ".join(str(t[f]) for f in TF))


def milli(x):
    return int(round(float(x) * 1000))


def bits_to_milli(h):
    import struct
    return int(round(struct.unpack(">d", bytes.fromhex(h))[0] * 1000))


def tune_model_line(t, hout, recon=0):
    """-> model input line, or None if the harness output is not a TUNED line"""
    w = hout.split()
    if len(w) < 24 or w[0] != "TUNED" or w[1] != "TERMS" or w[3] != "ENV" or w[-2] != "VALID":
        return None
    terms = w[2]
    f = w[4:-2]
    impl = [f[0], f[1], f[2], str(bits_to_milli(f[3])), str(bits_to_milli(f[4]))] + f[5:15] + \
           [f[15], str(bits_to_milli(f[16])), f[17]]
    user = [str(t["code"]), str(t["patch"]), str(t["elitism"]), str(milli(t["p_mutation"])), str(milli(t["p_cross"]))] + \
           [str(t[k]) for k in TF[5:]] + ["20", "750", "3"]
    return "TUNEM %s %s %s %d %s %d U %s I %s %s" % (t["cls"], t["strat"], t["validator"], t["rows"], terms, recon,
                                                    " ".join(user), " ".join(impl), w[-1])


def run_tune(ck, harness, model, tcases, recon=0):
    if not tcases:
        return
    lines = [tune_line(t) for t in tcases]
    hout, crashes = pc.run_harness_resilient(harness, lines, timeout=600)
    ml = []
    for t, h in zip(tcases, hout):
        m = tune_model_line(t, h, recon) if h and not h.startswith("CRASH") else None
        ml.append(m or "TUNEM bad")
    rc, mout, merr = vv.run_lines(model, "\n".join(ml) + "\n")
    if rc != 0 or len(mout) != len(tcases):
        raise vv.BuildError("model driver failed on tune cases: rc=%s %s" % (rc, merr[:500]))
    nconf = 0
    for i, (t, h, m) in enumerate(zip(tcases, hout, mout)):
        ck.count()
        ck.nontriv(tune_line(t))
        if h is None or h.startswith("CRASH"):
            ck.add_violation("sanitizer:tune", "sanitizer report / crash in tune_parameters for %s" % tune_line(t),
                             {"tune_case": t, "line": tune_line(t), "sanitizer": crashes.get(i, "")[-2500:]})
            continue
        if i < 2:
            ck.sample({"case": tune_line(t), "impl": h, "model": m})
        if m.startswith("OK"):
            continue
        ok, cnt, fs = classify(m)
        for kind, k, what in fs:
            if kind == "X":
                if what == "tune_valid_size_conflict":
                    nconf += 1
                ck.add_violation(what, "after tune_parameters (%s) the environment violates %s: %s"
                                 % (tune_line(t), what, h), {"tune_case": t, "line": tune_line(t), "impl": h, "oracle": what})
        others = [f for f in fs if f[0] != "X"]
        if others:
            ck.add_diff({"tune_case": t, "line": tune_line(t)}, m, h, what="tuning model differs: " + str(others[:3]))
    ck.coverage["tune_cases"] = len(tcases)
    ck.coverage["tune_size_conflicts_seen"] = nconf


def run(ck):
    L = vv.build_lib("asan")
    res = vv.prove("Properties_C06", set())
    ck.add_proof(res)
    ck.add_proof(vv.prove("Refuted_C06", set()))
    if ck.thorough:
        # independent re-check of the compiled proofs (kernel-only checker)
        with vv.Lock("coq"):
            rc, out = vv.sh(["coqchk", "-silent", "-o", "-Q", ".", "VV", "VV.Props.Properties_C06",
                             "VV.Props.Refuted_C06"], cwd=vv.COQ, timeout=900)
        ck.coverage["coqchk"] = "ok" if rc == 0 else "FAILED"
        if rc != 0:
            ck.add_unshown("proof", "coqchk", out[-800:])
    ck.trusted += ["extraction: ExtrOcamlBasic only, no Extract Constant; ocaml/evo_driver.ml + zutil.ml "
                   "(parsing of traces, fitness comparison = std::lexicographical_compare on doubles, search for the "
                   "statistics-based decisions of after_generation)",
                   "harness/h_evo.cc: reading the draw log of hook H1 in source order, canonical dumps; "
                   "g++ 12 ASan/UBSan as detector of executed UB"]
    ck.assumptions += [
        "Section hypothesis: fitness_t::operator< is a strict weak order (asymmetric, negatively transitive) -- "
        "discharged for the real type by C18 on NaN-free fitness vectors",
        "H_draws: random::between(lo,hi) returns lo <= r < hi, boolean(0)=false, boolean(1)=true (checked on every "
        "logged draw by the model's guards)",
        "the model is relational: decisions of after_generation that depend on floating-point statistics "
        "(almost_equal of means, issmall of deviations, mean age) are accepted either way (over-approximation)",
        "individuals are abstract (signature, age, fitness); their well-formedness is C02's theorem and is checked "
        "here by is_valid() on every dump",
    ]

    harness = vv.build_harness("h_evo")
    model = vv.ocaml_model("Evo")

    if ck.replay_path:
        rp = json.load(open(ck.replay_path))
        cases = rp.get("cases") or ([rp["case"]] if "case" in rp else [])
        tcases = rp.get("tune_cases") or ([rp["tune_case"]] if "tune_case" in rp else [])
    else:
        cases = gen_cases(ck)
        tcases = [gen_tune(ck.rng, shape, blank=True) for shape in TUNE_SHAPES]
        for v in ("holdout", "dss"):
            for strat in ("std", "alps"):
                t = gen_tune(ck.rng, ("src", strat), blank=True)
                t.update(validator=v, rows=120)
                tcases.append(t)      # the percentage / dss left open with the strategy that needs it
        # a user setting LARGER than the default / dataset-derived value of a parameter left open
        for shape in TUNE_SHAPES:
            for field, vals in (("tournament", [6, 40, 120, 1000]), ("min_individuals", [3, 40, 150, 1000]),
                                ("patch", [99, 100, 150]), ("mate_zone", [1, 2, 4])):
                for v in vals:
                    for rows in ((9, 10, 120, 1000) if shape[0] == "src" else (0,)):
                        t = gen_tune(ck.rng, shape, blank=True)
                        t[field] = v
                        t["rows"] = rows
                        t["layers"] = ck.rng.choice([0, 0, 3, 20])
                        tcases.append(t)
        tcases += [gen_tune(ck.rng) for _ in range(40000 if ck.thorough else 400)]
    # which tuning code does the tree have?  (environment::reconcile = repair of tune_valid_size_conflict)
    with open(os.path.join(L["snap"], "kernel", "search.tcc")) as f:
        recon = 1 if "reconcile(" in f.read() else 0
    ck.coverage["tuning_model"] = "tune_rec (with environment::reconcile)" if recon else "tune (no reconcile)"
    run_tune(ck, harness, model, tcases, recon)

    hout, crashes, mout = run_cases(harness, model, cases)
    totals = {}
    hist = {}
    for i, (c, h, m) in enumerate(zip(cases, hout, mout)):
        ck.count()
        tag = "%s/%s/%s" % (c["kind"], c["strat"], c["mode"])
        hist[tag] = hist.get(tag, 0) + 1
        if h is None or h.startswith("CRASH"):
            ck.add_violation("sanitizer:%s:t%s" % (c["strat"], "1" if c["tournament"] == 1 else "n"),
                             "sanitizer report / crash of the real code while running %s" % case_line(c),
                             {"case": c, "line": case_line(c), "sanitizer": crashes.get(i, "")[-2500:]})
            continue
        ok, cnt, fs = classify(m)
        for k, v in cnt.items():
            totals[k] = totals.get(k, 0) + v
        if cnt.get("replaced", 0) > 0 and (cnt.get("best_updates", 0) > 0 or cnt.get("cbs", 0) > 0):
            ck.nontriv(case_line(c))
        elif cnt.get("cbs", 0) > 1:
            ck.nontriv(case_line(c))
        if i < 3 or i % (len(cases) // 3 + 1) == 0:
            ck.sample({"case": case_line(c), "model": m, "trace_bytes": len(h)})
        if ok:
            continue
        xs = [f for f in fs if f[0] == "X"]
        for kind, k, what in xs:
            key = "%s:%s" % (what, c["strat"])
            small = c
            if not ck.replay_path and len(ck.violations) < 3:
                small = shrink(harness, model, c, lambda t, key=key: key)
            ck.add_violation(key, "the implementation's own data violates %s at event %d of %s" % (what, k, case_line(small)),
                             {"case": small, "line": case_line(small), "original_case": c, "event": k, "oracle": what,
                              "model_verdict": m})
        others = [f for f in fs if f[0] != "X"]
        if others:
            ck.add_diff({"case": c, "line": case_line(c)}, m, "(trace of %d bytes)" % len(h),
                        what="model rejects / differs: " + " ".join("%s:%d:%s" % f for f in others[:4]))
    ck.coverage["per_shape"] = hist
    ck.coverage["event_totals"] = totals
    return ck.finish(
        rule="seeded configurations over {i_mep,i_ga,i_de} x {std,alps,de,de+alps} x {step-by-step, whole "
             "evolution::run, search::run} with population 4..64, tournament 1..min(pop, mate zone), layers 1..6, age "
             "gap 1..20, brood 1..4, elitism on/off, p_cross/p_mutation in {0,..,1}, cache on/off, tie-heavy and "
             "vector fitness, data shakes; non-trivial = the run replaced at least one member and improved the best "
             "(or, for callback-only runs, has >= 2 generation dumps); distinct = distinct configuration line")
