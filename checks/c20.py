"""C20 -- The inline-storage vector behaves like a standard vector.

proof:  coq/Props/Properties_C20.v about coq/SmallVec/SmallVecDefs.v, a
        method-by-method model of src/utility/small_vector.{h,tcc} as
        sequences of cell actions (assign, placement-new, destroy, move-from,
        alloc, free) with lifetime errors as outcomes.
tie:    correspondence -- harness/h_smallvec.cc runs op scripts on the real
        small_vector<T,S> (S = 1..8, T in int/double/std::string/Tracked) under
        ASan/UBSan/LSan; the extracted model predicts contents, size,
        capacity, inline/heap, live-object count, returned iterator and the
        comparison results after every operation.
search: the property itself evaluated on the implementation's outputs: the
        contents after every op against std::vector (the harness's lock-step
        mirror AND an independent list semantics here), returned iterators,
        comparisons, lifetime-error flags of Tracked, balance of
        constructions/destructions at the end, sanitizer reports.
"""
import json
import os
import subprocess
import sys

import vv

TYPES = "idsk"
MAXLIST = 12


# ------------------------------------------------------------------ scripts
# an op is a tuple: (code, slot, args...)   slot 'a' / 'b'
def show_op(o):
    c, t = o[0], o[1]
    if c in "NRZQPEG":
        return "%s%s%d" % (c, t, o[2])
    if c in "FS":
        return "%s%s%d,%d" % (c, t, o[2], o[3])
    if c == "L":
        return "%s%s%s" % (c, t, ",".join(map(str, o[2])))
    if c == "I":
        return "%s%s%d,%s" % (c, t, o[2], ",".join(map(str, o[3])))
    return "%s%s" % (c, t)


def show_case(T, S, ops):
    return "%s %d %s" % (T, S, " ".join(show_op(o) for o in ops))


def parse_case(line):
    w = line.split()
    ops = []
    for x in w[2:]:
        c, t, rest = x[0], x[1], x[2:]
        z = [int(v) for v in rest.split(",") if v != ""]
        if c in "NRZQPEG":
            ops.append((c, t, z[0]))
        elif c in "FS":
            ops.append((c, t, z[0], z[1]))
        elif c == "L":
            ops.append((c, t, z))
        elif c == "I":
            ops.append((c, t, z[0], z[1:]))
        else:
            ops.append((c, t))
    return w[0], int(w[1]), ops


# double: codes of the special values (harness/h_smallvec.cc, ocaml/smallvec_driver.ml)
D_SPECIAL = {100001: -0.0, 100002: float("nan"), 100003: float("nan"), 100004: float("inf"),
             100005: float("-inf"), 100006: 5e-324, 100007: -5e-324, 100008: 2.225073858507201e-308}
D_POOL = [0] + sorted(D_SPECIAL)


def elem(T, v):
    return D_SPECIAL.get(v, float(v)) if T == "d" else v


def vec_eq(T, a, b):
    """std::vector operator==: same size and element operator== pointwise (NaN != NaN, +0.0 == -0.0)"""
    return len(a) == len(b) and all(elem(T, x) == elem(T, y) for x, y in zip(a, b))


def vec_lt(T, a, b):
    """std::lexicographical_compare with the element operator<"""
    for x, y in zip(a, b):
        x, y = elem(T, x), elem(T, y)
        if x < y:
            return True
        if y < x:
            return False
    return len(a) < len(b)


def moved(T, v):
    return v if T in "id" else (0 if T == "s" else -1)


def spec_step(T, o, st):
    """std::vector semantics on python lists.  st = {'a': list, 'b': list}.
    returns (ret, unspecified slot or None); None for st when the op's
    precondition does not hold."""
    c, t = o[0], o[1]
    u = "b" if t == "a" else "a"
    x = st[t]
    ret, unspec = None, None
    if c == "N":
        st[t] = [0] * o[2]
    elif c == "F":
        st[t] = [o[3]] * o[2]
    elif c == "L":
        st[t] = list(o[2])
    elif c in "CA":
        st[t] = list(st[u])
    elif c in "MV":
        st[t] = list(st[u])
        unspec = u
    elif c == "Y":
        pass
    elif c == "X":
        st[t] = []
    elif c in "PE":
        st[t] = x + [o[2]]
    elif c in "QG":
        if o[2] >= len(x):
            return "invalid", None
        st[t] = x + [x[o[2]]]
    elif c == "I":
        if o[2] > len(x):
            return "invalid", None
        st[t] = x[:o[2]] + list(o[3]) + x[o[2]:]
        ret = o[2]
    elif c == "R":
        st[t] = x[:o[2]] + [0] * (o[2] - len(x))
    elif c == "Z":
        pass
    elif c == "S":
        if o[2] >= len(x):
            return "invalid", None
        st[t] = x[:o[2]] + [o[3]] + x[o[2] + 1:]
    return ret, unspec


def parse_slot(s):
    heap = s[0] == "h"
    cap, body = s[1:].split("[", 1)
    body = body.rstrip("]")
    vals = [v for v in body.split(",") if v != ""]
    return heap, int(cap), vals


def judge(T, S, ops, out):
    """the oracle: (index of the first failing step or None, key, text)"""
    if out is None or out.startswith("CRASH"):
        return len(ops), "sanitizer", "sanitizer report / abnormal termination: " + str(out)[:80]
    recs = [r.strip() for r in out.split("|")]
    st = {"a": [], "b": []}
    for k, o in enumerate(ops):
        if k >= len(recs) - 1:
            return k, "truncated-output", "no record for step %d" % k
        f = recs[k].split(";")
        if len(f) != 7:
            return k, "bad-record", recs[k]
        ret, unspec = spec_step(T, o, st)
        if ret == "invalid":
            return None, None, None      # not a valid script: nothing is claimed
        name = o[0]
        slots = {"a": parse_slot(f[1]), "b": parse_slot(f[2])}
        if unspec:
            # moved-from: valid but unspecified -- take over what it holds
            vals = slots[unspec][2]
            if "?" in vals:
                return k, "%s:moved-from-unreadable" % name, recs[k]
            st[unspec] = [int(v) for v in vals]
        for t in "ab":
            heap, cap, vals = slots[t]
            want = [str(v) for v in st[t]]
            if vals != want:
                return k, "%s:wrong-contents" % name, "step %d %s: slot %s holds %s, std::vector holds %s" % (
                    k, show_op(o), t, vals, want)
            if cap < max(S, len(vals)) or (not heap and cap != S):
                return k, "%s:capacity" % name, "step %d %s: capacity %d, size %d" % (k, show_op(o), cap, len(vals))
        if (f[0] != "-") != (ret is not None) or (ret is not None and int(f[0]) != ret):
            return k, "%s:returned-iterator" % name, "step %d %s returns index %s, std::vector returns %s" % (
                k, show_op(o), f[0], ret)
        a, b = st["a"], st["b"]
        eq, lt, gt = vec_eq(T, a, b), vec_lt(T, a, b), vec_lt(T, b, a)
        cmpw = "%d%d%d%d%d%d" % (eq, not eq, lt, not gt, gt, not lt)
        if f[3] != cmpw:
            return k, "comparison", "step %d %s: a = %s, b = %s: == != < <= > >= give %s, std::vector gives %s" % (
                k, show_op(o), a, b, f[3], cmpw)
        if f[5] != "-":
            return k, "%s:lifetime-%s" % (name, f[5]), "step %d %s: lifetime error(s) %s (D construct over live, " \
                "X destroy dead, A assign to raw, R read dead)" % (k, show_op(o), f[5])
        if f[6] != "ok":
            return k, "%s:differs-from-std-vector" % name, "step %d %s: lock-step std::vector mirror disagrees" % (
                k, show_op(o))
    e = recs[-1].split(";")
    if len(e) != 4 or e[0] != "end":
        return len(ops), "bad-end-record", recs[-1]
    if e[1] not in ("-", "0"):
        return len(ops), "destruction:objects-left-alive", "%s Tracked objects alive after both vectors were destroyed" % e[1]
    if e[2] != "-":
        return len(ops), "destruction:lifetime-%s" % e[2], "lifetime error(s) %s during destruction" % e[2]
    if e[3] != "0":
        return len(ops), "leak", "LeakSanitizer reports leaked memory"
    return None, None, None


# --------------------------------------------------------------- generators
class Gen:
    def __init__(self, rng, T, S):
        self.r, self.T, self.S = rng, T, S
        self.st = {"a": [], "b": []}
        self.ops = []
        self.nv = 0

    def val(self):
        self.nv += 1
        if self.T == "d" and self.r.random() < 0.3:
            return self.r.choice(D_POOL)
        if self.r.random() < 0.3:
            return self.r.randint(1, 3)       # repeated values: == and < have something to decide
        return self.r.randint(1, 999)

    def vals(self, n):
        return [self.val() for _ in range(n)]

    def around(self, extra=()):
        S = self.S
        c = [0, 1, S - 1, S, S + 1, S + 2, 2 * S, 2 * S + 1] + list(extra)
        return max(0, self.r.choice(c))

    def add(self, o):
        ret, unspec = spec_step(self.T, o, self.st)
        assert ret != "invalid", o
        if unspec:
            # what the source holds afterwards is unknown here; make the script
            # independent of it (the oracle uses the reported contents)
            self.st[unspec] = None
        self.ops.append(o)

    def known(self, t):
        return self.st[t] is not None

    def random_op(self):
        r, S = self.r, self.S
        t = r.choice("ab")
        u = "b" if t == "a" else "a"
        if not self.known(t):
            # after being moved from: re-establish a known value
            c = r.choice("NFLCAX") if self.known(u) else r.choice("NFLX")
        else:
            c = r.choice("NFLCMAVYXPPQGEIIIIRRRZS")
            if c in "CMAV" and not self.known(u):
                c = "P"
        x = self.st[t] if self.known(t) else []
        n = len(x)
        if c == "N":
            return (c, t, self.around())
        if c == "F":
            return (c, t, self.around(), self.val())
        if c == "L":
            return (c, t, self.vals(min(MAXLIST, self.around())))
        if c in "PE":
            return (c, t, self.val())
        if c in "QG":
            if n == 0:
                return ("P", t, self.val())
            return (c, t, r.choice([0, n - 1, r.randrange(n)]))
        if c == "I":
            pos = r.choice([0, n, n // 2, max(0, n - 1), min(n, 1), r.randint(0, n)])
            tail = n - pos
            k = max(0, r.choice([0, 1, tail - 1, tail, tail + 1, S - n, S - n + 1, S - n - 1, 2 * S, r.randint(0, 6)]))
            return (c, t, pos, self.vals(min(k, 20)))
        if c == "R":
            return (c, t, max(0, r.choice([0, n - 1, n, n + 1, S - 1, S, S + 1, 2 * S + 1, r.randint(0, 2 * S + 2)])))
        if c == "Z":
            return (c, t, max(0, r.choice([0, n, n + 1, S, S + 1, 3 * S, r.randint(0, 3 * S)])))
        if c == "S":
            if n == 0:
                return ("P", t, self.val())
            return (c, t, r.choice([0, n - 1, r.randrange(n)]), self.val())
        return (c, t)


def directed(rng):
    """boundary scripts: every op kind applied to vectors of size S-1, S, S+1
    (inline and heap, with and without spare capacity)"""
    cases = []
    for S in range(1, 9):
        sizes = sorted({0, 1, S - 1, S, S + 1, 2 * S + 1} - {-1})
        for T in TYPES:
            for n in sizes:
                if n > MAXLIST:
                    continue
                base = list(range(1, n + 1))
                preps = [[("L", "a", base)],
                         [("L", "a", base), ("Z", "a", 2 * S + 3)],              # heap, spare capacity
                         [("L", "a", base + [77] * (S + 1 - n if n <= S else 1)), ("R", "a", n)]]  # heap, shrunk
                for prep in preps:
                    seconds = []
                    for m in sorted({0, 1, S - 1, S, S + 1, n + 1, 2 * S + 2} - {-1}):
                        if m <= MAXLIST:
                            seconds.append([("L", "b", list(range(101, 101 + m))), ("A", "a")])
                            seconds.append([("L", "b", list(range(101, 101 + m))), ("V", "a")])
                            seconds.append([("L", "b", list(range(101, 101 + m))), ("Z", "b", 2 * S + 3), ("R", "b", max(0, m - 1)), ("A", "a"), ("V", "a")])
                        seconds.append([("R", "a", m), ("R", "a", n + 2)])
                    seconds += [[("C", "b"), ("P", "b", 5)], [("M", "b"), ("P", "a", 6), ("P", "b", 7)],
                                [("P", "a", 9), ("E", "a", 8)], [("X", "a"), ("P", "a", 3)], [("Y", "a")],
                                [("N", "a", n)], [("F", "a", n, 4)], [("N", "b", S + 1), ("A", "a")]]
                    if n:
                        seconds += [[("Q", "a", 0), ("Q", "a", n - 1)], [("G", "a", n - 1), ("G", "a", 0)], [("S", "a", n - 1, 55)]]
                    for pos in sorted({0, 1, n // 2, n - 1, n} & set(range(0, n + 1))):
                        tail = n - pos
                        for k in sorted({0, 1, tail - 1, tail, tail + 1, S - n, S - n + 1} & set(range(0, 30))):
                            seconds.append([("I", "a", pos, list(range(201, 201 + k)))])
                    for sec in seconds:
                        cases.append((T, S, prep + sec))
    return cases


def compare_cases(rng):
    """pairs of vectors of equal length that differ in one position only (or not
    at all), built from the special doubles / repeated values, inline and heap;
    every record carries == != < <= > >= of the pair"""
    cases = []
    for S in (1, 2, 3, 5, 8):
        for n in sorted({1, S, S + 1}):
            if n > MAXLIST:
                continue
            for T in TYPES:
                pool = D_POOL + [1, 2] if T == "d" else [1, 2, 3]
                for p in sorted({0, n // 2, n - 1}):
                    for x in pool:
                        for y in pool:
                            a = [1] * n
                            b = [1] * n
                            a[p], b[p] = x, y
                            ops = [("L", "a", a), ("L", "b", b)]
                            if x == y:
                                # the same values: a copy, a moved copy, an assigned copy
                                ops += [("C", "b"), ("Z", "b", 2 * S + 2), ("A", "a"), ("P", "b", y), ("P", "a", x)]
                            cases.append((T, S, ops))
    return cases


def random_cases(rng, count, maxlen):
    cases = []
    for _ in range(count):
        T = rng.choice(TYPES)
        S = rng.randint(1, 8)
        g = Gen(rng, T, S)
        for _ in range(rng.randint(3, maxlen)):
            g.add(g.random_op())
        cases.append((T, S, g.ops))
    return cases


# ------------------------------------------------------------------ running
def run_harness(exe, lines, timeout=1500):
    """line-protocol harness; when it dies on a line (sanitizer abort, the
    harness's own alarm on a run-away loop) mark the line CRASH and restart"""
    out = [None] * len(lines)
    crashes = {}
    start = 0
    env = vv.san_env()
    restarts = 0
    leak_restarts = 0
    timeouts = 0
    while start < len(lines):
        try:
            p = subprocess.run([exe], input="\n".join(lines[start:]) + "\n", env=env, timeout=timeout,
                               stdout=subprocess.PIPE, stderr=subprocess.PIPE, text=True, errors="replace")
            got, rc, err = p.stdout.splitlines(), p.returncode, p.stderr
        except subprocess.TimeoutExpired as e:
            so = e.stdout or b""
            got = (so.decode(errors="replace") if isinstance(so, bytes) else so).splitlines()
            rc, err = 124, "[timeout]"
        n = min(len(got), len(lines) - start)
        for i in range(n):
            out[start + i] = got[i]
        if rc == 124 and timeouts < 4:
            # wall-clock timeout of this python-side run (loaded machine): not a
            # verdict about any case -- go on with the unanswered lines
            timeouts += 1
            start += n
            continue
        if rc == 77 and n > 0 and start + n < len(lines):
            # the harness leaves after a case that leaked (its line is complete):
            # the next case starts in a fresh process
            start += n
            leak_restarts += 1
            if leak_restarts > 3000:
                for j in range(start, len(lines)):
                    out[j] = "CRASH (too many leaking cases)"
                break
            continue
        if rc == 77:
            rc = 0
        if start + n >= len(lines):
            if rc != 0:
                crashes[len(lines) - 1] = err
                out[len(lines) - 1] = "CRASH-AT-EXIT rc=%d " % rc + (out[len(lines) - 1] or "")
            break
        k = start + n
        out[k] = "CRASH rc=%d" % rc
        crashes[k] = err
        start = k + 1
        restarts += 1
        if restarts > 40:
            for j in range(start, len(lines)):
                out[j] = "CRASH (too many restarts)"
            break
    return out, crashes


def run_harness_parallel(exe, lines, jobs=None):
    """contiguous chunks of the case list on several harness processes"""
    import concurrent.futures
    jobs = jobs or max(1, min(12, (vv.NPROC or 4) - 2))
    if len(lines) < 200 or jobs == 1:
        return run_harness(exe, lines)
    size = (len(lines) + jobs - 1) // jobs
    chunks = [(k, lines[k:k + size]) for k in range(0, len(lines), size)]
    out = [None] * len(lines)
    crashes = {}
    with concurrent.futures.ThreadPoolExecutor(len(chunks)) as ex:
        for (k, ch), (o, c) in zip(chunks, ex.map(lambda kc: run_harness(exe, kc[1]), chunks)):
            out[k:k + len(ch)] = o
            for i, e in c.items():
                crashes[k + i] = e
    return out, crashes


def strip_ref(line):
    """a record's last field is the verdict of the harness's lock-step
    std::vector mirror: it is judged by the oracle, it is not something the
    model predicts"""
    if line is None:
        return None
    return " | ".join(r[:-4] if r.endswith(";BAD") else (r[:-3] if r.endswith(";ok") else r) for r in line.split(" | "))


LIFETIME_KEYS = ("lifetime-", "leak", "destruction:", "sanitizer")


UNOBSERVABLE = [0]


def lifetime_error_agreed(mo, ho, key, T=None):
    """the model stops at the first lifetime error (ERR:<kind> after k records);
    the implementation keeps running and shows it as a Tracked flag, a leak,
    objects left alive or a sanitizer report.  They agree when the records
    before the error are identical and the oracle reports a lifetime violation."""
    recs = mo.split(" | ")
    if not recs[-1].startswith("ERR:") or recs[-1] in ("ERR:BadRange",):
        return False
    if ho is None or ho.startswith("CRASH"):
        return bool(key)
    hrecs = ho.split(" | ")
    same_prefix = [strip_ref(r) for r in hrecs[:len(recs) - 1]] == [strip_ref(r) for r in recs[:-1]]
    if T == "s" and recs[-1] in ("ERR:Leak", "ERR:DoubleConstruct") and same_prefix and not key:
        # a std::string that is leaked or constructed over while it owns no buffer
        # (moved-from / empty) leaves nothing for ASan/LSan to see; the same scripts
        # run with Tracked, where every such event is counted
        UNOBSERVABLE[0] += 1
        return True
    if not key or not any(t in key for t in LIFETIME_KEYS):
        return False
    return same_prefix


def shrink(exe, T, S, ops, key):
    """drop ops while the same failure key persists"""
    cur = list(ops)
    for _ in range(6):
        cands = [cur[:j] + cur[j + 1:] for j in range(len(cur))]
        cands = [c for c in cands if c]
        ok = []
        for c in cands:
            st = {"a": [], "b": []}
            good = True
            for o in c:
                ret, unspec = spec_step(T, o, st)
                if ret == "invalid" or unspec:
                    good = ret != "invalid" and good
                    if unspec:
                        st[unspec] = []   # unknown: later ops on it may be invalid -> judged by the oracle anyway
            if good:
                ok.append(c)
        if not ok:
            break
        outs, _ = run_harness(exe, [show_case(T, S, c) for c in ok], timeout=120)
        nxt = None
        for c, o in zip(ok, outs):
            kk = judge(T, S, c, o)[1]
            if kk == key:
                nxt = c
                break
        if nxt is None:
            break
        cur = nxt
    return cur


def run(ck):
    # regenerate coq/Gen/SmallVecOps.v from the current source (the part of the
    # model that is interpreted: insert's range operations; and the statement
    # lists of all member definitions)
    snap, _ = vv.snapshot()
    sys.path.insert(0, os.path.join(vv.VERIF, "translate"))
    import smallvec_ops
    text, problems = smallvec_ops.generate(snap)
    if problems:
        ck.tie = "correspondence"
        ck.notes.append("translator: " + "; ".join(problems)[:600] +
                        " -- checked-in Gen/SmallVecOps.v kept as hand-written model, tie = correspondence only")
    else:
        with vv.Lock("coq"):
            vv.write_if_changed(os.path.join(vv.COQ, "Gen", "SmallVecOps.v"), text)
        ck.tie = "regenerated+correspondence"
    res = vv.prove("Properties_C20", set())
    ck.add_proof(res)
    if ck.thorough and not res["failure"]:
        # independent re-check of the compiled closure of the property file
        with vv.Lock("coq"):
            rc, out = vv.sh(["coqchk", "-silent", "-o", "-Q", ".", "VV", "VV.Props.Properties_C20"],
                            cwd=vv.COQ, timeout=1500)
        axioms = "<none>" if "* Axioms: <none>" in out else out[out.find("* Axioms:"):][:400]
        ck.coverage["coqchk"] = {"rc": rc, "axioms": axioms}
        if rc != 0 or axioms != "<none>":
            ck.add_unshown("proof", "coqchk", "coqchk -o of VV.Props.Properties_C20: rc=%d %s" % (rc, out[-400:]))
    # the findings on the pinned tree (..._refuted witnesses on the literal model)
    ok, out = vv.coq_make(["Props/Refuted_C20.vo"])
    if not ok:
        err = vv.coq_first_error(out) or {}
        ck.add_unshown("proof", err.get("lemma"), "Props/Refuted_C20.v no longer builds: %s" % err.get("message", out[-300:]))
    ck.trusted += ["translate/smallvec_ops.py (small_vector.tcc -> Gen/SmallVecOps.v: insert's guards / branch condition / "
                   "range operations, interpreted by the model; normalised statement lists of all member definitions, "
                   "compared with SmallVec/SmallVecModelled.v by C20_source_as_modelled)",
                   "coq/SmallVec/SmallVecDefs.v: hand-written methods (cells Alive v | Alive indeterminate | Raw; "
                   "element-wise loops in the direction of the standard algorithms), tied by the correspondence",
                   "extraction: ExtrOcamlBasic only; ocaml/smallvec_driver.ml + zutil.ml",
                   "harness/h_smallvec.cc (Tracked lifetime registry, lock-step std::vector mirror), g++ 12 "
                   "ASan/UBSan/LSan as detectors"]
    ck.assumptions.append("element type enters the model as (triv, dflt, mv): trivially default constructible or not, "
                          "the value of T(), the value left in a moved-from object; theorems hold for all of them "
                          "and all S >= 1")
    ck.assumptions.append("inserted ranges do not alias the vector (push_back(v[i]) is covered as PushBackSelf); "
                          "allocation does not fail; element operations do not throw")

    harness = vv.build_harness("h_smallvec", extra=["-O0", "-g1"])
    model = vv.ocaml_model("Smallvec")

    if ck.replay_path:
        rp = json.load(open(ck.replay_path))
        lines = rp.get("cases") or [rp["case"]]
        cases = [parse_case(l) for l in lines]
    else:
        cases = directed(ck.rng)
        cmp_cases = compare_cases(ck.rng)
        if not ck.thorough:
            # quick: a seeded part of the directed products, then random scripts
            ck.rng.shuffle(cases)
            cases = cases[:2600]
            ck.rng.shuffle(cmp_cases)
            cases += cmp_cases[:1500]
            cases += random_cases(ck.rng, 2600, 10)
        else:
            cases += cmp_cases
            cases += random_cases(ck.rng, 60000, 24)
    lines = [show_case(T, S, ops) for T, S, ops in cases]
    if not os.path.exists(harness):      # the shared build cache may have been collected meanwhile
        harness = vv.build_harness("h_smallvec", extra=["-O0", "-g1"])
    hout, crashes = run_harness_parallel(harness, lines)
    rc, mout, merr = vv.run_lines(model, "\n".join(lines) + "\n")
    if rc != 0 or len(mout) != len(cases):
        raise vv.BuildError("model driver failed: rc=%s %s" % (rc, merr[:500]))

    hist = {}
    reported = set()
    for k, (T, S, ops) in enumerate(cases):
        ck.count()
        ho, mo = hout[k], mout[k]
        for o in ops:
            hist[o[0]] = hist.get(o[0], 0) + 1
        if mo.endswith("INVALID"):
            continue
        # non-trivial: some vector changes between inline and heap storage, or
        # an insertion strictly inside the vector
        if ho:
            kinds = [(r.split(";")[1][:1], r.split(";")[2][:1]) for r in ho.split(" | ")[:-1] if r.count(";") == 6]
            crossing = any(kinds[i] != kinds[i + 1] for i in range(len(kinds) - 1))
        else:
            crossing = False
        if crossing or any(o[0] == "I" and o[2] > 0 for o in ops):
            ck.nontriv(lines[k])
        if k < 2 or k % (len(cases) // 4 + 1) == 0:
            ck.sample({"case": lines[k], "impl": ho, "model": mo})
        step, key, what = judge(T, S, ops, ho)
        if key:
            if key not in reported:
                reported.add(key)
                small = shrink(harness, T, S, ops[:step + 1], key) if not ck.replay_path else ops
                sl = show_case(T, S, small)
                so, _ = run_harness(harness, [sl], timeout=120)
                w2 = judge(T, S, small, so[0])
                if w2[1] == key:
                    what = w2[2]
                ck.add_violation(key, "small_vector<%s,%d>: %s" % ({"i": "int", "d": "double", "s": "std::string",
                                                                     "k": "Tracked"}[T], S, what),
                                 {"case": sl, "original_case": lines[k], "impl": so[0], "model": mo,
                                  "oracle": what, "sanitizer": crashes.get(k, "")[-1500:],
                                  "how": "echo '%s' | <harness h_smallvec>   (ops: see harness/h_smallvec.cc)" % sl})
            else:
                ck.add_violation(key, what, {"case": lines[k]})
        if strip_ref(ho) != strip_ref(mo) and not lifetime_error_agreed(mo, ho, key, T):
            ck.add_diff({"case": lines[k]}, mo, ho)
    ck.coverage["ops"] = hist
    ck.coverage["model_lifetime_errors_unobservable_with_std_string"] = UNOBSERVABLE[0]
    ck.coverage["element_types"] = "int, double, std::string, Tracked"
    ck.coverage["inline_capacities"] = "1..8"
    return ck.finish(
        rule="directed scripts: every operation applied to vectors of size 0, 1, S-1, S, S+1, 2S+1 (inline / heap with "
             "spare capacity / heap after shrinking), assignments and moves between all such pairs, insert positions "
             "{0, 1, n/2, n-1, n} x lengths {0, 1, tail-1, tail, tail+1, S-n, S-n+1}, for S = 1..8 and 4 element types; "
             "plus seeded random scripts whose arguments are drawn around size, S and capacity; non-trivial = a vector "
             "changes between inline and heap storage during the script or an insertion is strictly inside the vector; "
             "distinct = distinct script text")
