"""C05 -- Evaluators compute the documented standardized fitness.

proof:  coq/Props/Properties_C05.v (+ Refuted_C05.v) about coq/Eval/EvalDefs.v,
        a hand-written model of kernel/gp/src/evaluator.tcc (error functors,
        sum_of_errors_impl, dyn_slot/gaussian/binary loops),
        kernel/ga/evaluator.tcc and kernel/constrained_evaluator.tcc.
tie:    correspondence: harness h_eval (the REAL evaluators on a dataframe
        built in memory, ASan/UBSan) vs the extracted model on the same cases,
        fitness compared bit for bit, difficulty vectors compared.
search: an independent oracle restating the property (exact rational mean of
        the documented per-example errors, sign, NaN, zero-iff, exactly the
        wrong examples' counters +1) judged on the implementation's outputs.
"""
import json
import math
import struct
import time
from fractions import Fraction

import vv
import prims_common as pc

DBL_MAX = 1.7976931348623157e308
DBL_MIN = 2.2250738585072014e-308
EPS = 2.0 ** -52
NAN_HEX = "7ff8000000000000"
ERR_KINDS = ["mae", "rmae", "mse", "count"]
CLS_KINDS = ["binary", "dynslot", "gaussian"]


def hx(x):
    return "%016x" % struct.unpack("<Q", struct.pack("<d", x))[0]


def unhx(h):
    return struct.unpack("<d", struct.pack("<Q", int(h, 16)))[0]


def D(x):
    return "d:" + hx(x)


def tok_value(t):
    """python value of a protocol token: None (void) / float"""
    if t == "v":
        return None
    if t[0] == "i":
        return float(int(t[2:]))
    return unhx(t[2:])


def issmall(v):
    return abs(v) < 2.0 * EPS        # NaN -> False


# ------------------------------------------------------------------ oracle
def err_double(kind, o, t):
    """the documented per-example error, computed in binary64 the documented way"""
    if kind == "count":
        return 1.0 if (o is None or not issmall(o - t)) else 0.0
    if o is None:
        return 200.0 if kind == "rmae" else DBL_MAX / 100.0
    if kind == "mae":
        return abs(o - t)
    if kind == "mse":
        e = o - t
        try:
            return e * e
        except OverflowError:
            return math.inf
    delta = abs(t - o)
    if delta <= 10.0 * DBL_MIN:
        return 0.0
    s = abs(o) + abs(t)
    try:
        e = 200.0 * delta / s if math.isfinite(s) and math.isfinite(200.0 * delta) else math.nan
    except (OverflowError, ZeroDivisionError):
        e = math.nan
    if not math.isfinite(e):          # an intermediate overflowed: the documented value, in [0;200]
        e = float(200 * abs(Fraction(t) - Fraction(o)) / (abs(Fraction(o)) + abs(Fraction(t))))
    return e


def err_exact(kind, o, t):
    """the documented per-example error as an exact rational"""
    if kind == "count":
        return Fraction(1 if (o is None or not issmall(o - t)) else 0)
    if o is None:
        return Fraction(200) if kind == "rmae" else Fraction(DBL_MAX) / 100
    fo, ft = Fraction(o), Fraction(t)
    if kind == "mae":
        return abs(fo - ft)
    if kind == "mse":
        return (fo - ft) ** 2
    # the documented closeness test is made on the computed difference
    if abs(t - o) <= 10.0 * DBL_MIN:
        return Fraction(0)
    delta = abs(ft - fo)
    return 200 * delta / (abs(fo) + abs(ft))


def team_output(members):
    """documented output of a team: running mean of the members' defined outputs (binary64), None when none is defined"""
    avg, count = 0.0, 0.0
    for t in members:
        v = tok_value(t)
        if v is None:
            continue
        count += 1.0
        avg += (v - avg) / count
    return avg if count > 0.0 else None


def doc_outs(res):
    """program outputs the fitness is documented against: for a team, computed here from the members' outputs
    (NOT taken from the implementation's team lambda); for an individual, what the interpreter returned"""
    if res.get("mouts") is not None:
        return ["v" if o is None else D(o) for o in (team_output(m) for m in res["mouts"])]
    return res["outs"]


def judge(case, res):
    """the property, evaluated on the implementation's outputs.
    returns list of (key, what)"""
    kind = case["kind"]
    base = kind.split(".")[0]
    bad = []
    if kind == "ga":
        v = unhx(case["value"])
        want = [hx(v)] if math.isfinite(v) else []
        if res["fit"] != want:
            bad.append(("ga:wrong", "ga_evaluator(%r) = %s, documented %s" % (v, res["fit"], want)))
        return bad
    if kind in ("tdist", "tfixed"):
        # distinct: time invariant, one value per program, values = order of first appearance; fixed: 0
        ids = case["ids"]
        got = res["fit"]
        if kind == "tfixed":
            want = [hx(0.0)] * len(ids)
        else:
            first = {}
            for i in ids:
                first.setdefault(i, len(first))
            want = [hx(float(first[i])) for i in ids]
        if got != want:
            bad.append((kind + ":wrong", "test_evaluator(%s) on programs %s = %s, documented %s" % (kind, ids, got, want)))
        return bad
    if kind == "con":
        v, p = unhx(case["value"]), unhx(case["penalty"])
        want = [hx(-p)] + ([hx(v)] if math.isfinite(v) else [])
        if res["fit"] != want:
            bad.append(("con:wrong", "constrained_evaluator = %s, documented (-penalty, base) = %s" % (res["fit"], want)))
        return bad

    rows = case["rows"]
    n = len(rows)
    if res.get("thrown"):
        # a non integer label is outside the domain of the property; what the code does then
        # (exception, increments already made) is compared with the model, not judged
        if res["frame"] != 1 or len(res["diff"]) != n:
            return [(base + ":frame", "evaluation changed something else than the difficulty counters")]
        return []
    if len(res["fit"]) != 1:
        return [(base + ":arity", "fitness has %d components" % len(res["fit"]))]
    f = unhx(res["fit"][0])
    if f != f:
        bad.append((base + ":nan-fitness", "%s fitness is NaN" % kind))
    elif f > 0:
        bad.append((base + ":positive-fitness", "%s fitness %r is positive" % (kind, f)))
    if res["frame"] != 1 or len(res["diff"]) != n:
        bad.append((base + ":frame", "evaluation changed something else than the difficulty counters"))
        return bad
    def num(tok, cast):        # a string counts as the double std::stod makes of it
        return "d:" + (NAN_HEX if cast == "T" else cast) if tok.startswith("s:") else tok
    casts = res.get("casts") or [("-", "-")] * n
    outs = [tok_value(num(t, casts[i][0])) for i, t in enumerate(doc_outs(res))]
    before = [int(r[3]) for r in rows]
    if base in ERR_KINDS:
        tg = [tok_value(num(r[2], casts[i][1])) for i, r in enumerate(rows)]
        if kind.endswith(".fast"):
            visited = [i for i in range(0, n, 5) if n - i >= 5]
        else:
            visited = list(range(n))
        nonfinite = any(outs[i] is not None and not (math.isfinite(outs[i]) and math.isfinite(tg[i])) for i in visited)
        if nonfinite:
            # inf / nan cells (only reachable through strings such as "inf") are outside the domain of the
            # documented mean; sign, NaN and the model comparison still apply
            return bad
        ed = [err_double(base, outs[i], tg[i]) for i in visited]
        ex = [err_exact(base, outs[i], tg[i]) for i in visited]
        wrong = set(i for i, e in zip(visited, ed) if not issmall(e))
        for i in range(n):
            want = (before[i] + (1 if i in wrong else 0)) % 2 ** 64
            if res["diff"][i] != want:
                bad.append((base + ":difficulty", "example %d: difficulty %d -> %d, documented %d (error %r)"
                            % (i, before[i], res["diff"][i], want, ed[visited.index(i)] if i in visited else None)))
                break
        if not visited:
            return bad
        m = sum(ex) / len(ex)
        big = max(ex)
        if f == f:
            if big <= Fraction(DBL_MAX):
                tol = big * Fraction(1, 10 ** 9) + Fraction(1, 10 ** 300)
                if math.isinf(f) or abs(Fraction(f) + m) > tol:
                    bad.append((base + ":not-the-mean", "%s fitness %r, minus the mean of the documented errors is %r"
                                % (kind, f, -float(min(m, Fraction(DBL_MAX))))))
            else:
                # some documented error is not representable: very bad but finite
                mc = min(m, Fraction(DBL_MAX))
                # (-inf is an acceptable rendering of a mean that is not representable)
                if not math.isinf(f) and Fraction(f) > -mc * (1 - Fraction(1, 10 ** 9)):
                    bad.append((base + ":overflowing-error", "%s fitness %r with an astronomically large error "
                                "(mean about 10^%d): must be at least that bad" % (kind, f, len(str(int(m))) - 1)))
            if all(e == 0 for e in ex) and f != 0:
                bad.append((base + ":zero-iff", "%s: every target reproduced but fitness %r" % (kind, f)))
            if wrong and f == 0:
                bad.append((base + ":zero-iff", "%s: example %d is wrong but the fitness is zero" % (kind, min(wrong))))
        return bad

    # classification
    labels = [int(r[2][2:]) for r in rows]
    tags = res["tags"]
    if len(tags) != n:
        return bad + [(base + ":frame", "no tags")]
    if base == "binary":
        for i in range(n):
            want = 1 if (outs[i] is not None and outs[i] > 0.0) else 0
            if res.get("mouts") is not None:
                # a team: winner takes all -- the member with the greatest sureness |value| (first one on ties)
                best = None
                for t in res["mouts"][i]:
                    v = tok_value(t)
                    v = 0.0 if v is None else v
                    cand = (1 if v > 0.0 else 0, abs(v))
                    if best is None or cand[1] > best[1]:
                        best = cand
                want = best[0]
            if tags[i][0] != want:
                bad.append(("binary:tag", "binary tag of output %r is %d" % (outs[i], tags[i][0])))
    wrong = [tags[i][0] != labels[i] for i in range(n)]
    for i in range(n):
        want = (before[i] + (1 if wrong[i] else 0)) % 2 ** 64
        if res["diff"][i] != want:
            bad.append((base + ":difficulty", "example %d: difficulty %d -> %d, documented %d"
                        % (i, before[i], res["diff"][i], want)))
            break
    k = sum(wrong)
    if base in ("binary", "dynslot"):
        if f == f and f != -float(k):
            bad.append((base + ":not-the-count", "%s fitness %r with %d misclassified examples" % (kind, f, k)))
    else:
        scale = case["classes"] - 1
        s = Fraction(0)
        ok = True
        for i in range(n):
            su = unhx(tags[i][1])
            if not (0.0 <= su <= 1.0):
                ok = False
                break
            s += Fraction(-1) if wrong[i] else (Fraction(su) - 1) / scale
        if ok and f == f:
            if not (-n <= f <= 0):
                bad.append(("gaussian:bounds", "gaussian fitness %r outside [-%d, 0]" % (f, n)))
            if abs(Fraction(f) - s) > Fraction(n, 10 ** 9):
                bad.append(("gaussian:score", "gaussian fitness %r, documented score %r" % (f, float(s))))
    return bad


# -------------------------------------------------------------- generators
def special_doubles():
    return [0.0, -0.0, 1.0, -1.0, 2.0, 0.5, 3.0, -7.25, DBL_MAX, -DBL_MAX, DBL_MAX / 2, -DBL_MAX / 2,
            DBL_MAX / 100, 1e200, -1e200, 1e154, 1.3407807929942597e154, 1.3407807929942596e154, 1.4e154,
            1e306, -1e306, 9e305, 8.9e305, 4.5e307, 1e-308, 5e-324, -5e-324, DBL_MIN, 10 * DBL_MIN, 11 * DBL_MIN,
            2.0 ** -51, 2.0 ** -52, 2.0 ** -50, 2.0 ** -51 - 2.0 ** -104, 2.0 ** -51 + 2.0 ** -103,
            1e10, -1e10, 123456.789, 1e-5]


def S(text):
    return "s:" + text.encode().hex()


NUMERIC_STRINGS = ["1.5", "-2", " 3", "1e5", "0x1p3", "3abc", "1e308", "-0", "0", "inf", "-inf", ".5", "+7", "1e-320",
                   "2.5e-1", "12345678901234567890", "nan"]
BAD_STRINGS = ["abc", "-", ".", "e5", " ", "1e999", "-1e999", "1e-999", "x1"]


def gen_pair(rng):
    """(output token, target token) for the identity program"""
    r = rng.random()
    sp = special_doubles()
    if r < 0.05:
        # string-valued output and/or target: lexical_cast -> std::stod (throws on non numeric text)
        q = rng.random()
        so = S(rng.choice(NUMERIC_STRINGS if q < 0.7 else BAD_STRINGS))
        q2 = rng.random()
        if q2 < 0.4:
            t = S(rng.choice(NUMERIC_STRINGS if rng.random() < 0.8 else BAD_STRINGS))
        else:
            t = D(rng.choice([1.5, -2.0, 0.0, 3.0, rng.gauss(0, 5)]))
        if rng.random() < 0.3:
            so = D(rng.gauss(0, 5)) if rng.random() < 0.7 else "v"      # only the target is a string
            t = S(rng.choice(NUMERIC_STRINGS + BAD_STRINGS))
        return so, t
    r = rng.random()
    if r < 0.12:
        t = rng.choice(sp) if rng.random() < 0.5 else rng.gauss(0, 100)
        return "v", D(t)
    if r < 0.30:
        t = rng.choice([0.0, 1.0, -1.0, 2.0, 1e10, 100.0, 0.1])
        k = rng.choice([0, 1, 2, 3, 4, 5, 8, -1, -2, -3, -4, -5])
        o = t + k * 2.0 ** -52 * (1.0 if abs(t) < 2 else abs(t))
        if rng.random() < 0.3:
            o = t + rng.choice([1, -1]) * rng.choice([2.0 ** -51, 2.0 ** -51 - 2.0 ** -104, 2.0 ** -51 + 2.0 ** -103,
                                                     2.0 ** -52, 2.0 ** -50])
        return D(o), D(t)
    if r < 0.45:
        return D(rng.choice(sp)), D(rng.choice(sp))
    if r < 0.55:
        t = rng.gauss(0, 1000)
        return D(t), D(t)
    if r < 0.62:
        z = rng.choice([0, 1, -1, 3, -2, 2147483647, -2147483648, rng.randint(-1000, 1000)])
        t = float(z) if rng.random() < 0.5 else rng.gauss(0, 10)
        return "i:%d" % z, D(t)
    if r < 0.70:
        m = rng.choice([1e150, 1e154, 1e160, 1e200, 1e300, 1e307, 1e308])
        return D(rng.choice([1, -1]) * m * rng.random()), D(rng.choice([1, -1, 0]) * m * rng.random())
    if r < 0.72:
        a = rng.choice([1, -1]) * rng.uniform(8.9e307, 1.79e308)
        return D(a), D(a * (1 - rng.choice([1e-2, 1e-3, 1e-6, 1e-12])))
    if r < 0.75:
        m = rng.choice([1e-300, 1e-307, 1e-310, 1e-320])
        return D(m * rng.random()), D(rng.choice([1, -1, 0]) * m * rng.random())
    t = rng.gauss(0, 50)
    return D(t + rng.gauss(0, 3)), D(t)


def gen_difficulty(rng):
    r = rng.random()
    if r < 0.5:
        return 0
    if r < 0.9:
        return rng.randint(0, 1000)
    return rng.choice([2 ** 64 - 1, 2 ** 64 - 2, 2 ** 32, 2 ** 63])


def gen_rows_err(rng, n):
    rows = []
    for _ in range(n):
        o, t = gen_pair(rng)
        rows.append([o, D(rng.gauss(0, 5)), t, gen_difficulty(rng)])
    return rows


def gen_case_err(rng, thorough):
    kind = rng.choice(ERR_KINDS)
    r = rng.random()
    if r < 0.15:
        n = 1
    elif r < 0.8:
        n = rng.randint(2, 8)
    elif r < 0.95:
        n = rng.randint(9, 40)
    else:
        n = rng.randint(100, 130)
    prog = "X"
    rp = rng.random()
    rows = gen_rows_err(rng, n)
    if rp < 0.08:
        prog = "K:" + hx(rng.choice(special_doubles() + [rng.gauss(0, 10)]))
    elif rp < 0.2:
        prog = rng.choice(["ADD", "SUB", "MUL", "DIV", "LN", "SQRT", "ABS"])
        for row in rows:
            if row[0] == "v" or row[0][0] in "is":
                row[0] = D(rng.gauss(0, 10))
    elif rp < 0.3:
        prog = "R:%d" % rng.randint(1, 10 ** 6)
        for row in rows:
            if row[0] == "v" or row[0][0] in "is":
                row[0] = D(rng.gauss(0, 10))
    if n >= 100 and rng.random() < 0.7:
        kind += ".fast"
    elif n >= 5 and rng.random() < 0.08:
        kind += ".fast"
    return {"kind": kind, "classes": 0, "prog": prog, "rows": rows}


def gen_team_err(rng, thorough):
    """a team<i_mep> of 2..4 members (identity on column 1 / column 2 / constants) under an error evaluator"""
    kind = rng.choice(ERR_KINDS)
    r = rng.random()
    n = 1 if r < 0.15 else (rng.randint(2, 8) if r < 0.9 else rng.randint(100, 110))
    members = ["X", "Y"]
    extra = rng.random()
    if extra < 0.3:
        members.append(rng.choice(["X", "Y"]))
    elif extra < 0.5:
        members.append("K:" + hx(rng.choice([0.0, 1.0, -2.5, 1e308, 1.5e308, rng.gauss(0, 10)])))
    if len(members) == 3 and rng.random() < 0.4:
        members.append(rng.choice(["X", "Y"]))
    rng.shuffle(members)
    rows = []
    for _ in range(n):
        q = rng.random()
        if q < 0.30:
            # huge same-sign member outputs whose sum overflows but whose mean is finite
            sg = rng.choice([1.0, -1.0])
            a, b = rng.choice([(1.5e308, 1.5e308), (1.7e308, 0.3e308), (1.0e308, 1.2e308), (DBL_MAX, DBL_MAX),
                               (rng.uniform(0.9e308, 1.79e308), rng.uniform(0.9e308, 1.79e308))])
            x1, x2 = D(sg * a), D(sg * b)
        elif q < 0.45:
            x1, x2 = rng.choice([("v", D(rng.gauss(0, 5))), (D(rng.gauss(0, 5)), "v"), ("v", "v")])
        elif q < 0.55:
            x1, x2 = "i:%d" % rng.randint(-5, 5), D(rng.gauss(0, 5))
        else:
            c = rng.gauss(0, 20)
            x1, x2 = D(c + rng.gauss(0, 2)), D(c + rng.gauss(0, 2))
        vals = {"X": x1, "Y": x2}
        doc = team_output([vals.get(m, "d:" + m[2:] if m.startswith("K:") else m) for m in members])
        t = rng.random()
        if doc is None:
            tgt = D(rng.gauss(0, 5))
        elif t < 0.6:
            tgt = D(doc)                      # the team reproduces the target exactly
        elif t < 0.75:
            tgt = D(doc + rng.choice([1, -1]) * rng.choice([2.0 ** -51, 2.0 ** -52, 2.0 ** -50]) * max(1.0, abs(doc)))
        else:
            tgt = D(doc + rng.gauss(0, 3))
        rows.append([x1, x2, tgt, gen_difficulty(rng)])
    if n >= 100 and rng.random() < 0.5:
        kind += ".fast"
    return {"kind": kind, "classes": 0, "prog": "T:" + "+".join(members), "rows": rows}


def gen_team_cls(rng, thorough):
    """a team<i_mep> under a classification evaluator: one classifier per member, winner takes all"""
    c = gen_case_cls(rng, thorough)
    while c["prog"] != "X" or any(not r[2].startswith("i:") or int(r[2][2:]) < 0 or int(r[2][2:]) >= c["classes"] for r in c["rows"]):
        c = gen_case_cls(rng, thorough)
    members = ["X", "Y"]
    if rng.random() < 0.4:
        members.append(rng.choice(["X", "Y", "K:" + hx(rng.gauss(0, 3))]))
    if len(members) == 3 and rng.random() < 0.3:
        members.append(rng.choice(["X", "Y"]))
    rng.shuffle(members)
    for r in c["rows"]:
        if r[0].startswith("s:"):
            r[0] = D(rng.gauss(0, 3))
        q = rng.random()
        if q < 0.15:
            r[1] = "v"
        elif q < 0.5:
            r[1] = D((tok_value(r[0]) or 0.0) + rng.gauss(0, 2))
        # else: the unrelated column 2 already there
    c["prog"] = "T:" + "+".join(members)
    return c


def gen_case_cls(rng, thorough):
    kind = rng.choice(CLS_KINDS)
    classes = 2 if kind == "binary" else rng.randint(2, 5)
    r = rng.random()
    n = 1 if r < 0.1 else (rng.randint(2, 10) if r < 0.8 else rng.randint(11, 60))
    present = list(range(classes))
    if classes > 2 and rng.random() < 0.3:
        present = rng.sample(present, rng.randint(1, classes - 1))       # classes absent from the data
    centres = [rng.gauss(0, 5) for _ in range(classes)]
    rows = []
    for _ in range(n):
        lab = rng.choice(present)
        q = rng.random()
        if q < 0.08:
            x = "v"
        elif q < 0.16:
            x = D(rng.choice([0.0, -0.0, 5e-324, -5e-324, 1e300, -1e300, DBL_MAX, -DBL_MAX, 1e7, 1.0000001e7, -1e7, 1e-300]))
        elif q < 0.22:
            x = "i:%d" % rng.choice([0, 1, -1, 5])
        elif q < 0.25:
            x = S(rng.choice(["1.5", "-2", "0", "3abc", "1e5", " 4"]))      # numeric strings (stod succeeds)
        elif kind == "binary":
            x = D((1 if lab == 1 else -1) * abs(rng.gauss(1, 1)) * (1 if rng.random() < 0.8 else -1))
        else:
            x = D(centres[lab] + rng.gauss(0, 1.5 if rng.random() < 0.8 else 0.0))
        rows.append([x, D(rng.gauss(0, 5)), "i:%d" % lab, gen_difficulty(rng)])
    q = rng.random()
    if q < 0.06:
        # a label cell that is not an integer: label() throws std::bad_variant_access
        rows[rng.randrange(n)][2] = rng.choice(["v", D(1.0), D(0.0)])
    elif q < 0.10 and kind == "binary":
        # negative / huge labels: converted to size_t, never equal to a tag (binary has no table to index)
        rows[rng.randrange(n)][2] = "i:%d" % rng.choice([-1, -2, 2, 7, 2147483647, -2147483648])
    prog = "X"
    rp = rng.random()
    if rp < 0.08:
        prog = "K:" + hx(rng.choice([0.0, 1.0, -1.0, rng.gauss(0, 3)]))
    elif rp < 0.16:
        prog = rng.choice(["ADD", "SUB", "MUL", "DIV", "ABS"])
        for row in rows:
            if row[0] == "v" or row[0][0] in "is":
                row[0] = D(rng.gauss(0, 10))
    elif rp < 0.24:
        prog = "R:%d" % rng.randint(1, 10 ** 6)
        for row in rows:
            if row[0] == "v" or row[0][0] in "is":
                row[0] = D(rng.gauss(0, 10))
    return {"kind": kind, "classes": classes, "prog": prog, "rows": rows}


def fixed_cases():
    """the boundary cases the proofs split on, and the known defects"""
    out = []
    two = [[D(1e200), D(0.0), D(0.0), 0], [D(1e200), D(0.0), D(0.0), 0]]
    for k in ERR_KINDS:
        out.append({"kind": k, "classes": 0, "prog": "X", "rows": two})
        out.append({"kind": k, "classes": 0, "prog": "X", "rows": two[:1]})
        out.append({"kind": k, "classes": 0, "prog": "X",
                    "rows": [[D(DBL_MAX), D(0.0), D(-DBL_MAX), 3], [D(DBL_MAX), D(0.0), D(-DBL_MAX), 0], [D(1.0), D(0.0), D(1.0), 0]]})
        out.append({"kind": k, "classes": 0, "prog": "X", "rows": [[D(1e306), D(0.0), D(-1e306), 0]]})
        out.append({"kind": k, "classes": 0, "prog": "X", "rows": [[D(1e306), D(0.0), D(-1e306), 0]] * 3})
        # strings: numeric, non numeric in the middle (earlier rows keep their increment), bad target under a void output
        out.append({"kind": k, "classes": 0, "prog": "X", "rows": [[S("1.5"), D(0.0), D(1.5), 0], [S("2"), D(0.0), S("4"), 3]]})
        out.append({"kind": k, "classes": 0, "prog": "X",
                    "rows": [[D(5.0), D(0.0), D(1.0), 1], [S("abc"), D(0.0), D(1.0), 2], [D(5.0), D(0.0), D(1.0), 3]]})
        out.append({"kind": k, "classes": 0, "prog": "X", "rows": [["v", D(0.0), S("abc"), 1], [D(1.0), D(0.0), S("1e999"), 2]]})
        out.append({"kind": k, "classes": 0, "prog": "X", "rows": [["i:3", D(0.0), D(3.0), 0], ["i:-7", D(0.0), "i:-7", 0], ["i:2147483647", D(0.0), D(0.0), 0]]})
        # |a| + |t| overflows although 200 * |t - a| does not
        out.append({"kind": k, "classes": 0, "prog": "X", "rows": [[D(1.7e308), D(0.0), D(1.699e308), 0]]})
        out.append({"kind": k, "classes": 0, "prog": "X", "rows": [[D(-9.1e307), D(0.0), D(-9.0e307), 0], [D(1.0), D(0.0), D(2.0), 0]]})
        out.append({"kind": k, "classes": 0, "prog": "X", "rows": [["v", D(0.0), D(1.0), 2 ** 64 - 1], ["v", D(0.0), D(2.0), 7]]})
        out.append({"kind": k, "classes": 0, "prog": "X", "rows": [[D(1.5), D(0.0), D(1.5), 5]] * 4})
        out.append({"kind": k, "classes": 0, "prog": "X", "rows": [[D(0.0), D(0.0), D(0.0), 5], [D(5e-324), D(0.0), D(0.0), 5]]})
        for dlt in (2.0 ** -51, 2.0 ** -51 - 2.0 ** -104, 2.0 ** -51 + 2.0 ** -103, 2.0 ** -52):
            out.append({"kind": k, "classes": 0, "prog": "X", "rows": [[D(dlt), D(0.0), D(0.0), 0], [D(1.0), D(0.0), D(1.0), 1]]})
    for v in (0.0, -0.0, 1.5, -3.5, math.inf, -math.inf, math.nan, DBL_MAX, -DBL_MAX, 5e-324):
        out.append({"kind": "ga", "value": hx(v)})
        for p in (0.0, 2.0, -1.0, 1e300):
            out.append({"kind": "con", "value": hx(v), "penalty": hx(p)})
    for k in ERR_KINDS:
        out.append({"kind": k, "classes": 0, "prog": "T:X+Y",
                    "rows": [[D(1.5e308), D(1.5e308), D(1.5e308), 0], [D(1.7e308), D(0.3e308), D(1.0e308), 3],
                             [D(-1.5e308), D(-1.5e308), D(-1.5e308), 0], [D(1.0), D(3.0), D(2.0), 0]]})
        out.append({"kind": k, "classes": 0, "prog": "T:X+Y", "rows": [["v", "v", D(1.0), 2], [D(4.0), "v", D(4.0), 0], ["v", D(5.0), D(4.0), 0]]})
        out.append({"kind": k, "classes": 0, "prog": "T:X+Y+K:" + hx(1.5e308) + "+X",
                    "rows": [[D(1.5e308), D(1.5e308), D(1.5e308), 0], [D(1.5e308), "v", D(1.5e308), 1]]})
    for k in CLS_KINDS:
        out.append({"kind": k, "classes": 2, "prog": "T:X+Y",
                    "rows": [[D(1.0), D(3.0), "i:1", 0], [D(-1.0), D(-2.0), "i:0", 0], ["v", D(5.0), "i:1", 2], ["v", "v", "i:0", 1]]})
        out.append({"kind": k, "classes": 2, "prog": "T:X+Y", "rows": [[D(1.0), D(-3.0), "i:1", 0], [D(2.0), D(1.0), D(1.0), 4]]})
    out.append({"kind": "tfixed", "ids": [4]})
    out.append({"kind": "tdist", "ids": [7]})
    out.append({"kind": "tdist", "ids": [5, 3, 5, 1, 3, 3, 9, 1, 5]})
    out.append({"kind": "tdist", "ids": list(range(40)) + list(range(39, -1, -1))})
    out.append({"kind": "binary", "classes": 2, "prog": "X",
                "rows": [[D(1.0), D(0.0), "i:1", 0], [D(-1.0), D(0.0), "i:0", 4], [D(0.0), D(0.0), "i:1", 2 ** 64 - 1], ["v", D(0.0), "i:0", 9]]})
    for k in CLS_KINDS:
        out.append({"kind": k, "classes": 2, "prog": "X",
                    "rows": [[D(-1.0), D(0.0), "i:1", 3], [D(1.0), D(0.0), D(1.0), 5], [D(-1.0), D(0.0), "i:1", 7]]})
        out.append({"kind": k, "classes": 2, "prog": "X", "rows": [[D(1.0), D(0.0), "v", 5]]})
        out.append({"kind": k, "classes": 2, "prog": "X", "rows": [[D(1.0), D(0.0), "i:1", 0]]})
        out.append({"kind": k, "classes": 2, "prog": "X", "rows": [[D(1.0), D(0.0), "i:1", 0], [D(-1.0), D(0.0), "i:0", 0]]})
        out.append({"kind": k, "classes": 2, "prog": "X", "rows": [[D(-1.0), D(0.0), "i:1", 0], [D(1.0), D(0.0), "i:0", 0]]})
    out.append({"kind": "binary", "classes": 2, "prog": "X",
                "rows": [[D(1.0), D(0.0), "i:-1", 0], [D(-1.0), D(0.0), "i:0", 4], [D(2.0), D(0.0), "i:2147483647", 1]]})
    return out


def harness_line(c):
    if c["kind"] == "ga":
        return "ga " + c["value"]
    if c["kind"] == "con":
        return "con %s %s" % (c["penalty"], c["value"])
    if c["kind"] in ("tdist", "tfixed"):
        return "%s %s" % (c["kind"], " ".join(str(i) for i in c["ids"]))
    return "%s %d %s %d %s" % (c["kind"], c["classes"], c["prog"], len(c["rows"]),
                               " ".join("%s %s %s %d" % tuple(r) for r in c["rows"]))


def parse_harness(line):
    if line is None or not (line.startswith("fit=") or line.startswith("THROW ")):
        return None
    res = {"fit": [], "outs": [], "diff": [], "frame": 1, "tags": [], "thrown": line.startswith("THROW "), "tags_thrown": False, "casts": [], "mouts": None}
    for w in line.split():
        k, _, v = w.partition("=")
        if k == "fit":
            res["fit"] = [x for x in v.replace("|", ",").split(",") if x]
        elif k == "outs":
            res["outs"] = v.split(",") if v else []
        elif k == "diff":
            res["diff"] = [int(x) for x in v.split(",")] if v else []
        elif k == "frame":
            res["frame"] = int(v)
        elif k == "mouts":
            res["mouts"] = [x.split("/") for x in v.split(",")] if v else []
        elif k == "casts":
            res["casts"] = [tuple(x.split("/")) for x in v.split(",")] if v else []
        elif k == "tags":
            if v == "THROW":
                res["tags_thrown"] = True
            else:
                res["tags"] = [(int(t.split(":")[0]), t.split(":")[1]) for t in v.split(",")] if v else []
    return res


def model_line(c, res):
    if c["kind"] in ("ga", "con", "tdist", "tfixed"):
        return harness_line(c)
    toks = []
    for i, r in enumerate(c["rows"]):
        tg = "-"      # the model builds the classifier itself (C08's model)
        oc, tc = res["casts"][i] if i < len(res["casts"]) else ("-", "-")

        def st(tok, cast):      # a string cell travels with what std::stod answered on it
            return tok + ":" + cast if tok.startswith("s:") and cast != "-" else tok
        ov = "/".join(res["mouts"][i]) if res.get("mouts") is not None else st(res["outs"][i], oc)
        if res.get("mouts") is not None and len(res["mouts"][i]) == 1:
            ov += "/v"          # keep the team syntax for a one member team
        toks.append("%s %s %s %d %s %s" % (st(r[0], oc), r[1], st(r[2], tc), r[3], ov, tg))
    return "%s %d %d %s" % (c["kind"], c["classes"], len(c["rows"]), " ".join(toks))


def nontrivial(c, res):
    if c["kind"] in ("ga", "con", "tdist", "tfixed"):
        return True
    n = len(c["rows"])
    if n == 1:
        return True
    if res.get("thrown") or any(t.startswith("s:") for t in res["outs"]) or res.get("mouts") is not None:
        return True
    outs = [tok_value(t) for t in res["outs"]]
    if any(o is None for o in outs):
        return True
    base = c["kind"].split(".")[0]
    if base in ERR_KINDS:
        for o, r in zip(outs, c["rows"]):
            if r[2].startswith("s:"):
                return True
            t = tok_value(r[2])
            d = abs(o - t)
            if 2.0 ** -53 <= d <= 2.0 ** -50 or d > 1e150 or d != d or abs(o) > 1e150:
                return True
        return False
    wrong = [res["tags"][i][0] != int(c["rows"][i][2][2:]) for i in range(n)]
    return any(wrong) and not all(wrong)


def run_harness(lines):
    """run h_eval; the build cache is shared with the other checks and is
    garbage collected, so rebuild when the executable has disappeared"""
    for attempt in range(3):
        exe = vv.build_harness("h_eval")
        try:
            return pc.run_harness_resilient(exe, lines)
        except FileNotFoundError:
            continue
    raise vv.BuildError("h_eval keeps disappearing from the build cache")


def shrink(case, harness, still_bad_key):
    """greedy removal of rows while the oracle keeps failing with the same key"""
    if "rows" not in case:
        return case
    cur = dict(case)
    budget = 40
    changed = True
    while changed and budget > 0 and len(cur["rows"]) > 1:
        changed = False
        for i in range(len(cur["rows"])):
            cand = dict(cur)
            cand["rows"] = cur["rows"][:i] + cur["rows"][i + 1:]
            budget -= 1
            hout, _ = run_harness([harness_line(cand)])
            res = parse_harness(hout[0])
            if res is not None and any(k == still_bad_key for k, _ in judge(cand, res)):
                cur = cand
                changed = True
                break
            if budget <= 0:
                break
    return cur


def run(ck):
    vv.build_lib("asan")
    res = vv.prove("Properties_C05", vv.FLOCQ_AXIOMS)
    ck.add_proof(res)
    res2 = vv.prove("Refuted_C05", vv.FLOCQ_AXIOMS)
    ck.add_proof(res2)
    ck.trusted += ["coq/Eval/EvalDefs.v is a hand-written model (tie = correspondence only)",
                   "extraction: ExtrOcamlBasic only, no Extract Constant; ocaml/eval_driver.ml + zutil.ml",
                   "harness/h_eval.cc (dataframe built in memory, classes_map_ filled through '#define private public'); "
                   "g++ 12 ASan/UBSan",
                   "the oracle in checks/c05.py (exact rational mean of the documented errors, python floats = IEEE binary64)"]
    ck.assumptions += [
        "program outputs enter the model as an oracle  out : inputs -> void|int|double  (the interpreter is C01/C08); "
        "a string cell carries what std::stod (libc, not modelled) answered on it, as reported by the harness; "
        "non numeric strings are generated for the error evaluators only",
        "dyn_slot / gaussian: the evaluator model builds the classifier with C08's executable model "
        "(coq/Lambda/LambdaDefs.v) and counts the mismatches of that object's tag(); libm atan / exp are Section "
        "variables (realised by glibc in the driver); the generic theorems also hold for any tag function",
        "gaussian bounds assume H_libm (exp(NaN) is NaN, exp(x) in [0,1] for x <= 0), per-class variances NaN or >= 0 "
        "(C08's open Welford gap) and 2 <= classes <= 2^53",
        "counting theorems assume fewer than 2^53 examples (beyond that `++err` on a double stops counting)",
        "the four Flocq/stdlib axioms come with Flocq's binary64 definitions"]

    vv.log("C05 proofs done at %.1fs" % (time.time() - ck.t0))
    harness = vv.build_harness("h_eval")
    model = vv.ocaml_model("Eval")
    vv.log("C05 harness+model built at %.1fs" % (time.time() - ck.t0))

    if ck.replay_path:
        rp = json.load(open(ck.replay_path))
        cases = rp.get("cases") or [rp["case"]]
    else:
        cases = fixed_cases()
        rng = ck.rng
        nerr = 60000 if ck.thorough else 2600
        ncls = 30000 if ck.thorough else 1400
        for _ in range(nerr):
            cases.append(gen_case_err(rng, ck.thorough))
        for _ in range(ncls):
            cases.append(gen_case_cls(rng, ck.thorough))
        for _ in range(12000 if ck.thorough else 500):
            cases.append(gen_team_err(rng, ck.thorough))
        for _ in range(6000 if ck.thorough else 250):
            cases.append(gen_team_cls(rng, ck.thorough))
        for _ in range(2000 if ck.thorough else 60):
            cases.append({"kind": "tdist", "ids": [rng.randint(0, 12) for _ in range(rng.randint(1, 30))]})
        # permutations of one dataset: order sensitivity of the running mean is reported
        perm_groups = []
        for g in range(200 if ck.thorough else 30):
            base = gen_case_err(rng, ck.thorough)
            base["kind"] = base["kind"].split(".")[0]
            grp = [len(cases)]
            cases.append(base)
            for _ in range(3):
                p = dict(base)
                p["rows"] = rng.sample(base["rows"], len(base["rows"]))
                grp.append(len(cases))
                cases.append(p)
            perm_groups.append(grp)

    hlines = [harness_line(c) for c in cases]
    hout, crashes = run_harness(hlines)
    parsed = [parse_harness(h) for h in hout]
    vv.log("C05 harness ran %d cases at %.1fs" % (len(cases), time.time() - ck.t0))
    mlines, midx = [], []
    for k, c in enumerate(cases):
        if parsed[k] is not None:
            midx.append(k)
            mlines.append(model_line(c, parsed[k]))
    rc, mout, merr = vv.run_lines_parallel(model, mlines)
    if rc != 0 or len(mout) != len(mlines):
        raise vv.BuildError("model driver failed: rc=%s %s" % (rc, merr[:500]))
    mres = dict(zip(midx, mout))
    vv.log("C05 model ran at %.1fs" % (time.time() - ck.t0))

    hist = {}
    shrunk_keys = set()
    for k, c in enumerate(cases):
        ck.count()
        hist[c["kind"]] = hist.get(c["kind"], 0) + 1
        ho = hout[k]
        r = parsed[k]
        if r is None:
            if ho is not None and ho.startswith("CRASH"):
                ck.add_violation("%s:sanitizer" % c["kind"].split(".")[0],
                                 "%s evaluator aborts under ASan/UBSan" % c["kind"],
                                 {"case": c, "impl": ho, "sanitizer": crashes.get(k, "")[-1500:]})
            else:
                ck.add_diff({"case": c}, None, ho, what="harness could not run the case")
            continue
        if nontrivial(c, r):
            ck.nontriv(hlines[k])
        mo = mres[k]
        impl_canon = "fit=%s diff=%s" % (",".join(r["fit"]), ",".join(str(x) for x in r["diff"]))
        if r["thrown"]:
            impl_canon = "THROW diff=%s" % ",".join(str(x) for x in r["diff"])
        elif c["kind"] in CLS_KINDS:
            impl_canon += " tags=" + ",".join("%d:%s" % t for t in r["tags"])
        if c["kind"] in ("ga", "con"):
            impl_canon = "fit=%s" % ",".join(r["fit"])
        if c["kind"] in ("tdist", "tfixed"):
            impl_canon = "fit=%s" % "|".join(r["fit"])
        if k < 2 or k % (len(cases) // 4 + 1) == 0:
            ck.sample({"case": harness_line(c)[:300], "impl": ho[:300], "model": mo[:300]})
        verdict = judge(c, r)
        for key, what in verdict:
            if key in shrunk_keys:        # one minimised replay per failing shape is enough
                continue
            shrunk_keys.add(key)
            small = shrink(c, harness, key) if not ck.replay_path else c
            so, _ = run_harness([harness_line(small)])
            sres = parse_harness(so[0])
            if sres is not None:              # describe the minimised case, not the original one
                what = next((w for kk, w in judge(small, sres) if kk == key), what)
            ck.add_violation(key, what, {"case": small, "impl": so[0], "model_on_original_case": mo[:400], "original_case_rows": len(c.get("rows", [])),
                                         "harness_line": harness_line(small)})
        if mo.strip() != impl_canon.strip():
            ck.add_diff({"case": c, "harness_line": hlines[k][:2000]}, mo, impl_canon)
        # identity program: the harness must report the column itself as output
        if c.get("prog") == "X":
            canon = [("d:" + NAN_HEX if (t[0] == "d" and unhx(t[2:]) != unhx(t[2:])) else t) for t in (row[0] for row in c["rows"])]
            if r["outs"] != canon:
                ck.add_diff({"case": c}, canon, r["outs"], what="identity program does not return its column")
    if not ck.replay_path:
        sens = 0
        for grp in perm_groups:
            fits = set(tuple(parsed[i]["fit"]) for i in grp if parsed[i])
            if len(fits) > 1:
                sens += 1
        ck.coverage["order_sensitive_permutation_groups"] = "%d of %d (running mean in binary64 depends on the order; reported, not a violation)" % (sens, len(perm_groups))
    ck.coverage["per_evaluator"] = hist
    ck.coverage["exception_outcomes"] = sum(1 for r in parsed if r and r.get("thrown"))
    ck.coverage["cases_with_string_cells"] = sum(1 for c in cases if any(str(t).startswith("s:") for row in c.get("rows", []) for t in row[:3]))
    return ck.finish(
        rule="fixed boundary cases (overflowing errors, +-DBL_MAX, undefined outputs, issmall edge 2^-51, single row, "
             "difficulty wrap) + seeded random datasets for mae/rmae/mse/count (operator() and fast()), binary/dyn_slot/"
             "gaussian with 2..5 classes (some absent), identity/constant/primitive/random programs, permutations; "
             "non-trivial = single row, or an undefined output, or |output-target| in [2^-53,2^-50] or > 1e150, or a "
             "classification case with both right and wrong examples; distinct = distinct harness input line")
