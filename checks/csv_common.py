"""Shared by C09 and C10 (dataset import): table generators, the RFC-4180 and
XRFF writers, the property oracles (python restatements of the property,
independent of the Coq model), canonicalisation and the harness/model runner."""
import re
import struct
import subprocess

import vv
import prims_common as pc

DELIMS = [44, 59, 9, 58, 124]          # , ; \t : |
WS = " \t\n\v\f\r"
SAFE_LETTERS = "ghjkmqrsuvwzGHJKMQRSUVWZ"   # never part of a strtod literal


def hx(s):
    b = s if isinstance(s, bytes) else s.encode("latin1")
    return b.hex() if b else "-"


def unhx(h):
    return b"" if h in ("-", "") else bytes.fromhex(h)


def dbits(x):
    if x != x:
        return "7ff8000000000000"
    return "%016x" % struct.unpack("<Q", struct.pack("<d", x))[0]


# ------------------------------------------------------------------ output parsing
def items(s, sep):
    parts = s.split(sep)
    assert parts[-1] == "", "unterminated list"
    return parts[:-1]


def parse_out(line):
    """canonical line -> dict; None for CRASH / missing"""
    if line == "SKIPPED":
        return {"kind": "SKIPPED"}
    if line is None or line.startswith("CRASH"):
        return {"kind": "CRASH"}
    w = line.split(" ")
    if w[0] == "EXN":
        r = {"kind": "EXN", "exn": w[1] if len(w) > 1 else "?"}
    elif w[0] == "OOB":
        r = {"kind": "OOB", "site": w[1]}
    elif w[0] == "OK":
        r = {"kind": "OK"}
    elif w[0].startswith("REC="):
        return {"kind": "REC", "rec": [unhx(x) for x in items(w[0][4:], ",")]}
    else:
        return {"kind": "BAD", "text": line}
    for t in w[1:]:
        if t.startswith("ret="):
            r["ret"] = int(t[4:])
        elif t.startswith("COLS="):
            cols = []
            for it in items(t[5:], ";"):
                n, d, st = it.split(":")
                cols.append({"name": unhx(n), "domain": int(d), "states": sorted(unhx(x) for x in items(st, ","))})
            r["cols"] = cols
        elif t.startswith("CLS="):
            cls = {}
            for it in items(t[4:], ","):
                l, i = it.split("=")
                cls[unhx(l)] = int(i)
            r["cls"] = cls
        elif t.startswith("NAMES="):
            r["names"] = [unhx(x) for x in items(t[6:], ",")]
        elif t.startswith("EX="):
            ex = []
            for it in items(t[3:], ";"):
                o, ins = it.split("|")
                ex.append((o, items(ins, ",")))
            r["ex"] = ex
        elif t.startswith("VARS="):
            vs = []
            for it in items(t[5:], ";"):
                n, i, c = it.split(":")
                vs.append((unhx(n), int(i), int(c)))
            r["vars"] = vs
        elif t.startswith("RUN="):
            r["run"] = [items(it, ",") for it in items(t[4:], ";")]
        elif t.startswith("FDLEAK="):
            r["fdleak"] = int(t[7:])
        elif t.startswith("VALID="):
            r["valid"] = t[6:]
        elif t == "TERM-EXN" or t == "TERM-OOB":
            r["term"] = t
    if "DOM" in w:
        k = w.index("DOM")
        r["dom"] = (w[k + 1], w[k + 2])
    return r


def canon(line):
    """comparable form of an output line: sets/maps sorted, DOM dropped"""
    if line is None:
        return "CRASH"
    if line.startswith("CRASH"):
        return "CRASH"
    w = line.split(" ")
    if "DOM" in w:
        w = w[:w.index("DOM")]
    out = []
    for t in w:
        if t.startswith("CLS="):
            out.append("CLS=" + "".join(sorted(x + "," for x in items(t[4:], ","))))
        elif t.startswith("COLS="):
            cs = []
            for it in items(t[5:], ";"):
                n, d, st = it.split(":")
                cs.append("%s:%s:%s;" % (n, d, "".join(sorted(x + "," for x in items(st, ",")))))
            out.append("COLS=" + "".join(cs))
        else:
            out.append(t)
    return " ".join(out)


# ------------------------------------------------------------------ writers
def rfc_field(cell, delim, force_quote):
    d = chr(delim)
    if force_quote or d in cell or '"' in cell:
        return '"' + cell.replace('"', '""') + '"'
    return cell


def render_csv(rows, delim, rng, quote_p=0.25, eol="\n", final_eol=True, blank_lines=False):
    lines = []
    for r in rows:
        lines.append(chr(delim).join(rfc_field(c, delim, rng.random() < quote_p) for c in r))
        if blank_lines and rng.random() < 0.15:
            lines.append(rng.choice(["", "  ", "\t"]))
    txt = eol.join(lines)
    if final_eol:
        txt += eol
    return txt


def xml_escape(s):
    return s.replace("&", "&amp;").replace("<", "&lt;").replace(">", "&gt;").replace('"', "&quot;")


def render_xrff(attrs, rows):
    """attrs: list of dict(name, type, cls (bool), labels)"""
    out = ['<?xml version="1.0" encoding="utf-8"?>', "<dataset name=\"t\">", " <header>", "  <attributes>"]
    for a in attrs:
        c = ' class="yes"' if a.get("cls") else ""
        if a.get("labels"):
            # read_xrff looks for <label> children of <attribute> directly
            out.append('   <attribute name="%s" type="%s"%s>' % (xml_escape(a["name"]), a["type"], c))
            for l in a["labels"]:
                out.append("    <label>%s</label>" % xml_escape(l))
            out.append("   </attribute>")
        else:
            out.append('   <attribute name="%s" type="%s"%s/>' % (xml_escape(a["name"]), a["type"], c))
    out += ["  </attributes>", " </header>", " <body>", "  <instances>"]
    for r in rows:
        out.append("   <instance>" + "".join("<value>%s</value>" % xml_escape(c) for c in r) + "</instance>")
    out += ["  </instances>", " </body>", "</dataset>"]
    return "\n".join(out) + "\n"


# ------------------------------------------------------------------ cell generators
def gen_number(rng, plain=False):
    r = rng.random()
    if plain or r < 0.35:
        s = str(rng.randint(-9999, 9999))
    elif r < 0.6:
        s = "%.*f" % (rng.randint(1, 6), rng.uniform(-1000, 1000))
    elif r < 0.72:
        s = "%de%d" % (rng.randint(-99, 99), rng.randint(-20, 20))
    elif r < 0.8:
        s = "%.3fE%+d" % (rng.uniform(-10, 10), rng.randint(-30, 30))
    elif r < 0.85:
        s = "+" + str(rng.randint(0, 500))
    elif r < 0.9:
        s = rng.choice([".5", "5.", "-.25", "007", "0", "-0", "0.0"])
    elif r < 0.95:
        s = str(rng.randint(10 ** 12, 10 ** 18))
    else:
        s = rng.choice(["1e300", "-1e-300", "2.2250738585072014e-308", "1.7976931348623157e308", "inf", "-inf",
                        "INFINITY", "nan"])
    if not plain and rng.random() < 0.1:
        s = rng.choice([" ", "  ", "\t"]) + s + rng.choice(["", " "])
    return s


def py_number(s):
    """the double a correctly rounding strtod gives for a well-formed literal"""
    return float(s.strip(WS))


def gen_text(rng, delim, tame=False, allow_tab=True):
    n = rng.randint(1, 8)
    if tame:
        alphabet = "abcdefghijklmnopqrstuvwxyzABCDEFGHIJKLMNOPQRSTUVWXYZ0123456789 _-."
    else:
        alphabet = "".join(chr(c) for c in range(32, 127)) + ('"' * 6) + (chr(delim) * 6) + ",;:|" + "   "
        if allow_tab:
            alphabet += "\t"
    s = "".join(rng.choice(alphabet) for _ in range(n))
    k = rng.randint(0, len(s))
    s = s[:k] + rng.choice(SAFE_LETTERS) + s[k:]
    if not tame and rng.random() < 0.15:
        s = " " + s
    if not tame and rng.random() < 0.15:
        s = s + " "
    return s


def inner_blanks(rng, t):
    """XML text with runs of blanks / a tab INSIDE the value (they are part of the value; only the surrounding blanks
    are not)"""
    if len(t) >= 2 and rng.random() < 0.4:
        k = rng.randint(1, len(t) - 1)
        t = t[:k] + rng.choice(["  ", "   ", " \t ", "\t", "  \t  "]) + t[k:]
    return t


def gen_table(rng, delim=None, tame=False, max_cols=6, max_rows=14, allow_void=True, for_xml=False):
    """a well-formed rectangular table (the domain the property quantifies over)"""
    delim = delim if delim is not None else rng.choice(DELIMS)
    ncols = rng.randint(2, max_cols)
    nrows = rng.randint(2, max_rows)
    out = rng.choice([None] + list(range(ncols))) if rng.random() < 0.85 else 0
    kinds = []
    for c in range(ncols):
        r = rng.random()
        kinds.append("num" if r < 0.55 else "text" if r < 0.9 or not allow_void else "void")
    out_kind = None
    if out is not None:
        out_kind = rng.choice(["num", "class"])
        kinds[out] = "num" if out_kind == "num" else "text"
    # at least one non-void input column, the first non-void column keeps rows non-blank
    ins = [c for c in range(ncols) if c != out]
    if all(kinds[c] == "void" for c in ins):
        kinds[ins[0]] = "num"
    labels = [gen_text(rng, delim, tame or for_xml, allow_tab=not for_xml).strip(WS) for _ in range(rng.randint(2, 4))]
    if for_xml:
        labels = [inner_blanks(rng, l) for l in labels]
    labels = list(dict.fromkeys(labels))
    while len(labels) < 2:
        labels.append(labels[0] + "k")
    cells = []
    for r in range(nrows):
        row = []
        for c in range(ncols):
            k = kinds[c]
            if k == "num":
                row.append(gen_number(rng, plain=tame))
            elif k == "void":
                row.append(rng.choice(["", "", " "]) if not for_xml else "")
            elif c == out:
                l = labels[r] if r < 2 else rng.choice(labels)
                if not (tame or for_xml) and rng.random() < 0.1:
                    l = " " + l + " "
                row.append(l)
            else:
                if r > 0 and not tame and not for_xml and rng.random() < 0.05:
                    row.append("")
                else:
                    t = gen_text(rng, delim, tame or for_xml, allow_tab=not for_xml)
                    if for_xml:
                        t = inner_blanks(rng, t.strip(WS))
                    row.append(t)
        if not any(c.strip(WS) for c in row):
            # a row whose cells are all blank is a blank line for the reader when the delimiter is a tab (and is
            # not a data row in any useful sense): keep one non-blank cell per row (hypothesis of
            # C09_records_render_table: blank (render_line d r) = false)
            c0 = next(c for c in range(ncols) if kinds[c] != "void")
            row[c0] = gen_text(rng, delim, tame or for_xml, allow_tab=not for_xml).strip(WS)
        cells.append(row)
    header = None
    if rng.random() < 0.6:
        header = []
        for c in range(ncols):
            nm = gen_text(rng, delim, tame or for_xml, allow_tab=not for_xml)
            if for_xml:
                nm = nm.strip(WS)
            header.append(nm + str(c))
    return {"delim": delim, "ncols": ncols, "nrows": nrows, "out": out, "out_kind": out_kind, "kinds": kinds,
            "cells": cells, "header": header}


# ------------------------------------------------------------------ the property, restated
def expected_frame(t, rows=None):
    """what the property says the frame must be for table t (data rows `rows`)"""
    rows = t["cells"] if rows is None else rows
    out = t["out"]
    ins = [c for c in range(t["ncols"]) if c != out]
    live = [c for c in ins if t["kinds"][c] != "void"]
    ex = []
    cls = {}
    for r in rows:
        inputs = []
        for c in live:
            if t["kinds"][c] == "num":
                inputs.append("d:" + dbits(py_number(r[c])))
            else:
                inputs.append("s:" + r[c].strip(WS).encode("latin1").hex())
        if out is None:
            o = "v"
        elif t["out_kind"] == "num":
            o = "d:" + dbits(py_number(r[out]))
        else:
            lab = r[out].strip(WS).encode("latin1")
            if lab not in cls:
                cls[lab] = len(cls)
            o = "i:%d" % cls[lab]
        ex.append((o, inputs))
    names = None
    if t["header"] is not None:
        h = [x.strip(WS).encode("latin1") for x in t["header"]]
        names = ([b""] if out is None else [h[out]]) + [h[c] for c in ins]
    return {"ex": ex, "cls": cls, "names": names, "ins": ins, "live": live}


def judge_frame(t, got, rows=None, what="csv"):
    """list of (key, message) for every way `got` (parsed output of the real
    code) contradicts the property on table t"""
    bad = []
    exp = expected_frame(t, rows)
    if got["kind"] != "OK":
        return [("%s:not-read" % what, "a well-formed table is not read: %s" % (got.get("exn") or got["kind"]))]
    if got.get("ret") != len(exp["ex"]) or len(got["ex"]) != len(exp["ex"]):
        bad.append(("%s:row-count" % what, "expected %d examples, got ret=%s/%d stored"
                    % (len(exp["ex"]), got.get("ret"), len(got["ex"]))))
        return bad
    for i, (e, g) in enumerate(zip(exp["ex"], got["ex"])):
        if e[1] != g[1]:
            bad.append(("%s:inputs" % what, "row %d: inputs %s, the table says %s" % (i, g[1], e[1])))
            break
        if e[0] != g[0]:
            bad.append(("%s:output" % what, "row %d: output %s, the table says %s" % (i, g[0], e[0])))
            break
    if got["cls"] != exp["cls"]:
        bad.append(("%s:classes" % what, "class map %s, first-appearance numbering of the labels is %s"
                    % (got["cls"], exp["cls"])))
    if "names" in got:
        for lab, i in got["cls"].items():
            if i >= len(got["names"]) or got["names"][i] != lab:
                bad.append(("%s:class-name" % what, "class_name(%d) = %r, the label encoded as %d is %r"
                            % (i, got["names"][i] if i < len(got["names"]) else None, i, lab)))
                break
    if len(set(got["cls"].values())) != len(got["cls"]):
        bad.append(("%s:classes" % what, "two labels share an id: %s" % got["cls"]))
    if exp["names"] is not None:
        gn = [c["name"] for c in got["cols"]]
        if gn != exp["names"]:
            bad.append(("%s:names" % what, "column names %s, header says %s" % (gn, exp["names"])))
    return bad


def judge_vars(t, got, rows=None):
    """variable_i_reads_column_i: setup_terminals generates exactly one variable per input column that has a domain, in
    column order (names need not be distinct, so variables are identified by POSITION, as in the Coq theorem); the
    k-th variable carries the name of the k-th such column (header name, or X<i> when it is empty) and, run on
    example r, returns the value of that cell"""
    bad = []
    exp = expected_frame(t, rows)
    if got["kind"] != "OK" or "vars" not in got:
        return [("prob:no-terminals", "terminals were not set up: %s" % (got.get("term") or got.get("exn") or got["kind"]))]
    names = {}
    for pos, c in enumerate(exp["ins"]):
        col = pos + 1
        nm = exp["names"][col] if exp["names"] is not None else b""
        names[c] = nm if nm else b"X%d" % col
    if len(got["vars"]) != len(exp["live"]):
        return [("prob:variable-binding", "%d variables %s for %d input columns with a domain (names %s)"
                 % (len(got["vars"]), [v[0] for v in got["vars"]], len(exp["live"]), [names[c] for c in exp["live"]]))]
    for k, c in enumerate(exp["live"]):
        if got["vars"][k][0] != names[c]:
            return [("prob:variable-binding", "variable %d is named %r, input column %d is named %r"
                     % (k, got["vars"][k][0], c, names[c]))]
        if got["vars"][k][1] != k:
            return [("prob:variable-binding", "variable %r of input column %d has index %d, its value is input %d"
                     % (names[c], c, got["vars"][k][1], k))]
    for r, runrow in enumerate(got.get("run", [])):
        for k, c in enumerate(exp["live"]):
            v = runrow[k]
            if v != exp["ex"][r][1][k]:
                bad.append(("prob:variable-binding",
                            "variable %d (%r, column %d) run on example %d returns %s; the cell is %s"
                            % (k, names[c], c, r, v, exp["ex"][r][1][k])))
                return bad
    return bad


# ------------------------------------------------------------------ regenerated constants
def regen_consts():
    """coq/Gen/CsvConsts.v from the sources of the tree under test (translate/csv_consts.py).
    returns (regenerated?, problems)"""
    import os
    import sys
    sys.path.insert(0, os.path.join(vv.VERIF, "translate"))
    import csv_consts
    c, problems, text = csv_consts.generate(os.path.join(vv.REPO, "src"))
    if problems or text is None:
        return False, problems or ["translator produced nothing"]
    with vv.Lock("coq"):
        vv.write_if_changed(os.path.join(vv.COQ, "Gen", "CsvConsts.v"), text)
    return True, []


# ------------------------------------------------------------------ running
def build():
    """harness + model.  The C++ build cache under .build/ is shared by all checks and garbage-collected by count
    (3 snapshots, 6 libraries): with many checks running against different worktrees at once, the snapshot or the
    library disappears between the library build and the harness build/link.  That is not a property of the tree
    under test, so the dataset-import checks keep their C++ build products in a sub-directory of their own (same
    code path of vv, only the cache directory differs); the Coq/OCaml side keeps using the shared directory and lock."""
    import os
    old = vv.BUILD
    vv.BUILD = os.path.join(old, "private-csv")
    try:
        h = vv.build_harness("h_csv")
    finally:
        vv.BUILD = old
    return h, vv.ocaml_model("Csv")


def run_resilient(exe, lines, max_restarts=40, timeout=1800):
    """like prims_common.run_harness_resilient, but gives up after `max_restarts` sanitizer aborts in one batch: the
    remaining lines are marked SKIPPED (a tree on which hundreds of cases crash is already reported through the first
    ones; restarting the sanitised harness hundreds of times only costs minutes)"""
    out = [None] * len(lines)
    crashes = {}
    start = 0
    env = vv.san_env()
    restarts = 0
    while start < len(lines):
        p = subprocess.run([exe], input="\n".join(lines[start:]) + "\n", env=env, timeout=timeout,
                           stdout=subprocess.PIPE, stderr=subprocess.PIPE, text=True, errors="replace")
        got = p.stdout.splitlines()
        n = min(len(got), len(lines) - start)
        for i in range(n):
            out[start + i] = got[i]
        if start + n >= len(lines) and p.returncode == 0:
            break
        if start + n >= len(lines):
            crashes[len(lines) - 1] = p.stderr
            out[len(lines) - 1] = "CRASH-AT-EXIT " + (out[len(lines) - 1] or "")
            break
        k = start + n
        out[k] = "CRASH rc=%d" % p.returncode
        crashes[k] = p.stderr
        start = k + 1
        restarts += 1
        if restarts >= max_restarts:
            for j in range(start, len(lines)):
                out[j] = "SKIPPED"
            break
    return out, crashes


def run_pair(harness, model, hlines, mlines=None):
    """returns (harness outputs, crashes, model outputs)"""
    hout, crashes = pc.run_harness_resilient(harness, hlines)
    ml = mlines if mlines is not None else hlines
    rc, mout, merr = vv.run_lines(model, "\n".join(ml) + "\n")
    if rc != 0 or len(mout) != len(ml):
        raise vv.BuildError("model driver failed: rc=%s out=%d/%d %s" % (rc, len(mout), len(ml), merr[:500]))
    return hout, crashes, mout


def xrff_model_lines(hlines, hout, variant="fixed"):
    """second phase for XRFF: the model runs on the DOM the harness dumped"""
    ml = []
    for l, o in zip(hlines, hout):
        w = l.split(" ")
        p = parse_out(o)
        if p.get("dom"):
            ml.append("xrff %s %s %s %s" % (variant, p["dom"][0], p["dom"][1], w[3]))
        else:
            ml.append("xrff %s ERR ERR %s" % (variant, w[3]))
    return ml


def csv_line(text, delim, hdr, trim, out, flt="N", variant="fixed"):
    return "csv %s %s %d %d %d %d %s" % (variant, hx(text), delim, hdr, 1 if trim else 0, -1 if out is None else out, flt)


def shrink_lines(harness, line, still_fails, budget=80):
    """greedy shrinking of the input text of a csv/prob/xrff case: drop text lines (then halve the remaining ones)
    while `still_fails(harness output line or None)` holds.  Returns the smaller case line."""
    w = line.split(" ")
    text = unhx(w[2])

    def run(txt):
        l = " ".join(w[:2] + [hx(txt)] + w[3:])
        out, _ = pc.run_harness_resilient(harness, [l])
        return l, out[0]

    best = line
    parts = text.split(b"\n")
    i = 0
    while i < len(parts) and budget > 0 and len(parts) > 1:
        cand = parts[:i] + parts[i + 1:]
        budget -= 1
        l, o = run(b"\n".join(cand))
        if still_fails(o):
            parts, best = cand, l
        else:
            i += 1
    for i in range(len(parts)):
        while budget > 0 and len(parts[i]) > 1:
            cand = list(parts)
            cand[i] = parts[i][:len(parts[i]) // 2]
            budget -= 1
            l, o = run(b"\n".join(cand))
            if still_fails(o):
                parts, best = cand, l
            else:
                break
    return best


def find_leaking_lines(harness, lines, budget=24):
    """LeakSanitizer reports at process exit: bisect a batch of case lines down to a smallest sub-batch (usually one
    line) whose processing still makes the sanitizers report at exit.  Returns (lines, stderr) or (None, "")."""
    def leaks(ls):
        out, crashes = pc.run_harness_resilient(harness, ls)
        bad = [k for k, o in enumerate(out) if o is not None and o.startswith("CRASH-AT-EXIT")]
        return (True, crashes.get(bad[0], "")) if bad else (False, "")
    cur = list(lines)
    ok, err = leaks(cur)
    if not ok:
        return None, ""
    while len(cur) > 1 and budget > 0:
        half = len(cur) // 2
        budget -= 1
        ok1, e1 = leaks(cur[:half])
        if ok1:
            cur, err = cur[:half], e1
            continue
        budget -= 1
        ok2, e2 = leaks(cur[half:])
        if ok2:
            cur, err = cur[half:], e2
            continue
        break                      # only the combination leaks: keep the current batch
    return cur, err
