"""C17 -- Integer and real vector individuals follow their operator definitions.

proof:  coq/Props/Properties_C17.v about coq/Ga/GaDefs.v, the hand-written model
        of src/kernel/ga/i_ga.cc (constructor, mutation, crossover), i_de.cc
        (constructor, crossover), primitive.h (number::init) and
        individual::set_older_age, over an oracle stream of random draws.
tie:    correspondence -- harness h_ga runs the REAL operators (ASan/UBSan)
        with the H1 draw sink installed; the extracted model replays exactly
        the logged draws (kinds, bounds, values, order) and must produce the
        same individual bit for bit and consume the whole log.
oracle: the property itself evaluated on the implementation's outputs:
        genes inside [lo,hi); crossover child = one contiguous non-empty
        segment of one parent inside the other, parents' length, older age;
        DE trial = target or c + F*(a-b) (IEEE double, bit-exact) for the
        single logged F in the weight interval, last position mutant, ages;
        created real vectors inside the (closed) box.
"""
import json
import math
import struct

import vv
import prims_common as pc

I32_MIN, I32_MAX = -2 ** 31, 2 ** 31 - 1
NAN = "7ff8000000000000"


def hx(x):
    if x != x:
        return NAN
    return "%016x" % struct.unpack("<Q", struct.pack("<d", x))[0]


def fl(h):
    return struct.unpack("<d", struct.pack("<Q", int(h, 16)))[0]


def nextafter(x, up=True):
    return math.nextafter(x, math.inf if up else -math.inf)


def mutant(F, a, b, c):
    """c + F * (a - b) in IEEE binary64, one rounding per operation (what the C++ computes without FMA contraction)"""
    try:
        return c + F * (a - b)
    except OverflowError:       # python raises only for **; + - * never do
        return math.nan


# ----------------------------------------------------------------- oracles (parse the case line itself)
def parse_out(ho):
    """'g v... age A [n N] [INVALID] | draws' -> (genes tokens, age, n, invalid, draws tokens)"""
    res, _, dr = ho.partition("|")
    w = res.split()
    if not w or w[0] != "g":
        return None
    ia = w.index("age")
    genes = w[1:ia]
    age = int(w[ia + 1])
    n = int(w[w.index("n") + 1]) if "n" in w[ia:] else None
    return genes, age, n, "INVALID" in w, dr.split()


def plain(line):
    """decrossa <seed> <alias> ... -> decross <seed> ... (aliasing only says which operands are one C++ object)"""
    w = line.split()
    if w and w[0] == "decrossa":
        return " ".join(["decross", w[1]] + w[3:])
    return line


def judge(line, ho):
    """returns list of (key, what) violations of the property by the implementation's output"""
    alias = line.split()[2] if line.startswith("decrossa") else None
    line = plain(line)
    w = line.split()
    op = w[0]
    out = parse_out(ho)
    if out is None:
        return [("%s:no-result" % op, "%s produced no individual: %s" % (op, ho[:80]))]
    genes, age, cnt, invalid, draws = out
    bad = []
    if invalid:
        bad.append(("%s:is_valid-false" % op, "the result of %s fails is_valid()" % op))
    if op == "gacreate":
        n = int(w[2])
        rg = [(int(w[3 + 2 * i]), int(w[4 + 2 * i])) for i in range(n)]
        g = list(map(int, genes))
        if len(g) != n:
            bad.append(("i_ga:length", "i_ga(problem) has %d genes for %d parameters" % (len(g), n)))
        for i, (v, (lo, hi)) in enumerate(zip(g, rg)):
            if not lo <= v < hi:
                bad.append(("i_ga:gene-out-of-range", "i_ga(problem): gene %d = %d outside [%d,%d)" % (i, v, lo, hi)))
                break
        if age != 0:
            bad.append(("i_ga:age", "new individual has age %d" % age))
    elif op == "gamut":
        n = int(w[3])
        rg = [(int(w[4 + 2 * i]), int(w[5 + 2 * i])) for i in range(n)]
        age0 = int(w[4 + 2 * n])
        g0 = list(map(int, w[5 + 2 * n:5 + 3 * n]))
        g = list(map(int, genes))
        if len(g) != n:
            bad.append(("i_ga::mutation:length", "mutation changed the length %d -> %d" % (n, len(g))))
        for i, (v, (lo, hi)) in enumerate(zip(g, rg)):
            if not lo <= v < hi:
                bad.append(("i_ga::mutation:gene-out-of-range", "mutation: gene %d = %d outside [%d,%d)" % (i, v, lo, hi)))
                break
        if age != age0:
            bad.append(("i_ga::mutation:age", "mutation changed the age %d -> %d" % (age0, age)))
        changed = sum(1 for a, b in zip(g, g0) if a != b)
        if cnt != changed:
            bad.append(("i_ga::mutation:count", "mutation reports %s changed genes, %d differ" % (cnt, changed)))
        p = fl(w[2])
        if p == 0.0 and g != g0:
            bad.append(("i_ga::mutation:p0", "mutation with probability 0 changed the genome"))
    elif op == "gacross":
        n = int(w[2])
        agel = int(w[3])
        l = list(map(int, w[4:4 + n]))
        ager = int(w[4 + n])
        r = list(map(int, w[5 + n:5 + 2 * n]))
        g = list(map(int, genes))
        if len(g) != n:
            bad.append(("crossover(i_ga):length", "child has %d genes, parents %d" % (len(g), n)))
        else:
            ok = any(g == r[:c1] + l[c1:c2] + r[c2:] for c1 in range(0, n) for c2 in range(c1 + 1, n + 1))
            if not ok:
                bad.append(("crossover(i_ga):not-one-segment",
                            "child %s is not rhs %s with one contiguous non-empty segment of lhs %s" % (g, r, l)))
        if age != max(agel, ager):
            bad.append(("crossover(i_ga):age", "child age %d, parents %d and %d" % (age, agel, ager)))
    elif op == "decreate":
        n = int(w[2])
        rg = [(fl(w[3 + 2 * i]), fl(w[4 + 2 * i])) for i in range(n)]
        g = [fl(x) for x in genes]
        if len(g) != n:
            bad.append(("i_de:length", "i_de(problem) has %d genes for %d parameters" % (len(g), n)))
        for i, (v, (lo, hi)) in enumerate(zip(g, rg)):
            if not lo <= v <= hi:
                bad.append(("i_de:outside-box", "i_de(problem): gene %d = %r outside [%r,%r]" % (i, v, lo, hi)))
                break
        if age != 0:
            bad.append(("i_de:age", "new individual has age %d" % age))
    elif op == "decross":
        p, flo, fhi = fl(w[2]), fl(w[3]), fl(w[4])
        n = int(w[5])
        k = 6
        inds = []
        for _ in range(4):
            inds.append((int(w[k]), w[k + 1:k + 1 + n]))
            k += 1 + n
        (aget, t), (agea, a), (ageb, b), (agec, c) = inds
        rdraws = [d for d in draws if d.startswith("r:")]
        if len(genes) != n:
            bad.append(("i_de::crossover:length", "trial has %d genes, parents %d" % (len(genes), n)))
        elif len(rdraws) != 1:
            bad.append(("i_de::crossover:factor-draws", "%d real draws in one crossover (one F per trial expected)" % len(rdraws)))
            # whatever F is, with a == b (finite) the mutant value is c + F*0 = c: the last position must hold the base's value
            if a == b and all(math.isfinite(fl(x)) for x in a) and math.isfinite(flo) and math.isfinite(fhi):
                want = hx(fl(c[n - 1]) + 0.0)
                if genes[n - 1] != want:
                    bad.append(("i_de::crossover:last-not-mutant",
                                "a and b are the same vector, so the last position must be the base's value %s; trial[%d] = %s%s"
                                % (want, n - 1, genes[n - 1], " (operands aliased %s)" % alias if alias else "")))
        else:
            F = fl(rdraws[0].split(":")[3])
            if not flo <= F <= fhi:
                bad.append(("i_de::crossover:factor-range", "F = %r outside the weight interval [%r,%r]" % (F, flo, fhi)))
            mut = [hx(mutant(F, fl(a[i]), fl(b[i]), fl(c[i]))) for i in range(n)]
            tt = [NAN if fl(x) != fl(x) else x for x in t]
            for i in range(n):
                if genes[i] == mut[i]:
                    continue
                if i < n - 1 and genes[i] == tt[i]:
                    if p == 1.0:
                        bad.append(("i_de::crossover:p1", "p = 1 but position %d keeps the target's value" % i))
                        break
                    continue
                bad.append(("i_de::crossover:last-not-mutant" if i == n - 1 else "i_de::crossover:formula",
                            "trial[%d] = %s is neither target %s nor c + F*(a-b) = %s (F = %s)"
                            % (i, genes[i], tt[i], mut[i], hx(F))))
                break
            if p == 0.0 and genes[:n - 1] != tt[:n - 1]:
                bad.append(("i_de::crossover:p0", "p = 0 but a position before the last differs from the target"))
        if age != max(aget, agea, ageb, agec):
            bad.append(("i_de::crossover:age", "trial age %d, ages %s" % (age, [aget, agea, ageb, agec])))
    return bad


def nontrivial(line, ho):
    if line.startswith("decrossa"):
        out = parse_out(ho)
        return ("decrossa", line) if out is not None else None
    w = line.split()
    out = parse_out(ho)
    if out is None:
        return None
    genes, age, cnt, _, draws = out
    op = w[0]
    if op == "gamut":
        return (op, line) if cnt else None
    if op == "gacross":
        n = int(w[2])
        l, r = w[4:4 + n], w[5 + n:5 + 2 * n]
        return (op, tuple(genes), tuple(l), tuple(r)) if genes != r and genes != l else None
    if op == "decross":
        n = int(w[5])
        t = w[7:7 + n]
        kept = sum(1 for i in range(n) if genes[i] == t[i])
        return (op, line) if 0 < kept < n or n == 1 else None
    return (op, line)


# ----------------------------------------------------------------- generators
def int_ranges(rng, n):
    kind = rng.random()
    out = []
    for _ in range(n):
        r = rng.random() if kind > 0.5 else kind * 2
        if r < 0.15:
            lo = rng.randint(-5, 5); hi = lo + 1                        # a single admissible value
        elif r < 0.3:
            lo = rng.randint(-1000, -1); hi = lo + rng.randint(1, 3)    # negative, tiny
        elif r < 0.45:
            lo, hi = I32_MIN, I32_MAX                                   # huge
        elif r < 0.55:
            lo = I32_MAX - rng.randint(1, 3); hi = I32_MAX              # at the top of the type
        elif r < 0.65:
            lo = I32_MIN; hi = I32_MIN + rng.randint(1, 3)
        elif r < 0.8:
            lo = rng.randint(-100, 100); hi = lo + rng.randint(1, 20)
        else:
            lo = rng.randint(I32_MIN, I32_MAX - 1); hi = rng.randint(lo + 1, I32_MAX)
        out.append((lo, hi))
    return out


def real_ranges(rng, n):
    out = []
    for _ in range(n):
        r = rng.random()
        if r < 0.2:
            lo = rng.choice([0.0, 1.0, -1.0, 1e-300, 123.456]); hi = nextafter(lo)      # one ulp wide
        elif r < 0.35:
            lo = -rng.random() * 10; hi = lo + rng.random() + 1e-9
        elif r < 0.45:
            lo, hi = -1e308, 1e308                                                       # hi - lo overflows
        elif r < 0.55:
            lo = 5e-324 * rng.randint(0, 3); hi = 5e-324 * rng.randint(4, 9)             # subnormal
        elif r < 0.65:
            lo = 1e300; hi = 1.5e300
        elif r < 0.75:
            lo = -0.0; hi = rng.choice([5e-324, 1.0])
        else:
            lo = rng.uniform(-1000, 1000); hi = lo + rng.choice([1e-6, 1.0, 50.0, 1e6])
        out.append((lo, hi))
    return out


P_VALUES = [0.0, 0.1, 0.5, 1.0, 0.9999999999999999, 5e-324, 0.3]
F_RANGES = [(0.5, 1.0), (0.0, 2.0), (0.9, nextafter(0.9)), (-1.0, -0.5), (1e-300, 2e-300), (1e150, 1e160), (0.0, 5e-324),
            (0.5, 0.5000001)]
AGES = [0, 0, 1, 2, 7, 100, 4294967295]


def special_real(rng, lo, hi):
    r = rng.random()
    if r < 0.6:
        return rng.uniform(lo, hi) if math.isfinite(hi - lo) else rng.choice([lo, hi, 0.0])
    return rng.choice([lo, hi, 0.0, -0.0, 1e308, -1e308, 5e-324, 1.0, -1.0, 1e-310, 3.0, 0.1])


def first_round(ck, probs_i, probs_r):
    rng = ck.rng
    lines = []
    for pid, rg in enumerate(probs_i):
        for _ in range(3):
            lines.append(("gacreate %d %d %s" % (rng.getrandbits(32), len(rg), " ".join("%d %d" % r for r in rg)), ("i", pid)))
    for pid, rg in enumerate(probs_r):
        for _ in range(4):
            lines.append(("decreate %d %d %s" % (rng.getrandbits(32), len(rg), " ".join("%s %s" % (hx(a), hx(b)) for a, b in rg)),
                          ("r", pid)))
    return lines


def next_round(ck, probs_i, pops_i, probs_r, pops_r):
    rng = ck.rng
    lines = []
    for pid, rg in enumerate(probs_i):
        pop = pops_i[pid]
        if not pop:
            continue
        n = len(rg)
        for _ in range(3):
            g, age = rng.choice(pop)
            if rng.random() < 0.3:
                age = rng.choice(AGES)
            pgm = rng.choice(P_VALUES)
            lines.append(("gamut %d %s %d %s %d %s" % (rng.getrandbits(32), hx(pgm), n, " ".join("%d %d" % r for r in rg), age,
                                                       " ".join(map(str, g))), ("i", pid)))
        if n >= 2:
            for _ in range(3):
                (l, al), (r, ar) = rng.choice(pop), rng.choice(pop)
                if rng.random() < 0.4:
                    al, ar = rng.choice(AGES), rng.choice(AGES)
                lines.append(("gacross %d %d %d %s %d %s" % (rng.getrandbits(32), n, al, " ".join(map(str, l)), ar,
                                                             " ".join(map(str, r))), ("i", pid)))
    for pid, rg in enumerate(probs_r):
        pop = pops_r[pid]
        if not pop:
            continue
        n = len(rg)
        for _ in range(4):
            inds = [rng.choice(pop) for _ in range(4)]
            if rng.random() < 0.25:       # hand-made vectors with special values (signed zeros, overflow, subnormals)
                inds = [([hx(special_real(rng, lo, hi)) for lo, hi in rg], rng.choice(AGES)) for _ in range(4)]
            p = rng.choice(P_VALUES)
            flo, fhi = rng.choice(F_RANGES)
            if rng.random() < 0.35:
                # aliased operands (recombination::de draws a and b independently: they can be the same individual, and
                # any of them can be the target or the base).  Roles: target, a, b, c -> object index
                al = rng.choice(["0112", "0111", "0120", "0012", "0100", "0110", "0000", "0121", "0123", "0122"])
                first = {}
                roles = []
                for r, d in enumerate(al):
                    first.setdefault(d, inds[r])
                    roles.append(first[d])
                ages = {}
                role_inds = []
                for r, d in enumerate(al):
                    ages.setdefault(d, rng.choice(AGES) if rng.random() < 0.3 else roles[r][1])
                    role_inds.append((roles[r][0], ages[d]))
                # the line lists target, a, b, c in this order (aliased roles carry identical data); the harness passes
                # ONE object for all roles that share a digit of <alias>
                lines.append(("decrossa %d %s %s %s %s %d %s" % (rng.getrandbits(32), al, hx(p), hx(flo), hx(fhi), n,
                                                                " ".join("%d %s" % (a, " ".join(g)) for g, a in role_inds)),
                              ("r", pid)))
                continue
            lines.append(("decross %d %s %s %s %d %s" % (rng.getrandbits(32), hx(p), hx(flo), hx(fhi), n,
                                                         " ".join("%d %s" % (rng.choice(AGES) if rng.random() < 0.3 else a, " ".join(g))
                                                                  for g, a in inds)), ("r", pid)))
    return lines


def shrink_creation(harness, line, key):
    """a creation case reduced to the single interval that fails (same seed), if that still fails"""
    w = line.split()
    n = int(w[2])
    cands = ["%s %s 1 %s %s" % (w[0], w[1], w[3 + 2 * i], w[4 + 2 * i]) for i in range(n)]
    out, _ = pc.run_harness_resilient(harness, cands)
    for l, ho in zip(cands, out):
        if ho and not ho.startswith("CRASH") and any(k == key for k, _ in judge(l, ho)):
            return l
    return None


# ----------------------------------------------------------------- run
def execute(ck, harness, model, lines, hist):
    """run harness, replay its draws through the model, judge; returns the harness outputs"""
    hout, crashes = pc.run_harness_resilient(harness, lines)
    ml, idx = [], []
    for i, (l, ho) in enumerate(zip(lines, hout)):
        if ho and not ho.startswith(("CRASH", "BADLINE")) and "|" in ho:
            ml.append(l + " |" + ho.split("|", 1)[1])
            idx.append(i)
    rc, mo, merr = vv.run_lines(model, "\n".join(ml) + "\n") if ml else (0, [], "")
    if rc != 0 or len(mo) != len(ml):
        raise vv.BuildError("model driver failed: rc=%s %s" % (rc, merr[:500]))
    mout = dict(zip(idx, mo))
    # seed-driven mode: the model gets the case line only (its seed) and produces the draws itself through the modelled
    # engine + libstdc++ distributions; it must arrive at the same individual AND at the same draws as the real run
    sl = [lines[i] + " | SEED" for i in idx]
    rc, so, serr = vv.run_lines(model, "\n".join(sl) + "\n") if sl else (0, [], "")
    if rc != 0 or len(so) != len(sl):
        raise vv.BuildError("model driver (seeded mode) failed: rc=%s %s" % (rc, serr[:500]))
    sout = dict(zip(idx, so))
    for i, (l, ho) in enumerate(zip(lines, hout)):
        ck.count()
        op = l.split()[0]
        hist[op] = hist.get(op, 0) + 1
        if ho is None or ho.startswith("CRASH"):
            ck.add_violation("%s:undefined-behaviour" % op, "%s executes undefined behaviour (sanitizer report)" % op,
                             {"cases": [l], "impl": ho, "sanitizer": crashes.get(i, "")[-1500:]})
            continue
        if ho.startswith("BADLINE"):
            ck.add_diff({"line": l}, None, ho, what="harness rejected the case")
            continue
        for key, what in judge(l, ho):
            small = shrink_creation(harness, l, key) if op in ("gacreate", "decreate") else None
            ck.add_violation(key, what, {"cases": [small or l], "found_with": l if small else None,
                                         "impl": ho, "model": mout.get(i)})
        nt = nontrivial(l, ho)
        if nt:
            ck.nontriv(nt)
        # correspondence: same individual, whole log consumed
        res = ho.split("|")[0].split()
        m = (mout.get(i) or "").split()
        mres = m[:m.index("cuts")] if "cuts" in m else m[:m.index("F")] if "F" in m else m[:m.index("rest")] if "rest" in m else m
        mrest = m[m.index("rest") + 1] if "rest" in m else None
        if [x for x in res if x != "INVALID"] != mres or mrest != "0":
            ck.add_diff({"line": l, "draws": ho.split("|", 1)[1][:400]}, mout.get(i), ho.split("|")[0].strip())
        s = sout.get(i)
        if s is not None:
            ck.count()
            hist["seeded"] = hist.get("seeded", 0) + 1
            sres, _, strace = s.partition("|")
            sw = sres.split()
            sw = sw[:sw.index("rest")] if "rest" in sw else sw
            if [x for x in res if x != "INVALID"] != sw or strace.split() != ho.split("|", 1)[1].split():
                ck.add_diff({"line": l, "mode": "seeded"}, s[:600], ho[:600],
                            what="run from the seed through the modelled engine and distributions: individual or draws differ")
            else:
                ck.coverage["draws_predicted_from_seed"] = ck.coverage.get("draws_predicted_from_seed", 0) + len(strace.split())
        if ck.evaluations % 97 == 1:
            ck.sample({"case": l[:160], "impl": ho[:260], "model": (mout.get(i) or "")[:200]})
    return hout


def accessor_cases(ck, harness, model, hist):
    """the other public members (size, empty, operator[] read/write, vector conversion, ==, inc_age, i_de::operator=):
    harness vs model line by line, and the property-level facts on the implementation's output"""
    rng = ck.rng
    lines = []
    for _ in range(300 if ck.thorough else 60):
        n = rng.choice([1, 2, 3, 8, 40])
        g = [rng.choice([0, 1, -1, I32_MIN, I32_MAX, rng.randint(-1000, 1000)]) for _ in range(n)]
        i = rng.choice([0, n - 1, rng.randrange(n), n, n + 3])
        v = rng.choice([g[min(i, n - 1)], I32_MIN, I32_MAX, rng.randint(-50, 50)])
        lines.append("gaacc 0 %d %d %s %d %d" % (n, rng.choice(AGES), " ".join(map(str, g)), i, v))
        specials = [0.0, -0.0, 1.0, math.nan, math.inf, -math.inf, 5e-324, 1e308]
        gd = [rng.choice(specials + [rng.uniform(-10, 10)]) for _ in range(n)]
        m = rng.choice([n, n, n, n + 1, max(0, n - 1)])
        w = [rng.choice(specials + [rng.uniform(-10, 10)]) for _ in range(m)]
        if m == n and rng.random() < 0.3:
            w = list(gd)
        lines.append("deacc 0 %d %d %s %d %s %d %s" % (n, rng.choice(AGES), " ".join(map(hx, gd)), i,
                                                       hx(rng.choice(specials + [gd[min(i, n - 1)]])), m, " ".join(map(hx, w))))
    hout, crashes = pc.run_harness_resilient(harness, lines)
    rc, mout, merr = vv.run_lines(model, "\n".join(l + " |" for l in lines) + "\n")
    if rc != 0 or len(mout) != len(lines):
        raise vv.BuildError("model driver failed on accessor cases: rc=%s %s" % (rc, merr[:500]))
    for k, (l, ho, mo) in enumerate(zip(lines, hout, mout)):
        ck.count()
        op = l.split()[0]
        hist[op] = hist.get(op, 0) + 1
        if ho is None or ho.startswith("CRASH"):
            ck.add_violation("%s:undefined-behaviour" % op, "%s executes undefined behaviour (sanitizer report)" % op,
                             {"cases": [l], "impl": ho, "sanitizer": crashes.get(k, "")[-1500:]})
            continue
        if ho != mo:
            ck.add_diff({"line": l}, mo, ho)
        w = l.split()
        n, age = int(w[2]), int(w[3])
        i = int(w[4 + n])
        f = ho.split()
        if int(f[f.index("size") + 1]) != n:
            ck.add_violation("%s:size" % op, "size() = %s for %d genes" % (f[f.index("size") + 1], n), {"cases": [l], "impl": ho})
        if i < n:
            got = f[f.index("get") + 1]
            if got != (w[4 + i] if op == "gaacc" else (NAN if fl(w[4 + i]) != fl(w[4 + i]) else w[4 + i])):
                ck.add_violation("%s:operator[]-read" % op, "x[%d] reads %s, gene is %s" % (i, got, w[4 + i]), {"cases": [l], "impl": ho})
            s = f.index("set")
            newg = f[s + 2:s + 2 + n]
            vtok = w[5 + n] if op == "gaacc" else (NAN if fl(w[5 + n]) != fl(w[5 + n]) else w[5 + n])
            want = [x if op == "gaacc" else (NAN if fl(x) != fl(x) else x) for x in w[4:4 + n]]
            want[i] = vtok
            if newg != want or f[s + 2 + n:s + 4 + n] != ["age", str(age)]:
                ck.add_violation("%s:operator[]-write" % op, "x[%d] = v changed the individual to %s (age %s), expected %s (age %d)"
                                 % (i, newg, f[s + 3 + n:s + 4 + n], want, age), {"cases": [l], "impl": ho})
            ck.nontriv((op, l))
        if int(f[f.index("incage") + 1]) != (age + 1) % 2 ** 32:
            ck.add_violation("%s:inc_age" % op, "inc_age: %d -> %s" % (age, f[f.index("incage") + 1]), {"cases": [l], "impl": ho})


def run(ck):
    vv.build_lib("asan")
    res = vv.prove("Properties_C17", vv.FLOCQ_AXIOMS)
    ck.add_proof(res)
    ck.add_proof(vv.prove("Refuted_C17", vv.FLOCQ_AXIOMS))
    ck.add_proof(vv.prove("Seeded_C17", vv.FLOCQ_AXIOMS))
    ck.trusted += ["coq/Ga/GaDefs.v is a hand-written model of i_ga.cc / i_de.cc / primitive.h / set_older_age (tie: correspondence only)",
                   "coq/Base/F64.v (Flocq binary64) as the meaning of C++ double +, -, * (no FMA contraction on x86-64 without -mfma)",
                   "extraction: ExtrOcamlBasic only, no Extract Constant; ocaml/ga_driver.ml + zutil.ml",
                   "harness/h_ga.cc (builds individuals through `#define private public`), hook H1 as the log of the draws",
                   "g++ 12 ASan/UBSan as the detector of executed undefined behaviour"]
    ck.assumptions += [
        "H_draws (contract of vita::random over libstdc++, checked on every logged draw by the model's acceptance test): "
        "between<int>(lo,hi) in [lo,hi); between<double>(lo,hi) in [lo,hi] (closed at the top); boolean(0)=false; boolean(1)=true",
        "a ga/de problem has exactly one terminal of weight 100 per category (roulette draw in [0,100) always selects it)",
        "preconditions taken from the source (Expects): equal lengths, >= 2 genes for the i_ga crossover, >= 1 for i_de, lo < hi",
        "the axioms printed for the i_de theorems are the four standard-library axioms that come with Flocq's definitions",
    ]
    harness = vv.build_harness("h_ga")
    model = vv.ocaml_model("Ga")
    hist = {}

    if ck.replay_path:
        rp = json.load(open(ck.replay_path))
        lines = rp.get("cases", [])
        execute(ck, harness, model, [l for l in lines if not l.startswith("garun")], hist)
        for l in [l for l in lines if l.startswith("garun")]:
            ho = (pc.run_harness_resilient(harness, [l])[0][0] or "CRASH")
            ck.count()
            if ho.startswith("CRASH"):
                ck.add_violation("garun:undefined-behaviour", "ga_search executes undefined behaviour", {"cases": [l], "impl": ho})
            elif ho.startswith("BAD "):
                ck.add_violation("ga_search:gene-out-of-range", "inside ga_search: " + ho[4:], {"cases": [l], "impl": ho})
    else:
        rng = ck.rng
        T = 40 if ck.thorough else 1
        lens = [1, 2, 2, 3, 4, 5, 8, 13, 40] + [rng.randint(2, 40) for _ in range(6 * T)]
        probs_i = [int_ranges(rng, n) for n in lens for _ in range(2)]
        probs_r = [real_ranges(rng, n) for n in lens for _ in range(2)]
        pops_i = [[] for _ in probs_i]
        pops_r = [[] for _ in probs_r]
        rounds = 8 if ck.thorough else 4
        cur = first_round(ck, probs_i, probs_r)
        for rd in range(rounds):
            lines = [l for l, _ in cur]
            hout = execute(ck, harness, model, lines, hist)
            for (l, (kind, pid)), ho in zip(cur, hout):
                out = parse_out(ho or "")
                if out is None:
                    continue
                genes, age = out[0], out[1]
                if kind == "i":
                    pops_i[pid].append((list(map(int, genes)), age))
                else:
                    pops_r[pid].append((genes, age))
            if ck.violations:
                break
            cur = next_round(ck, probs_i, pops_i, probs_r, pops_r)
        # in situ (implementation only, judged by the oracle): the operators as ga_search drives them
        runs = []
        for _ in range(12 * T):
            n = rng.choice([2, 3, 5, 8, 20])
            # at least one position must admit three values: recombination::base re-mutates a child that equals a parent
            # until it differs, which never ends when no gene can change (a liveness matter outside this property)
            rg = int_ranges(rng, n)
            k = rng.randrange(n)
            if all(hi - lo < 3 for lo, hi in rg):   # (two values are not enough: the child must differ from BOTH parents)
                lo = min(max(rg[k][0] - 7, I32_MIN), I32_MAX - 16)
                rg[k] = (lo, lo + 16)
            runs.append("garun %d %d %d %s %s %d %s" % (rng.getrandbits(32), rng.randint(2, 8), rng.choice([6, 10, 30]),
                                                        hx(rng.choice([0.0, 0.5, 0.9, 1.0])), hx(rng.choice([0.0, 0.04, 0.5, 1.0])),
                                                        n, " ".join("%d %d" % r for r in rg)))
        # histories of DE searches in ONE process with different control parameters: every F must be drawn from the weight
        # interval configured for THAT run and every crossover choice with THAT run's probability
        druns = []
        WS = [(0.5, 1.0), (0.0, 2.0), (0.1, 0.2), (1.5, 1.75), (0.9, 0.95)]
        for _ in range(6 * T):
            k = rng.choice([2, 3])
            cfg = []
            ws = rng.sample(WS, k)
            for j in range(k):
                cfg.append((rng.choice([0.1, 0.3, 0.6, 0.9]) + j * 0.01, ws[j][0], ws[j][1]))
            druns.append(("deruns %d %d %d %d %s" % (rng.getrandbits(32), rng.randint(2, 4), rng.choice([8, 12]), k,
                                                     " ".join("%s %s %s" % (hx(p), hx(a), hx(b)) for p, a, b in cfg)), cfg))
        dout, dcr = pc.run_harness_resilient(harness, [l for l, _ in druns], timeout=100)
        for i, ((l, cfg), ho) in enumerate(zip(druns, dout)):
            ck.count()
            hist["deruns"] = hist.get("deruns", 0) + 1
            if ho is None or ho.startswith("CRASH"):
                ck.add_violation("deruns:undefined-behaviour", "de_search executes undefined behaviour (sanitizer report)",
                                 {"cases": [l], "impl": ho, "sanitizer": dcr.get(i, "")[-1500:]})
                continue
            parts = [x.strip() for x in ho.split(";") if x.strip()]
            if len(parts) != len(cfg):
                ck.add_diff({"line": l}, None, ho, what="harness rejected the case")
                continue
            for j, (part, (p, a, b)) in enumerate(zip(parts, cfg)):
                rtok = part.split(" B")[0].split()[1:]
                btok = part.split(" B")[1].split() if " B" in part else []
                if rtok:
                    ck.nontriv(("deruns", l, j))
                wrong = [x for x in rtok if x != "%s:%s" % (hx(a), hx(b))]
                if wrong:
                    ck.add_violation("recombination::de:weight-interval",
                                     "DE search #%d of one process is configured with the weight interval [%r, %r) but draws F from %s"
                                     % (j, a, b, [tuple(fl(y) for y in x.split(":")) for x in wrong]), {"cases": [l], "impl": ho})
                    break
                wrongp = [x for x in btok if x != hx(p)]
                if wrongp:
                    ck.add_violation("recombination::de:crossover-probability",
                                     "DE search #%d of one process is configured with p_cross = %r but draws its choices with %s"
                                     % (j, p, [fl(x) for x in wrongp]), {"cases": [l], "impl": ho})
                    break
        import subprocess
        try:
            rout, rcr = pc.run_harness_resilient(harness, runs, timeout=100)
        except subprocess.TimeoutExpired:
            rout, rcr = ["TIMEOUT"] * len(runs), {}
            ck.notes.append("in-situ ga_search runs did not finish within 100 s (not judged)")
        for i, (l, ho) in enumerate(zip(runs, rout)):
            ck.count()
            hist["garun"] = hist.get("garun", 0) + 1
            if ho is None or ho.startswith("CRASH"):
                ck.add_violation("garun:undefined-behaviour", "ga_search executes undefined behaviour (sanitizer report)",
                                 {"cases": [l], "impl": ho, "sanitizer": rcr.get(i, "")[-1500:]})
            elif ho.startswith("BAD "):
                ck.add_violation("ga_search:gene-out-of-range", "inside ga_search: " + ho[4:], {"cases": [l], "impl": ho})
            elif ho.startswith("OK "):
                if int(ho.split()[2]) > 0:
                    ck.nontriv(("garun", l))
            elif ho != "TIMEOUT":
                ck.add_diff({"line": l}, None, ho, what="harness rejected the case")
        accessor_cases(ck, harness, model, hist)
        ck.coverage["rounds_of_operator_sequences"] = rounds
        ck.coverage["problems"] = {"integer": len(probs_i), "real": len(probs_r), "lengths": sorted(set(lens))}
    ck.coverage["per_operation"] = hist
    return ck.finish(
        rule="problems: interval lists (single value, negative tiny, full int range, at INT_MIN/INT_MAX, mixed; reals: one ulp, "
             "subnormal, +-1e308, signed zero) x lengths 1..40; round 0 creates individuals, each later round applies mutation "
             "(p in {0,.1,.3,.5,1-,1,denormal}) and crossover to results of earlier rounds (operator sequences), DE crossover with "
             "p in the same set and weight intervals {[.5,1),[0,2),one ulp,negative,tiny,huge}; every case uses its own seed. "
             "non-trivial = creation; mutation that changed a gene; crossover whose child differs from both parents; DE trial that "
             "mixes target and mutant positions (or has a single gene)")
