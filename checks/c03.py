"""C03 -- A signature identifies the active program and is never stale.

proof:  coq/Props/Properties_C03.v (+ Refuted_C03.v) about coq/Sig/SigDefs.v:
        pack = prefix-free code of the active tree, signature = function of the
        tree only, cache invariant over all histories of public mutators of
        i_mep / i_ga / i_de / team, team signature = ordered fold of combine.
tie:    correspondence: harness h_sig (REAL code, ASan/UBSan) vs the extracted
        model (ocaml/sig_driver.ml) on generated individuals and histories:
        the 128-bit signatures, the raw cached member and every return value
        are compared numerically after every operation.
oracle: evaluated on the implementation's outputs only:
          never-stale   raw == 0 or raw == signature of a from-scratch rebuild,
                        signature() == from-scratch signature
          tree <-> sig  same expression tree => same signature (layouts,
                        introns, shared sub-DAGs); different tree => different
                        signature (A_hash: a collision is reported)
          team          signature == ordered fold of combine over the members
"""
import json
import os

import subprocess

import vv

M64 = 1 << 64
ZERO = "0000000000000000:0000000000000000"

PAR_POOL = ["0000000000000000", "8000000000000000", "3ff0000000000000", "3ff000001ad7f29b",
            "bff8000000000000", "400a000000000000", "7e37e43c8800759c", "0000000000000001",
            "7ff0000000000000", "3ff0000000000001", "4000000000000000", "c000000000000000"]
DE_POOL = PAR_POOL + ["fff0000000000000", "7fefffffffffffff", "0010000000000000", "3fb999999999999a"]


# ------------------------------------------------------------------ symbols
class Sym:
    def __init__(self, tok):
        f = tok.split(":")
        self.k = int(f[0])
        self.opcode = int(f[1])
        self.cat = int(f[2])
        self.par = f[3] == "1"
        self.argcats = [] if f[4] == "-" else [int(a) for a in f[4].split(",")]
        self.set = int(f[5])


class World:
    def __init__(self, syms_line):
        self.line = syms_line
        self.syms = [Sym(t) for t in syms_line.split()[1:]]
        self.by_set = {1: [s for s in self.syms if s.set == 1], 2: [s for s in self.syms if s.set == 2]}

    def pick(self, rng, sset, cat, terminal=None, maxarity=None):
        c = [s for s in self.by_set[sset] if s.cat == cat
             and (terminal is None or (len(s.argcats) == 0) == terminal)
             and (maxarity is None or len(s.argcats) <= maxarity)]
        return rng.choice(c)


def gene_tok(s, par, args):
    return "%d:%s:%s" % (s.k, par if s.par else "-", ",".join(str(a) for a in args) if args else "-")


def rand_gene(W, rng, sset, cat, row, rows):
    """a well-formed gene for cell (row, cat): arguments point below"""
    if row >= rows - 1:
        s = W.pick(rng, sset, cat, terminal=True)
    else:
        s = W.pick(rng, sset, cat)
    args = [rng.randrange(row + 1, rows) for _ in s.argcats]
    return gene_tok(s, rng.choice(PAR_POOL), args)


# ------------------------------------------------------------ trees, layouts
def gen_tree(W, rng, sset, cat, depth):
    s = W.pick(rng, sset, cat, terminal=True) if depth <= 0 or rng.random() < 0.25 else W.pick(rng, sset, cat)
    return (s, rng.choice(PAR_POOL) if s.par else None, [gen_tree(W, rng, sset, c, depth - 1) for c in s.argcats])


def canon(t):
    s, p, kids = t
    return "%d%s(%s)" % (s.k, (":" + p) if s.par else "", ",".join(canon(k) for k in kids))


def tree_size(t):
    return 1 + sum(tree_size(k) for k in t[2])


def variant(W, rng, t):
    """a tree differing from t in exactly one symbol or one constant bit"""
    nodes = []

    def walk(n, path):
        nodes.append(path)
        for i, k in enumerate(n[2]):
            walk(k, path + [i])
    walk(t, [])
    target = rng.choice(nodes)

    def rebuild(n, path):
        s, p, kids = n
        if not path:
            if s.par and rng.random() < 0.6:
                # (NaN payloads are outside the model: Flocq's BinarySingleNaN has one NaN;
                # no shipped terminal::init() produces a NaN parameter)
                while True:
                    v = int(p, 16) ^ (1 << rng.randrange(64))
                    if not ((v >> 52) & 0x7ff == 0x7ff and v & ((1 << 52) - 1)):
                        break
                return (s, "%016x" % v, kids), True
            alts = [a for a in W.by_set[s.set] if a.k != s.k and a.cat == s.cat and a.argcats == s.argcats]
            if not alts:
                return n, False
            a = rng.choice(alts)
            return (a, rng.choice(PAR_POOL) if a.par else None, kids), True
        i = path[0]
        nk, ok = rebuild(kids[i], path[1:])
        return (s, p, kids[:i] + [nk] + kids[i + 1:]), ok
    return rebuild(t, target)


def layout(W, rng, sset, t, share, extra):
    """lay the tree out on a genome: every node gets a row larger than its
    parent's; identical subtrees may share one cell (share); the remaining
    cells are introns.  returns (ncats, rows, best, cells dict)"""
    ncats = 2 if sset == 2 else 1
    # nodes in a random topological order (parents first)
    order = []
    shared = {}
    frontier = [(t, None, None)]     # (node, parent id, arg index)
    info = []                        # id -> [node, row, args rows]
    while frontier:
        node, par, ai = frontier.pop(rng.randrange(len(frontier)))
        key = canon(node)
        if share and key in shared and par is not None and info[shared[key]][1] > info[par][1] and rng.random() < 0.7:
            info[par][2][ai] = shared[key]
            continue
        nid = len(info)
        prev = info[-1][1] if info else -1
        row = prev + 1 + (rng.randrange(3) if extra else 0)
        info.append([node, row, [None] * len(node[2])])
        shared.setdefault(key, nid)
        if par is not None:
            info[par][2][ai] = nid
        for i, k in enumerate(node[2]):
            frontier.append((k, nid, i))
    rows = info[-1][1] + 1 + (rng.randrange(3) if extra else 0)
    cells = {}
    for node, row, kids in info:
        s, p, _ = node
        cells[(row, s.cat)] = gene_tok(s, p, [info[k][1] for k in kids])
    best = (info[0][1], info[0][0][0].cat)
    for r in range(rows):
        for c in range(ncats):
            if (r, c) in cells:
                continue
            # every cell is populated: a cell never written holds a default gene whose
            # symbol pointer is indeterminate, which no public observer can tell apart
            cells[(r, c)] = rand_gene(W, rng, sset, c, r, rows)
    return ncats, rows, best, cells


def cells_str(best, cells):
    return "%d %d %s" % (best[0], best[1], " ".join("%d,%d=%s" % (r, c, g) for (r, c), g in sorted(cells.items())))


def full_genome(W, rng, sset, rows):
    ncats = 2 if sset == 2 else 1
    cells = {(r, c): rand_gene(W, rng, sset, c, r, rows) for r in range(rows) for c in range(ncats)}
    best = (rng.randrange(rows), rng.randrange(ncats)) if rng.random() < 0.5 else (0, 0)
    return ncats, best, cells


def active_loci(W, best, cells):
    """loci of the active code of a genome given as {(r, c): gene token}"""
    seen = []
    todo = [best]
    while todo:
        l = todo.pop()
        if l in seen or l not in cells:
            continue
        seen.append(l)
        f = cells[l].split(":")
        s = W.syms[int(f[0])]
        if f[2] != "-":
            for a, c in zip(f[2].split(","), s.argcats):
                todo.append((int(a), c))
    return seen


# --------------------------------------------------------- scenario generators
def gen_mep_related_load(ck, W):
    """an individual that has ALREADY reported its signature loads the stream of a
    closely related one: the same genome entered at another locus (what
    get_block(l).save() writes), or the same genome with one constant moved by
    one ulp (equal under gene operator==).  The signature reported afterwards
    must be the one of the loaded content."""
    rng = ck.rng
    sset = 2 if rng.random() < 0.3 else 1
    rows = rng.randrange(3, 9)
    ncats, bx, cx = full_genome(W, rng, sset, rows)
    _, by, cy = full_genome(W, rng, sset, rows)
    act = active_loci(W, bx, cx)
    others = [l for l in act if l != bx] or [l for l in sorted(cx) if l != bx]
    pars = [l for l in act if W.syms[int(cx[l].split(":")[0])].par]
    pre = rng.choice([["S"], ["S"], ["M", "300", str(rng.randrange(1 << 30)), "S"], ["SY", "A"],
                      ["R", str(bx[0]), str(bx[1]), rand_gene(W, rng, sset, bx[1], bx[0], rows), "S"]])
    if pars and rng.random() < 0.35:
        l = rng.choice(pars)
        mid = ["LU", str(l[0]), str(l[1])]
    else:
        l = rng.choice(others)
        mid = ["LB", str(l[0]), str(l[1])]
    post = rng.choice([["S"], ["S"], ["S", "B", str(bx[0]), str(bx[1]), "S"], ["L", "S"]])
    line = "MEP %d %d | %s | %s | %s" % (ncats, rows, cells_str(bx, cx), cells_str(by, cy), " ".join(pre + mid + post))
    return {"kind": "MEP", "line": line, "gen": "related-load"}


def gen_mep_cse_constants(ck, W):
    """cse() on programs whose constants are equal / equal under < and == but
    bitwise different (+0.0, -0.0) / one ulp apart: only bitwise identical
    constants may be merged, and the signature cached before cse() must stay
    the signature of the optimised individual"""
    rng = ck.rng
    C0 = next(s for s in W.by_set[1] if s.par)
    funs = [s for s in W.by_set[1] if len(s.argcats) >= 2]
    rows = rng.randrange(4, 9)
    pairs = [("0000000000000000", "8000000000000000"), ("8000000000000000", "0000000000000000"),
             ("3ff0000000000000", "3ff0000000000001"), ("3ff0000000000000", "3ff0000000000000"),
             ("0000000000000000", "0000000000000000"), ("0000000000000001", "0000000000000000")]
    ncats, bx, cx = full_genome(W, rng, 1, rows)
    _, by, cy = full_genome(W, rng, 1, rows)
    a, b = rng.choice(pairs)
    r1, r2 = rng.sample(range(1, rows), 2)
    cx[(r1, 0)] = gene_tok(C0, a, [])
    cx[(r2, 0)] = gene_tok(C0, b, [])
    f = rng.choice(funs)
    cx[(0, 0)] = gene_tok(f, None, [rng.choice([r1, r2]) for _ in f.argcats][:-2] + [r1, r2])
    ops = rng.choice([["S", "C", "S"], ["C", "S"], ["S", "C", "S", "C", "S"], ["S", "C", "M", "300", str(rng.randrange(1 << 30)), "S"]])
    line = "MEP 1 %d | %s | %s | %s" % (rows, cells_str((0, 0), cx), cells_str(by, cy), " ".join(ops))
    return {"kind": "MEP", "line": line, "gen": "cse-constants"}


def gen_exponential_dags(W, depths, model_max_depth):
    """programs whose active code is a small DAG but a huge tree: level k holds
    R_k = F2(T_{k+1}, R_{k+1}) and the fully shared T_k = F2(T_{k+1}, T_{k+1});
    2*d+1 genes unfold to about 2^(d+1) nodes.  Variants differ ONLY in the last
    leaf of the depth-first order (R_d), the controls only in the first one
    (mirror image).  pack must reach the last leaf: distinct trees must get
    distinct signatures at every size (tree <-> signature tables); sizes the
    extracted model can afford are also compared exactly."""
    F2 = next(s for s in W.by_set[1] if len(s.argcats) == 2)
    C0 = next(s for s in W.by_set[1] if s.par)
    one, two = "3ff0000000000000", "4000000000000000"
    out = []
    for d in depths:
        for side in ("last", "first"):
            for leaf in (one, two):
                rows = 2 * d + 1
                cells = {}
                for k in range(d):
                    # row 2k: R_k = F2(T_{k+1}, R_{k+1});  row 2k+1: T_{k+1}
                    cells[(2 * k, 0)] = gene_tok(F2, None, [2 * k + 1, 2 * k + 2] if side == "last" else [2 * k + 2, 2 * k + 1])
                    cells[(2 * k + 1, 0)] = (gene_tok(F2, None, [2 * k + 3, 2 * k + 3]) if k + 1 < d
                                             else gene_tok(C0, one, []))      # T_d
                cells[(2 * d, 0)] = gene_tok(C0, leaf, [])                    # R_d : the leaf that varies
                line = "MEP 1 %d | %s | %s | S" % (rows, cells_str((0, 0), cells), cells_str((0, 0), cells))
                out.append({"kind": "MEP", "line": line, "gen": "exp-dag", "family": "dag%d" % d,
                            # with the leaf 1.0 both mirror images are the SAME complete tree
                            "tree": ("expdag(depth=%d,%s leaf=%s)" % (d, side, leaf) if leaf != one
                                     else "expdag(depth=%d,all leaves 1.0)" % d),
                            "nomodel": d > model_max_depth})
    return out


def gen_de_related_load(ck):
    rng = ck.rng
    n = rng.randrange(1, 6)
    zeros = ["0000000000000000", "8000000000000000"]
    fin = [p for p in DE_POOL if p[:3] not in ("7ff", "fff")]
    vals = lambda: [rng.choice(zeros) if rng.random() < 0.5 else rng.choice(fin) for _ in range(n)]
    ops = rng.choice([["S", "LZ", "S"], ["S", "LZ", "S", "LZ", "S"], ["SY", "A", "LZ", "S"], ["S", "L", "S", "LZ", "S"],
                      ["S", "VZ", "S"], ["S", "VS", "S", "VZ", "S"], ["SY", "A", "VZ", "S"], ["S", "VZ", "S", "VZ", "S"],
                      ["S", "VS", "S"]])
    return {"kind": "DE", "line": "DE %d | %s | %s | %s" % (n, " ".join(vals()), " ".join(vals()), " ".join(ops)),
            "gen": "related-load"}


def gen_tree_cases(ck, W, ntrees):
    rng = ck.rng
    out = []
    for i in range(ntrees):
        sset = 2 if rng.random() < 0.4 else 1
        t = gen_tree(W, rng, sset, 0 if rng.random() < 0.8 or sset == 1 else 1, rng.randrange(1, 5))
        while tree_size(t) > 28:
            t = gen_tree(W, rng, sset, 0, rng.randrange(1, 4))
        fam = [t]
        for _ in range(2):
            v, ok = variant(W, rng, t)
            if ok:
                fam.append(v)
        for tr in fam:
            for j in range(3 if tr is t else 1):
                ncats, rows, best, cells = layout(W, rng, sset, tr, share=(j > 0), extra=(j != 1))
                line = "MEP %d %d | %s | %s | S" % (ncats, rows, cells_str(best, cells), cells_str(best, cells))
                out.append({"kind": "MEP", "line": line, "tree": canon(tr), "family": i, "gen": "tree"})
    return out


def gen_mep_history(ck, W, known=False):
    rng = ck.rng
    sset = 2 if rng.random() < 0.4 else 1
    rows = rng.randrange(3, 9)
    ncats, bx, cx = full_genome(W, rng, sset, rows)
    _, by, cy = full_genome(W, rng, sset, rows)
    ops = []
    n = rng.randrange(3, 11)
    choices = ["S", "S", "SY", "R", "B", "D", "M", "M", "X", "X", "L", "LY", "LF", "LB", "LU", "A", "C", "C"]
    for _ in range(n):
        o = rng.choice(choices)
        if o == "R":
            r, c = rng.randrange(rows), rng.randrange(ncats)
            ops += ["R", str(r), str(c), rand_gene(W, rng, sset, c, r, rows)]
        elif o in ("B", "LB", "LU"):
            ops += [o, str(rng.randrange(rows)), str(rng.randrange(ncats))]
        elif o == "D":
            ops += ["D", str(rng.randrange(rows)), str(rng.randrange(1 << 30))]
        elif o == "M":
            ops += ["M", str(rng.choice([0, 50, 300, 700, 1000])), str(rng.randrange(1 << 30))]
        elif o == "X":
            ops += ["X", str(rng.randrange(2)), str(rng.randrange(1 << 30)), str(rng.randrange(4))]
        else:
            ops.append(o)
    if known:
        # the known finding: write through the non-const iterator after signature()
        g = rand_gene(W, rng, sset, bx[1], bx[0], rows)
        ops = ["S", "I", str(bx[0]), str(bx[1]), g, "S"]
    else:
        ops.append("S")
    line = "MEP %d %d | %s | %s | %s" % (ncats, rows, cells_str(bx, cx), cells_str(by, cy), " ".join(ops))
    return {"kind": "MEP", "line": line, "gen": "known-iter" if known else "history"}


def gen_ga_history(ck, known=False):
    rng = ck.rng
    n = rng.randrange(1, 9)
    vals = lambda: [str(rng.choice([0, 1, -1, 2147483647, -2147483648, 255, 256, -3, 3, rng.randrange(-10, 10)])) for _ in range(n)]
    ops = []
    for _ in range(rng.randrange(3, 11)):
        o = rng.choice(["S", "S", "SY", "W", "W", "WS", "M", "M", "X", "L", "LY", "LF", "A"])
        if o == "W":
            ops += ["W", str(rng.randrange(n)), vals()[0]]
        elif o == "WS":
            ops += ["WS", str(rng.randrange(n))]
        elif o == "M":
            ops += ["M", str(rng.choice([0, 100, 500, 1000])), str(rng.randrange(1 << 30))]
        elif o == "X":
            if n >= 2:
                ops += ["X", str(rng.randrange(2)), str(rng.randrange(1 << 30))]
        else:
            ops.append(o)
    if known:
        ops = ["S", "I", str(rng.randrange(n)), "77", "S"]
    else:
        ops.append("S")
    return {"kind": "GA", "line": "GA %d | %s | %s | %s" % (n, " ".join(vals()), " ".join(vals()), " ".join(ops)),
            "gen": "known-iter" if known else "history"}


def gen_de_history(ck, known=False):
    rng = ck.rng
    n = rng.randrange(1, 8)
    fin = [p for p in DE_POOL if p[:3] not in ("7ff", "fff")]
    vals = lambda pool=DE_POOL: [rng.choice(pool) if rng.random() < 0.7 else "%016x" % (rng.getrandbits(64) & 0xbfefffffffffffff) for _ in range(n)]
    ops = []
    for _ in range(rng.randrange(3, 11)):
        o = rng.choice(["S", "S", "SY", "W", "W", "V", "V", "VS", "VZ", "X", "L", "LY", "LF", "LZ", "A"])
        if o == "W":
            ops += ["W", str(rng.randrange(n)), vals()[0]]
        elif o == "V":
            ops += ["V", ",".join(vals())]
        elif o == "X":
            ops += ["X", str(rng.randrange(1 << 30))]
        else:
            ops.append(o)
    if known:
        ops = ["S", "I", str(rng.randrange(n)), "4059000000000000", "S"]
    else:
        ops.append("S")
    return {"kind": "DE", "line": "DE %d | %s | %s | %s" % (n, " ".join(vals(fin)), " ".join(vals(fin)), " ".join(ops)),
            "gen": "known-iter" if known else "history"}


def gen_team_history(ck, W):
    rng = ck.rng
    k = rng.randrange(1, 5)
    rows = rng.randrange(3, 7)

    def members():
        ms = []
        for _ in range(k):
            _, b, c = full_genome(W, rng, 1, rows)
            ms.append(cells_str(b, c))
        return " @ ".join(ms)
    ops = []
    for _ in range(rng.randrange(3, 9)):
        o = rng.choice(["S", "S", "SY", "SM", "M", "M", "X", "L", "LY", "LF", "A"])
        if o == "SM":
            ops += ["SM", str(rng.randrange(k))]
        elif o == "M":
            ops += ["M", str(rng.choice([0, 100, 500, 1000])), str(rng.randrange(1 << 30))]
        elif o == "X":
            ops += ["X", str(rng.randrange(2)), str(rng.randrange(1 << 30))]
        else:
            ops.append(o)
    ops.append("S")
    return {"kind": "TEAM", "line": "TEAM %d %d | %s | %s | %s" % (k, rows, members(), members(), " ".join(ops)),
            "gen": "history"}


# ------------------------------------------- harness output -> model scenario
def parse_records(out):
    recs = []
    for r in out.split(" ; "):
        f = r.split()
        d = {"op": f[0], "ret": f[1] if len(f) > 1 else "-"}
        for t in f[2:]:
            k, _, v = t.partition("=")
            d[k] = v
        recs.append(d)
    return recs


def parse_content(s):
    parts = s.split("/")
    b = tuple(int(x) for x in parts[0].split(","))
    cells = {}
    for p in parts[1:]:
        rc, _, g = p.partition("=")
        r, c = rc.split(",")
        cells[(int(r), int(c))] = g
    return b, cells


def parse_side(toks):
    b = (int(toks[0]), int(toks[1]))
    cells = {}
    for p in toks[2:]:
        rc, _, g = p.partition("=")
        r, c = rc.split(",")
        cells[(int(r), int(c))] = g
    return b, cells


def infer_cross(lhs, rhs, res):
    """which parent was copied (b) and which loci were overwritten"""
    for b in (0, 1):
        frm, to = (rhs, lhs) if b else (lhs, rhs)
        if res[0] != to[0]:
            continue
        ls = [l for l in sorted(res[1]) if res[1][l] != to[1].get(l)]
        if all(res[1][l] == frm[1].get(l) for l in ls):
            return b, ls
    return None


def sections(line):
    sec = [[]]
    for t in line.split():
        if t == "|":
            sec.append([])
        else:
            sec[-1].append(t)
    return sec


def split_members(toks):
    ms = [[]]
    for t in toks:
        if t == "@":
            ms.append([])
        else:
            ms[-1].append(t)
    return ms


def model_line(case, recs):
    """the scenario for the model: the outcomes of the random / parsing steps
    (mutated cells, crossover choices, loaded content) are taken from what the
    implementation did; the cache actions and all hashes are the model's"""
    sec = sections(case["line"])
    kind = sec[0][0]
    ops = sec[3]
    out = []
    ri = 1
    if kind == "MEP":
        x = parse_side(sec[1])
        y = parse_side(sec[2])
        ncats = int(sec[0][1])
        i = 0
        while i < len(ops):
            o = ops[i]
            rec = recs[ri] if ri < len(recs) else None
            if rec is None:
                break
            if o in ("S", "SY"):
                out.append(o); i += 1
            elif o == "R":
                x = (x[0], dict(x[1])); x[1][(int(ops[i + 1]), int(ops[i + 2]))] = ops[i + 3]
                out += ops[i:i + 4]; i += 4
            elif o == "B":
                x = ((int(ops[i + 1]), int(ops[i + 2])), x[1])
                out += ops[i:i + 3]; i += 3
            elif o == "D":
                nx = parse_content(rec["G"])
                row = int(ops[i + 1])
                out += ["D", ops[i + 1]] + [nx[1][(row, c)] for c in range(ncats)]
                x = nx; i += 3
            elif o == "M":
                nx = parse_content(rec["G"])
                cands = [l for l in sorted(nx[1]) if nx[1][l] != x[1].get(l)]
                out += ["M", str(len(cands))]
                for l in cands:
                    out += [str(l[0]), str(l[1]), nx[1][l]]
                x = nx; i += 3
            elif o == "X":
                nx = parse_content(rec["G"])
                xl = ops[i + 1] == "1"
                inf = infer_cross(x if xl else y, y if xl else x, nx)
                if inf is None:
                    return None
                b, ls = inf
                out += ["X", ops[i + 1], str(b), str(len(ls))]
                for l in ls:
                    out += [str(l[0]), str(l[1])]
                x = nx; i += 4
            elif o == "C":
                x = parse_content(rec["G"])
                out.append("C"); i += 1      # the model computes cse() itself
            elif o in ("L", "LY", "LF", "LB", "LU"):
                # every load is the same model step: the parsed content (or a failure)
                if rec["ret"] == "ok=1":
                    x = parse_content(rec["G"])
                    out += ["L", "1", rec["G"]]
                else:
                    out += ["L", "0"]
                i += 3 if o in ("LB", "LU") else 1
            elif o == "A":
                x = y
                out.append("A"); i += 1
            elif o == "I":
                if rec["ret"] == "done=1":
                    x = (x[0], dict(x[1])); x[1][(int(ops[i + 1]), int(ops[i + 2]))] = ops[i + 3]
                    out += ops[i:i + 4]
                i += 4
            else:
                return None
            ri += 1
    elif kind == "GA":
        x = list(sec[1]); y = list(sec[2])
        i = 0
        while i < len(ops):
            o = ops[i]
            rec = recs[ri] if ri < len(recs) else None
            if rec is None:
                break
            if o in ("S", "SY"):
                out.append(o); i += 1
            elif o in ("W", "I"):
                x = list(x); x[int(ops[i + 1])] = ops[i + 2]
                out += ops[i:i + 3]; i += 3
            elif o == "WS":
                j = int(ops[i + 1])
                x = rec["G"].split(",")
                out += ["W", ops[i + 1], x[j]]; i += 2
            elif o == "M":
                nx = rec["G"].split(",")
                cands = [j for j in range(len(nx)) if nx[j] != x[j]]
                out += ["M", str(len(cands))]
                for j in cands:
                    out += [str(j), nx[j]]
                x = nx; i += 3
            elif o == "X":
                nx = rec["G"].split(",")
                xl = ops[i + 1] == "1"
                lhs, rhs = (x, y) if xl else (y, x)
                n = len(nx)
                cut = None
                for c1 in range(n):
                    for c2 in range(c1 + 1, n + 1):
                        if all(nx[j] == (lhs[j] if c1 <= j < c2 else rhs[j]) for j in range(n)):
                            cut = (c1, c2)
                            break
                    if cut:
                        break
                if cut is None:
                    return None
                out += ["X", ops[i + 1], str(cut[0]), str(cut[1])]
                x = nx; i += 3
            elif o in ("L", "LY", "LF"):
                if rec["ret"] == "ok=1":
                    x = rec["G"].split(",")
                    out += ["L", "1", rec["G"]]
                else:
                    out += ["L", "0"]
                i += 1
            elif o == "A":
                x = y; out.append("A"); i += 1
            else:
                return None
            ri += 1
    elif kind == "DE":
        i = 0
        while i < len(ops):
            o = ops[i]
            rec = recs[ri] if ri < len(recs) else None
            if rec is None:
                break
            if o in ("S", "SY", "A"):
                out.append(o); i += 1
            elif o in ("W", "I"):
                out += ops[i:i + 3]; i += 3
            elif o == "V":
                out += ops[i:i + 2]; i += 2
            elif o in ("VS", "VZ"):
                out += ["V", rec["G"]]; i += 1
            elif o == "X":
                out += ["X", rec["G"]]; i += 2
            elif o in ("L", "LY", "LF", "LZ"):
                out += ["L", "1", rec["G"]] if rec["ret"] == "ok=1" else ["L", "0"]
                i += 1
            else:
                return None
            ri += 1
    elif kind == "TEAM":
        x = [parse_side(m) for m in split_members(sec[1])]
        y = [parse_side(m) for m in split_members(sec[2])]
        i = 0
        while i < len(ops):
            o = ops[i]
            rec = recs[ri] if ri < len(recs) else None
            if rec is None:
                break
            if o in ("S", "SY"):
                out.append(o); i += 1
            elif o == "SM":
                out += ops[i:i + 2]; i += 2
            elif o == "M":
                nx = [parse_content(m) for m in rec["G"].split("@")]
                out += ["M", str(len(nx))]
                for old, new in zip(x, nx):
                    cands = [l for l in sorted(new[1]) if new[1][l] != old[1].get(l)]
                    out.append(str(len(cands)))
                    for l in cands:
                        out += [str(l[0]), str(l[1]), new[1][l]]
                x = nx; i += 3
            elif o == "X":
                nx = [parse_content(m) for m in rec["G"].split("@")]
                xl = ops[i + 1] == "1"
                out += ["X", ops[i + 1], str(len(nx))]
                for a, b_, r in zip(x if xl else y, y if xl else x, nx):
                    inf = infer_cross(a, b_, r)
                    if inf is None:
                        return None
                    out += [str(inf[0]), str(len(inf[1]))]
                    for l in inf[1]:
                        out += [str(l[0]), str(l[1])]
                x = nx; i += 3
            elif o in ("L", "LY", "LF"):
                if rec["ret"] == "ok=1":
                    x = [parse_content(m) for m in rec["G"].split("@")]
                    out += ["L", "1", rec["G"]]
                else:
                    out += ["L", "0"]
                i += 1
            elif o == "A":
                x = y; out.append("A"); i += 1
            else:
                return None
            ri += 1
    return " | ".join([" ".join(sec[0]), " ".join(sec[1]), " ".join(sec[2]), " ".join(out)])


# -------------------------------------------------------------------- oracle
def combine(acc, h):
    return ((acc[0] * 37 + h[0]) % M64, (acc[1] * 37 + h[1]) % M64)


def h2(s):
    a, b = s.split(":")
    return int(a, 16), int(b, 16)


def oracle(case, recs):
    """the property, evaluated on the implementation's outputs only.
    returns a list of (key, what)"""
    bad = []
    kind = case["kind"]
    since = None       # first record of the current run of stale records
    for n, r in enumerate(recs):
        if "raw" not in r:
            continue
        op = r["op"]
        stale = r["raw"] != ZERO and r["raw"] != r["fs"]
        if stale and since is None:
            since = n
        if not stale:
            since = None
        if stale:
            cause = recs[since]["op"]        # the operation that left it stale
            bad.append(("%s:%s:stale-signature" % (kind, cause),
                        "%s: after %s the cached signature %s is not the signature %s of the current content"
                        % (kind, cause, r["raw"], r["fs"]), n))
        if op == "C" and kind == "MEP" and n > 0 and "fs" in recs[n - 1] and r["fs"] != recs[n - 1]["fs"]:
            bad.append(("MEP:C:cse-changes-signature",
                        "MEP: cse() changed the program: from-scratch signature %s before, %s after"
                        % (recs[n - 1]["fs"], r["fs"]), n))
        if op == "S" and r["ret"] != r["fs"]:
            cause = recs[since]["op"] if since is not None else "S"
            bad.append(("%s:%s:stale-signature" % (kind, cause),
                        "%s: signature() returns %s after %s, an equal individual built from scratch has %s"
                        % (kind, r["ret"], cause, r["fs"]), n))
        if kind == "TEAM":
            mfs = [h2(h) for h in r["mfs"].split(",")] if r.get("mfs") else []
            acc = (0, 0)
            for h in mfs:
                acc = combine(acc, h)
            # (the exact combine formula is compared by the correspondence; the property
            # itself asks for an ORDERED combination: reversing distinct members must matter)
            if mfs != mfs[::-1] and r.get("rfs") == r["fs"]:
                bad.append(("TEAM:order-insensitive", "team signature %s does not depend on the order of its members %s"
                            % (r["fs"], r["mfs"]), n))
            for j, (mr, mf) in enumerate(zip(r["mraw"].split(","), r["mfs"].split(","))):
                if mr != ZERO and mr != mf:
                    bad.append(("TEAM:stale-member-signature",
                                "member %d of the team has a stale cached signature %s (from scratch: %s), seen after %s"
                                % (j, mr, mf, op), n))
    return bad


KNOWN_KEYS = {"MEP:I:stale-signature", "GA:I:stale-signature", "DE:I:stale-signature"}


# ------------------------------------------------------------------ shrinking
def shrink(harness, case, key):
    """greedy removal of operations while the same violation key persists"""
    sec = sections(case["line"])
    ops = sec[3]
    arity = {"S": 1, "SY": 1, "R": 4, "B": 3, "D": 3, "M": 3, "X": 4, "C": 1, "L": 1, "LY": 1, "LF": 1, "A": 1, "I": 4,
             "W": 3, "V": 2, "SM": 2, "LB": 3, "LU": 3, "LZ": 1, "VS": 1, "VZ": 1, "WS": 2}
    if sec[0][0] in ("GA", "DE", "TEAM"):
        arity.update({"X": 3 if sec[0][0] != "DE" else 2, "I": 3, "M": 3})
    groups = []
    i = 0
    while i < len(ops):
        a = arity.get(ops[i], 1)
        groups.append(ops[i:i + a])
        i += a
    best = case

    def fails(gs):
        line = " | ".join([" ".join(sec[0]), " ".join(sec[1]), " ".join(sec[2]), " ".join(t for g in gs for t in g)])
        hout, _ = run_harness_resilient(harness, [line])
        if not hout[0] or hout[0].startswith(("CRASH", "EXC", "BADLINE")):
            return None
        c = dict(case, line=line, impl=hout[0])
        hit = [(w, n) for k, w, n in oracle(c, parse_records(hout[0])) if k == key]
        if not hit:
            return None
        c["oracle"], c["record"] = hit[0]
        return c
    changed = True
    rounds = 0
    while changed and rounds < 6:
        changed = False
        rounds += 1
        j = 0
        while j < len(groups):
            cand = groups[:j] + groups[j + 1:]
            c = fails(cand)
            if c:
                groups = cand
                best = c
                changed = True
            else:
                j += 1
    return best


def run_harness_resilient(exe, lines, timeout=1800):
    """as prims_common.run_harness_resilient (restart after an abort, mark the
    line CRASH).  LeakSanitizer is on: the leak inside i_mep::cse() went away
    with the comparator fix (3c2805a); a leak reported at exit is attributed to
    the whole batch (kind CRASH-AT-EXIT on the last line)."""
    out = [None] * len(lines)
    crashes = {}
    start = 0
    env = vv.san_env()
    restarts = 0
    while start < len(lines):
        p = subprocess.run([exe], input="\n".join(lines[start:]) + "\n", env=env, timeout=timeout,
                           stdout=subprocess.PIPE, stderr=subprocess.PIPE, text=True, errors="replace")
        got = p.stdout.splitlines()
        n = min(len(got), len(lines) - start)
        for i in range(n):
            out[start + i] = got[i]
        if start + n >= len(lines):
            if p.returncode != 0:
                crashes[len(lines) - 1] = p.stderr
                out[len(lines) - 1] = "CRASH-AT-EXIT " + (out[len(lines) - 1] or "")
            break
        k = start + n
        out[k] = "CRASH rc=%d" % p.returncode
        crashes[k] = p.stderr
        start = k + 1
        restarts += 1
        if restarts > 200:
            for j in range(start, len(lines)):
                out[j] = "CRASH (too many restarts)"
            break
    return out, crashes


# ----------------------------------------------------------------------- run
def run(ck):
    vv.build_lib("asan")
    res = vv.prove("Properties_C03", set())
    ck.add_proof(res)
    res2 = vv.prove("Refuted_C03", set())
    ck.add_proof(res2)
    ck.trusted += ["extraction: ExtrOcamlBasic only, no Extract Constant; ocaml/sig_driver.ml + zutil.ml "
                   "(almost_equal of gene operator== is realised there on OCaml floats)",
                   "harness/h_sig.cc (reads the private signature_ member; rebuilds individuals gene by gene through the public API)",
                   "x86-64 little-endian object representation of uint16_t / int / double (le16/le32/le64 of the model)"]
    ck.assumptions += [
        "A_hash (Section hypothesis of C03_distinct_trees_distinct_signatures): MurmurHash3-128 does not collide on the two "
        "packed streams involved; measured on every pair of distinct streams of this run (a collision would be reported)",
        "sym_id U / typed genome (hypotheses of C03_cse_preserves_pack): opcodes are primary keys, the gene in cell (r, c) "
        "has category c; cse() is C02's executable model with the byte-order comparator of the +-0.0 fix, executed by the "
        "model driver itself and compared with the implementation's cse() on every generated call",
        "opcodes < 2^16 and pairwise distinct (symbol::opc_count_), arity and parametric flag determined by the symbol",
        "NaN parameters are outside the model (the shared genome model stores parameters as Flocq BinarySingleNaN values, "
        "one NaN); no shipped terminal::init() yields NaN; generated parameters avoid NaN payloads",
        "all theorems print 'Closed under the global context' (allow-list is empty)"]

    # several checks running at once on different trees garbage-collect each other's
    # snapshot / library directories (.build keeps only the newest few): retry the
    # build when it failed because those directories vanished under the compiler;
    # a genuine build error fails again and is re-raised
    for attempt in range(3):
        try:
            harness = vv.build_harness("h_sig")
            break
        except vv.BuildError as e:
            if attempt == 2 or not ("No such file or directory" in str(e) or "undefined reference" in str(e)
                                    or "cannot find" in str(e)):
                raise
            vv.log("build raced with another check's garbage collection, retrying")
    model = vv.ocaml_model("Sig")
    rc, so, se = vv.run_lines(harness, "SYMS\n", env=vv.san_env())
    if rc != 0 or not so or not so[0].startswith("SYMS"):
        raise vv.BuildError("harness SYMS failed: rc=%s %s" % (rc, se[-800:]))
    W = World(so[0])

    if ck.replay_path:
        rp = json.load(open(ck.replay_path))
        cases = rp.get("cases") or [{"kind": rp["line"].split()[0], "line": rp["line"], "gen": "replay",
                                     **({"tree": rp["tree"]} if "tree" in rp else {})}]
    else:
        T = ck.thorough
        cases = gen_tree_cases(ck, W, 1500 if T else 260)
        for _ in range(12000 if T else 900):
            cases.append(gen_mep_history(ck, W))
        for _ in range(6000 if T else 500):
            cases.append(gen_ga_history(ck))
        for _ in range(6000 if T else 500):
            cases.append(gen_de_history(ck))
        for _ in range(4000 if T else 300):
            cases.append(gen_team_history(ck, W))
        for _ in range(3000 if T else 250):
            cases.append(gen_mep_related_load(ck, W))
        for _ in range(1500 if T else 120):
            cases.append(gen_mep_cse_constants(ck, W))
        cases += gen_exponential_dags(W, [3, 9, 12, 14, 16, 17, 18, 19, 20] if T else [3, 9, 11, 17, 20],
                                      model_max_depth=14 if T else 11)
        for _ in range(1000 if T else 80):
            cases.append(gen_de_related_load(ck))
        for _ in range(10):
            cases.append(gen_mep_history(ck, W, known=True))
            cases.append(gen_ga_history(ck, known=True))
            cases.append(gen_de_history(ck, known=True))

    hout, crashes = run_harness_resilient(harness, [c["line"] for c in cases])
    mlines = []
    midx = []
    nomodel = []
    allrecs = [None] * len(cases)
    for k, c in enumerate(cases):
        ho = hout[k]
        if ho is not None and ho.startswith("CRASH-AT-EXIT "):
            # a report printed when the harness exits (LeakSanitizer): not tied to a line
            ck.add_violation("sanitizer:at-exit", "the harness run ends with a sanitizer report (leak?)",
                             {"line": c["line"], "sanitizer": crashes.get(k, "")[-3000:],
                              "note": "reported at process exit for the whole batch of scenarios"})
            ho = hout[k] = ho[len("CRASH-AT-EXIT "):]
        if ho is None or ho.startswith("CRASH"):
            ck.count()
            ck.add_violation("%s:sanitizer" % c["kind"], "%s scenario aborts under ASan/UBSan" % c["kind"],
                             {"line": c["line"], "impl": ho, "sanitizer": crashes.get(k, "")[-1500:]})
            continue
        if ho.startswith(("EXC", "BADLINE")):
            ck.count()
            ck.add_diff({"line": c["line"]}, None, ho, what="harness rejected the scenario")
            continue
        recs = parse_records(ho)
        allrecs[k] = recs
        if c.get("nomodel"):
            nomodel.append(k)
            continue
        ml = model_line(c, recs)
        if ml is None:
            ck.add_diff({"line": c["line"]}, None, ho,
                        what="the implementation's result is not explained by the modelled operator (crossover copy / cut inference failed)")
            continue
        mlines.append(ml)
        midx.append(k)
    rc, mout, merr = vv.run_lines(model, W.line + "\n" + "\n".join(mlines) + "\n")
    if rc != 0 or len(mout) != len(mlines) + 1:
        raise vv.BuildError("model driver failed: rc=%s out=%d/%d %s" % (rc, len(mout), len(mlines) + 1, merr[:500]))

    stream_of_sig = {}    # impl signature -> tree / stream description (A_hash measurement)
    sig_of_tree = {}
    hist = {}
    pairs = 0
    todo = [(j, k) for j, k in enumerate(midx)] + [(None, k) for k in nomodel]
    for j, k in todo:
        c = cases[k]
        recs = allrecs[k]
        mrecs = parse_records(mout[j + 1]) if j is not None else None
        ck.count()
        hist[c["kind"] + ":" + c["gen"]] = hist.get(c["kind"] + ":" + c["gen"], 0) + 1
        ck.nontriv(c["line"])
        if j is not None and (j < 2 or j % (len(midx) // 4 + 1) == 0):
            ck.sample({"scenario": c["line"][:300], "impl": hout[k][:300], "model": mout[j + 1][:300]})
        # ---- oracle on the implementation
        for key, what, n in oracle(c, recs):
            rep = {"line": c["line"], "impl": hout[k], "record": n, "oracle": what}
            if key not in KNOWN_KEYS and not ck.replay_path and not any(v["key"] == key for v in ck.violations):
                small = shrink(harness, c, key)
                if small is not c:
                    rep = {"line": small["line"], "impl": small["impl"], "record": small["record"],
                           "oracle": small["oracle"], "original_line": c["line"]}
                    what = small["oracle"]
            ck.add_violation(key, what, rep)
        # ---- tree <-> signature
        if "tree" in c and recs and recs[-1]["op"] == "S":
            sig = recs[-1]["ret"]
            t = c["tree"]
            if t in sig_of_tree and sig_of_tree[t][0] != sig:
                ck.add_violation("MEP:same-tree-different-signature",
                                 "two layouts of the same expression tree have different signatures",
                                 {"line": c["line"], "other_line": sig_of_tree[t][1], "tree": t,
                                  "signatures": [sig, sig_of_tree[t][0]]})
            sig_of_tree.setdefault(t, (sig, c["line"]))
            if sig in stream_of_sig and stream_of_sig[sig][0] != t:
                ck.add_violation("MEP:hash-collision",
                                 "two different expression trees have the same signature (A_hash fails on this pair)",
                                 {"line": c["line"], "other_line": stream_of_sig[sig][1], "trees": [t, stream_of_sig[sig][0]],
                                  "signature": sig})
            stream_of_sig.setdefault(sig, (t, c["line"]))
        # ---- correspondence model / implementation
        if mrecs is None:
            continue        # sizes the extracted model is not run on: implementation-side oracles only
        if len(mrecs) != len(recs):
            ck.add_diff({"line": c["line"]}, mout[j + 1][:600], hout[k][:600], what="different number of records (model guard = UB?)")
            continue
        for n, (mr, ir) in enumerate(zip(mrecs, recs)):
            if mr.get("raw") != ir.get("raw") or mr.get("h") != ir.get("fs") or mr["ret"] != ir["ret"] \
               or (c["kind"] == "TEAM" and mr.get("mraw") != ir.get("mraw")):
                ck.add_diff({"line": c["line"], "record": n, "op": ir["op"]},
                            {x: mr.get(x) for x in ("ret", "raw", "h", "mraw")},
                            {x: ir.get(x) for x in ("ret", "raw", "fs", "mraw")})
                break
    if os.environ.get("C03_DEBUG"):
        for d in ck.diffs[:int(os.environ["C03_DEBUG"])]:
            print("DIFF", json.dumps(d)[:1500])
    ts = list(sig_of_tree)
    pairs = len(ts) * (len(ts) - 1) // 2
    ck.coverage["per_generator"] = hist
    ck.coverage["distinct_trees"] = len(ts)
    ck.coverage["distinct_tree_pairs_checked_for_collision"] = pairs
    ck.coverage["distinct_signatures"] = len(stream_of_sig)
    return ck.finish(
        rule="(i) random expression trees over 1- and 2-category symbol sets, each laid out 3 times (row gaps, shared "
             "sub-DAGs, random introns) plus 2 one-symbol / one-constant-bit variants; (ii) random histories of 3-10 public "
             "operations (signature, replace, get_block, destroy_block, mutation, crossover x4 flavours, cse, load ok/failed "
             "/ of get_block(l).save() / of a copy with one constant moved by an ulp / of a +-0.0-flipped vector, assignment; operator[], operator=(vector), DE crossover; team mutation/crossover/load/member signature) on "
             "i_mep, i_ga, i_de, team<i_mep>; every record compares raw cache, from-scratch signature and return value; "
             "non-trivial = distinct scenario line")
