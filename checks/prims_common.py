"""Shared by the checks that use the regenerated primitive layer (C13, C14,
C01, C19): regeneration of coq/Gen/Prims.v and a crash-resilient harness
runner."""
import os
import subprocess
import sys

import vv

sys.path.insert(0, os.path.join(vv.VERIF, "translate"))
import gen_prims


def checked_in_idents():
    """idents of the current coq/Gen/Prims.v in order of prims_all"""
    import re
    with open(os.path.join(vv.COQ, "Gen", "Prims.v")) as f:
        txt = f.read()
    m = re.search(r"Definition prims_all.*?\[(.*?)\]\.", txt, re.S)
    return [x.strip()[:-5] for x in m.group(1).split(";") if x.strip()]


def regen_prims(snap):
    """returns (idents in prims_all order, problems, regenerated?)"""
    infos, problems, text = gen_prims.generate(snap)
    if problems:
        return checked_in_idents(), problems, False
    with vv.Lock("coq"):
        vv.write_if_changed(os.path.join(vv.COQ, "Gen", "Prims.v"), text)
    return [i["ident"] for i in infos], [], True


def run_harness_resilient(exe, lines, timeout=1800):
    """run a line-protocol harness; when it dies (sanitizer abort) on a line,
    record 'CRASH' for that line and restart on the rest.
    returns (list of outputs aligned with lines, {index: stderr})"""
    out = [None] * len(lines)
    crashes = {}
    start = 0
    env = vv.san_env()
    restarts = 0
    while start < len(lines):
        p = subprocess.run([exe], input="\n".join(lines[start:]) + "\n", env=env, timeout=timeout,
                           stdout=subprocess.PIPE, stderr=subprocess.PIPE, text=True, errors="replace")
        got = p.stdout.splitlines()
        n = min(len(got), len(lines) - start)
        for i in range(n):
            out[start + i] = got[i]
        if start + n >= len(lines) and p.returncode == 0:
            break
        if start + n >= len(lines):
            # all lines answered but exit status non-zero (e.g. leak report at exit)
            crashes[len(lines) - 1] = p.stderr
            out[len(lines) - 1] = "CRASH-AT-EXIT " + (out[len(lines) - 1] or "")
            break
        k = start + n           # the line being processed when the process died
        out[k] = "CRASH rc=%d" % p.returncode
        crashes[k] = p.stderr
        start = k + 1
        restarts += 1
        if restarts > 200:
            for j in range(start, len(lines)):
                out[j] = "CRASH (too many restarts)"
            break
    return out, crashes
