"""C04 -- The fitness cache is transparent.

proof:  coq/Props/Properties_C04.v (exact refinement of the live map over all
        histories of store / clear / clear-one / save+load, proxy transparency
        over all histories of Eval / Clear / DataChange) and
        coq/Props/Refuted_C04.v (the three defects of the pinned tree) about
        coq/Cache/CacheDefs.v, a hand-written model of cache.cc and
        evaluator_proxy.tcc.
tie:    correspondence: harness h_cache (real vita::cache and real
        evaluator_proxy<ind, counting evaluator>, ASan/UBSan) against the
        extracted model on generated operation scripts: every find / proxy
        result, every save+load result and the dump of the live slots.
oracle: the property itself, evaluated on the implementation's outputs: a
        lookup returns nothing or the value most recently stored under exactly
        that signature since the last clear / clear-one of it; a lookup right
        after a store returns the stored value; save+load into a fresh table
        succeeds and reproduces the live entries; the proxy returns what the
        wrapped evaluator returns at that moment.
"""
import json
import os
import struct
import sys

import vv
import prims_common as pc

sys.path.insert(0, os.path.join(vv.VERIF, "translate"))
import cache_proto

M32 = 2 ** 32


# ------------------------------------------------------------ values
def bits_of(x):
    return struct.unpack("<Q", struct.pack("<d", x))[0]


SPECIAL = [bits_of(x) for x in (0.0, -0.0, 1.0, -1.5, 3.141592653589793, 1e308, -1e308, 1.7976931348623157e308,
                                -1.7976931348623157e308, 2.2250738585072014e-308, 5e-324, -5e-324, 0.1, 1e-7,
                                123456789.123456789, -2.5e-300, 4503599627370497.0)]


def rand_double_bits(rng):
    r = rng.random()
    if r < 0.5:
        return rng.choice(SPECIAL)
    while True:
        b = rng.getrandbits(64)
        if (b >> 52) & 0x7ff != 0x7ff:      # finite (H_17digits is about finite doubles)
            return b


def rand_fit(rng, allow_empty=True):
    n = rng.choice([0, 1, 1, 1, 2, 3, 4]) if allow_empty else rng.choice([1, 1, 2, 3, 4])
    return tuple(rand_double_bits(rng) for _ in range(n))


def key_pool(rng, bits):
    """keys built to collide: same slot with different data[0], equal data[0]
    with different data[1], keys that differ only above the mask, half-equal
    keys, extreme words; never (0,0)"""
    mask = (1 << bits) - 1
    pool = []
    for _ in range(rng.randint(1, 3)):
        b = rng.getrandbits(bits)
        d1 = rng.getrandbits(64)
        hi = [rng.getrandbits(64 - bits) for _ in range(3)] + [0, (1 << (64 - bits)) - 1]
        for h in rng.sample(hi, 3):
            pool.append(((h << bits) | b, d1))                 # same slot, same data[1]
        k0 = (rng.getrandbits(64 - bits) << bits) | b
        pool.append((k0, d1))
        pool.append((k0, d1 ^ 1))                              # same data[0], other data[1]
        pool.append((k0, d1 ^ (1 << 63)))
        pool.append((k0 ^ (1 << 63), d1))                      # differs only in the top bit
    # small-shaped legal signatures: (slot index, 0), (x, 0) with x below the table size, (0, y): the
    # boundary of the proofs' `k <> (0,0)` (clear(key) leaves a zeroed key with a live seal and the
    # old fitness in the slot)
    for k0, _ in list(pool):
        if k0 & mask:
            pool.append((k0 & mask, 0))
            pool.append((k0 & mask, 1))
    pool.append((rng.randint(1, mask), 0))
    pool.append((0, rng.randint(1, 3)))
    pool.append((0, rng.getrandbits(64) | 1))                  # data[0] == 0, not empty
    pool.append((rng.getrandbits(64) | 1, 0))                  # data[1] == 0, not empty
    pool.append((2 ** 64 - 1, 2 ** 64 - 1))
    pool.append((mask + 1, 1))                                 # slot 0 through the mask
    for _ in range(rng.randint(0, 4)):
        pool.append((rng.getrandbits(64), rng.getrandbits(64)))
    pool = [k for k in dict.fromkeys(pool) if k != (0, 0)]
    return pool


def kstr(k):
    return "%x,%x" % k


def fstr(f):
    return "".join(",%x" % w for w in f)


def gen_table_script(rng, thorough):
    bits = rng.choice([1, 1, 2, 2, 3, 3, 4, 5, 6, 8, 10])
    mask = (1 << bits) - 1
    pool = key_pool(rng, bits)
    hot = rng.sample(pool, min(len(pool), rng.randint(2, 6)))
    n = rng.randint(5, 220 if thorough else 70)
    ops = []
    if rng.random() < 0.3:
        # start close to the wrap of the 32-bit seal
        for _ in range(rng.randint(0, 3)):
            ops.append("I,%s%s" % (kstr(rng.choice(hot)), fstr(rand_fit(rng))))
        ops.append("W,%d" % rng.randint(1, 3))
    for _ in range(n):
        r = rng.random()
        k = rng.choice(hot) if rng.random() < 0.8 else rng.choice(pool)
        if r < 0.33:
            ops.append("I,%s%s" % (kstr(k), fstr(rand_fit(rng))))
            if rng.random() < 0.5:
                ops.append("F,%s" % kstr(k))
        elif r < 0.70:
            ops.append("F,%s" % kstr(k))
        elif r < 0.80:
            ops.append("C")
        elif r < 0.90:
            ops.append("X,%s" % kstr(k))
            if rng.random() < 0.6:
                # every signature of the cleared slot must now find nothing: the small ones included
                i = k[0] & mask
                cands = [q for q in pool if (q[0] & mask) == i] + [(i, 0), (i, 1), (i | (mask + 1), 0)]
                for q in rng.sample(cands, min(len(cands), 3)):
                    if q != (0, 0):
                        ops.append("F,%s" % kstr(q))
        elif r < 0.97:
            ops.append("S")
        else:
            ops.append("N,%d" % rng.randint(1, 5))
    for k in hot:
        ops.append("F,%s" % kstr(k))
    return "T %d %s" % (bits, " ".join(ops))


def gen_proxy_script(rng, thorough):
    bits = rng.choice([7, 7, 8, 10])
    pool = key_pool(rng, bits)
    hot = rng.sample(pool, min(len(pool), rng.randint(2, 6)))
    version = 0
    eva = {}
    fast = {}
    last = None
    dirty = False
    ops = []
    meta = []          # per op: data version (for the replay file)
    for _ in range(rng.randint(5, 200 if thorough else 60)):
        r = rng.random()
        if r < 0.08:
            version += 1         # the training data change ...
            dirty = True
            continue
        if dirty or r < 0.16:
            ops.append("C")      # ... and is followed by a clear before the next evaluation
            dirty = False
            continue
        if r < 0.22:
            ops.append("S")      # end of a session: proxy.save, a new proxy loads (search::close / search::init)
            continue
        k = last if (last is not None and rng.random() < 0.35) else (
            rng.choice(hot) if rng.random() < 0.8 else rng.choice(pool))
        last = k
        if (k, version) not in eva:
            eva[(k, version)] = rand_fit(rng)
            # the approximate evaluation: a different, recognisable, never empty value
            fast[(k, version)] = (bits_of(-float(len(fast) + 1)),) + rand_fit(rng, allow_empty=False)
        if rng.random() < 0.3:
            ops.append("A,%s%s" % (kstr(k), fstr(fast[(k, version)])))      # proxy.fast(x)
        else:
            ops.append("E,%s%s" % (kstr(k), fstr(eva[(k, version)])))
    return "P %d %s" % (bits, " ".join(ops))


def gen_dss_script(rng, thorough):
    """the proxies (training and validation side) around evaluators that read the current data sets, the
    sets being changed by the real vita::dss: consulted before init(0) (cache already populated, or
    restored from a saved stream), between init / shake / close, and across runs"""
    bits = rng.choice([7, 8])
    pool = key_pool(rng, bits)
    hot = rng.sample(pool, min(len(pool), rng.randint(2, 5)))
    gap = rng.randint(1, 3)

    def evals(n):
        return ["%s,%s" % (rng.choice("EU"), kstr(rng.choice(hot))) for _ in range(n)]
    ops = []
    if rng.random() < 0.7:
        ops += evals(rng.randint(1, 4))          # before the first run: full data set
        if rng.random() < 0.4:
            ops.append("R")                      # ... or a cache restored by evaluator_proxy::load
            ops += evals(rng.randint(0, 2))
    for run in range(rng.randint(1, 3)):
        ops.append("N,%d" % run)
        gen = 0
        for _ in range(rng.randint(3, 40 if thorough else 20)):
            if rng.random() < 0.25:
                gen += 1
                ops.append("G,%d" % gen)
            else:
                ops += evals(1)
        if rng.random() < 0.7:
            ops.append("Q,%d" % run)
            ops += evals(rng.randint(0, 3))
    return "D %d %d %d %d %s" % (bits, rng.randint(4, 40), gap, rng.randint(1, 10 ** 6), " ".join(ops))


# ------------------------------------------------------------ oracle
def parse_fit(s):
    return () if s == "-" else tuple(int(w, 16) for w in s.split(","))


def parse_dump(s):
    parts = s.split(";")
    seal = int(parts[0])
    ent = {}
    for p in parts[1:]:
        i, k0, k1, f = p.split(":")
        ent[(int(k0, 16), int(k1, 16))] = parse_fit(f)
    return seal, ent


def parse_op(tok):
    p = tok.split(",")
    o = p[0]
    if o in ("I", "E", "A"):
        return o, (int(p[1], 16), int(p[2], 16)), tuple(int(w, 16) for w in p[3:])
    if o in ("F", "X", "U") or (o == "E" and len(p) == 3):
        return o, (int(p[1], 16), int(p[2], 16)), None
    if o == "G":
        return o, int(p[1]), None
    if o in ("W", "N"):
        return o, int(p[1]), None
    return o, None, None


def oracle(script, out):
    """judge the implementation's output line against the property.
    returns a list of (key, what)"""
    w = script.split()
    kind = w[0]
    if kind == "D":
        return oracle_dss(script, out)
    ops = [parse_op(t) for t in w[2:]]
    toks = out.split()
    bad = []
    if not toks or not toks[-1].startswith("D="):
        return [("%s:no-output" % kind, "the implementation produced no complete output: %r" % out[:200])]
    ti = 0
    if kind == "T":
        stored = {}
        prev = None
        for n, (o, a, v) in enumerate(ops):
            if o == "I":
                stored[a] = v
            elif o == "F":
                r = parse_fit(toks[ti][2:])
                ti += 1
                if prev is not None and prev[0] == "I" and prev[1] == a and r != prev[2]:
                    bad.append(("table:find-after-insert",
                                "op %d: find(%s) right after insert(%s, %s) returned %s" %
                                (n, kstr(a), kstr(a), list(map(hex, prev[2])), list(map(hex, r)))))
                elif r != () and r != stored.get(a):
                    bad.append(("table:find-unsound",
                                "op %d: find(%s) returned %s; the value most recently stored under that signature "
                                "since the last clear is %s" %
                                (n, kstr(a), list(map(hex, r)),
                                 list(map(hex, stored[a])) if a in stored else "nothing")))
            elif o == "C" or o == "W" or (o == "N" and a > 0):
                stored = {}
            elif o == "X":
                stored.pop(a, None)
            elif o == "S":
                ok, before, after = toks[ti][2:].split("|")
                ti += 1
                _, eb = parse_dump(before)
                _, ea = parse_dump(after)
                eb = {k: f for k, f in eb.items() if f}
                ea = {k: f for k, f in ea.items() if f}
                if ok != "1" or eb != ea:
                    bad.append(("table:save-load" + (":empty-fitness" if len(eb) != len(parse_dump(before)[1]) else ""),
                                "op %d: save then load into a fresh table: ok=%s, %d live entries before, %d after%s" %
                                (n, ok, len(eb), len(ea),
                                 "" if eb == ea else "; first difference at key %s" %
                                 kstr(sorted(set(eb.items()) ^ set(ea.items()))[0][0]))))
            prev = (o, a, v)
    else:
        for n, (o, a, v) in enumerate(ops):
            if o == "S":
                ok, before, after = toks[ti][2:].split("|")
                ti += 1
                eb = {k: f for k, f in parse_dump(before)[1].items() if f}
                ea = {k: f for k, f in parse_dump(after)[1].items() if f}
                # transparency only forbids that the new proxy holds something the old one did not
                # (forgetting entries is harmless here; the model diff still reports it)
                if not set(ea.items()) <= set(eb.items()):
                    bad.append(("proxy:save-load",
                                "op %d: evaluator_proxy::save then load into a new proxy (ok=%s): the new cache holds "
                                "an entry the saved one did not: %s" %
                                (n, ok, sorted(set(ea.items()) - set(eb.items()))[0])))
            if o == "A":
                r = parse_fit(toks[ti][2:].split("/")[0])
                ti += 1
                if r != v:
                    bad.append(("proxy:fast-not-direct",
                                "op %d: proxy.fast(%s) returned %s; evaluator_proxy::fast is documented to return the "
                                "wrapped evaluator's fast() value, which is %s at that moment" %
                                (n, kstr(a), list(map(hex, r)), list(map(hex, v)))))
            if o == "E":
                r = parse_fit(toks[ti][2:].split("/")[0])
                ti += 1
                if r != v:
                    bad.append(("proxy:not-transparent",
                                "op %d: proxy(%s) returned %s, the wrapped evaluator returns %s at that moment" %
                                (n, kstr(a), list(map(hex, r)), list(map(hex, v)))))
    return bad


def oracle_dss(script, out):
    w = script.split()
    toks = out.split()
    if not toks or not toks[-1].startswith("D="):
        return [("D:no-output", "the implementation produced no complete output: %r" % out[:200])]
    bad = []
    ti = 0
    inited = False
    for n, tok in enumerate(w[5:]):
        if tok[0] in "EU":
            got, direct = toks[ti][2:].split("|")
            ti += 1
            if got.split("/")[0] != direct:
                side = "training" if tok[0] == "E" else "validation"
                bad.append(("proxy:not-transparent" if tok[0] == "E" else "proxy:not-transparent:validation",
                            "op %d: after the data sets were changed by vita::dss, the %s proxy(%s) returned %s while "
                            "the wrapped evaluator called directly returns %s" %
                            (n, side, tok[2:], got.split("/")[0], direct)))
        elif tok[0] in "GR":
            ti += 1
        elif tok[0] == "N":
            inited = True
        elif tok[0] == "Q" and not inited:
            ti += 1              # the harness answers BADOP for a close before the first init
    return bad


def nontrivial(script, out):
    """table: the history has a slot collision (two distinct keys stored in
    one slot) and a clear; proxy: a hit, a miss and a clear"""
    w = script.split()
    if w[0] == "D":
        return "g=1" in out and "/0" in out and "/1" in out
    ops = [parse_op(t) for t in w[2:]]
    if w[0] == "T":
        mask = (1 << int(w[1])) - 1
        byslot = {}
        for o, a, v in ops:
            if o == "I":
                byslot.setdefault(a[0] & mask, set()).add(a)
        return any(len(s) > 1 for s in byslot.values()) and any(o in ("C", "W", "N") for o, _, _ in ops)
    return "/0" in out and "/1" in out and any(o == "C" for o, _, _ in ops)


def shrink(harness, script, key):
    """greedy removal of operations while the same violation persists"""
    w = script.split()
    nh = 5 if w[0] == "D" else 2
    head, ops = w[:nh], w[nh:]

    def fails(ops2):
        s = " ".join(head + ops2)
        out, crashes = pc.run_harness_resilient(harness, [s])
        if out[0] is None or out[0].startswith("CRASH"):
            return key == "sanitizer"
        return any(k == key for k, _ in oracle(s, out[0]))
    budget = 300
    chunk = max(1, len(ops) // 2)
    while chunk >= 1 and budget > 0:
        i = 0
        changed = False
        while i < len(ops) and budget > 0:
            cand = ops[:i] + ops[i + chunk:]
            budget -= 1
            if cand and fails(cand):
                ops = cand
                changed = True
            else:
                i += chunk
        if not changed or chunk == 1:
            chunk //= 2
    return " ".join(head + ops)


FIXED_SCRIPTS = [
    # the three defects of the pinned tree (DESIGN section 7 #2, #15, #14)
    "T 3 I,1,5,3ff0000000000000 C I,2,6,4000000000000000 S F,2,6 F,1,5",
    "T 3 I,1,5,3ff0000000000000 I,2,6 I,3,7,4008000000000000 S F,1,5 F,2,6 F,3,7",
    "T 2 I,1,5,3ff0000000000000 W,1 C C F,1,5",
    "T 2 I,1,5,3ff0000000000000 W,2 I,2,6,4000000000000000 C F,2,6 I,3,7,4008000000000000,4000000000000000 C F,3,7 F,1,5 I,1,5,4000000000000000 F,1,5 S F,1,5",
    # clear-one of a colliding key, find of the evicted key
    "T 1 I,1,5,3ff0000000000000 I,3,5,4000000000000000 F,1,5 F,3,5 X,1,5 F,3,5 F,1,5",
    # clear(key) then lookups of the small signatures of that slot (seeded/C04-1) and of slot 0
    "T 3 I,b,7,3ff0000000000000 X,b,7 F,3,0 F,3,1 F,b,0 F,b,7 I,13,0,4000000000000000 F,3,0 X,13,0 F,3,0 F,13,0",
    "T 2 I,5,9,3ff0000000000000,4000000000000000 X,5,9 F,1,0 S F,1,0 I,1,0,4008000000000000 F,1,0 F,5,9 X,5,0 F,1,0",
    # load must adopt the saved seal (seeded/C04-3)
    "T 3 C C I,2,6,4000000000000000 S F,2,6 C F,2,6 I,2,6,3ff0000000000000 S F,2,6",
    # both proxies around the real dss, consulted before and after shakes that fire (seeded/C04-2)
    "D 7 30 1 77 N,0 E,1,5 U,1,5 G,1 E,1,5 U,1,5 G,2 U,1,5 E,1,5 U,2,9 G,3 U,2,9 U,1,5 Q,0 U,1,5 E,1,5",
    "D 7 12 2 5 N,0 U,3,3 E,3,3 G,1 U,3,3 G,2 U,3,3 E,3,3 G,3 G,4 U,3,3 E,3,3",
    # caches populated (or restored) BEFORE dss::init(0) (seeded/C04-r2-3), and across runs
    "D 7 30 1 9 E,1,5 U,1,5 N,0 E,1,5 U,1,5 G,1 E,1,5 Q,0 E,1,5 U,1,5 N,1 E,1,5 U,1,5",
    "D 7 20 2 3 E,2,9 U,2,9 R E,2,9 N,0 E,2,9 U,2,9",
    "P 7 E,1,5,3ff0000000000000 E,2,6 S E,1,5,3ff0000000000000 E,2,6 C S E,1,5,4000000000000000 E,3,3 S E,3,3 E,1,5,4000000000000000 E,81,5,4008000000000000 S E,81,5,4008000000000000 E,1,5,4000000000000000",
    # fast() (approximate, never cached) interleaved with operator() on the same individual (seeded/C04-r3-3)
    "P 7 A,1,5,c000000000000000 E,1,5,3ff0000000000000 A,1,5,c000000000000000 E,1,5,3ff0000000000000 E,2,6,4000000000000000 A,2,6,c008000000000000 E,2,6,4000000000000000 C A,1,5,c010000000000000 E,1,5,4008000000000000",
    "P 7 E,1,5,3ff0000000000000 E,1,5,3ff0000000000000 C E,1,5,4000000000000000 E,2,2 E,2,2 E,81,5,bff8000000000000 E,1,5,4000000000000000",
]


def run(ck):
    L = vv.build_lib("asan")
    # regenerate the table-level facts the model interprets (Gen/CacheTable.v)
    text, problems, facts = cache_proto.generate_table(L["snap"])
    if problems:
        ck.notes.append("translator: " + "; ".join(problems)[:500] +
                        " -- Gen/CacheTable.v kept as hand-written model, tie = correspondence only")
    else:
        with vv.Lock("coq"):
            vv.write_if_changed(os.path.join(vv.COQ, "Gen", "CacheTable.v"), text)
        ck.tie = "regenerated+correspondence"
    ck.coverage["table_facts"] = facts
    res = vv.prove("Properties_C04", set())
    ck.add_proof(res)
    ck.add_proof(vv.prove("Refuted_C04", set()))
    ck.trusted += ["translate/cache_proto.py (table-level facts of cache.cc / cache_hash.h -> Gen/CacheTable.v) and the "
                   "interpreter coq/Cache/CacheGenDefs.v of those facts; the parts of coq/Cache/CacheDefs.v the facts do not "
                   "cover (token-level stream reading, the proxy) are tied by correspondence only",
                   "extraction: ExtrOcamlBasic only, no Extract Constant; ocaml/cache_driver.ml + zutil.ml",
                   "harness/h_cache.cc (private members read through #define private public); g++ 12 ASan/UBSan"]
    ck.assumptions += [
        "A_hash (explicit hypothesis of C04_proxy_transparent): individuals that are evaluated and share a signature "
        "have the same fitness on every data set",
        "proxy histories: every data change is followed by clear() before the next evaluation (wf_hist); that "
        "dss::init/shake/close and the evolution loop do this is C16's business, not re-checked here",
        "H_17digits: a finite double survives \"%.16e\" / operator>> (the token model of save/load carries the bit "
        "pattern); exercised on extreme finite doubles by the correspondence; non-finite components are outside",
        "signatures are non-zero (hash_t() is the cache's empty marker): table-level theorems exclude key (0,0)",
        "load into a table that is NOT fresh is outside the property (stale slots whose seal equals the loaded seal "
        "would become live)",
    ]
    harness = vv.build_harness("h_cache")
    model = vv.ocaml_model("Cache")

    rng = ck.rng
    if ck.replay_path:
        rp = json.load(open(ck.replay_path))
        scripts = [rp["script"]] if "script" in rp else list(rp.get("scripts", []))
        if "script_unshrunk" in rp:
            scripts.append(rp["script_unshrunk"])
    else:
        scripts = list(FIXED_SCRIPTS)
        nt, npx = (6000, 2000) if ck.thorough else (700, 250)
        scripts += [gen_table_script(rng, ck.thorough) for _ in range(nt)]
        scripts += [gen_proxy_script(rng, ck.thorough) for _ in range(npx)]
        scripts += [gen_dss_script(rng, ck.thorough) for _ in range(npx // 5)]
        if ck.thorough:
            # the real thing: 2^32 clear() calls between a store and a lookup
            scripts.append("T 2 I,1,5,3ff0000000000000 N,%d F,1,5 I,1,5,4000000000000000 F,1,5" % M32)
            scripts.append("T 2 I,1,5,3ff0000000000000 N,%d F,1,5" % (M32 - 1))

    hout, crashes = pc.run_harness_resilient(harness, scripts, timeout=3000)
    # the D scripts (real dss around the proxy) have no model side: oracle only
    mscripts = [s for s in scripts if s[0] != "D"]
    rc, mlines, merr = vv.run_lines(model, "\n".join(mscripts) + "\n", timeout=3000)
    if rc != 0 or len(mlines) != len(mscripts):
        raise vv.BuildError("model driver failed: rc=%s %s" % (rc, merr[:500]))
    it = iter(mlines)
    mout = [next(it) if s[0] != "D" else None for s in scripts]

    hist = {"table_scripts": 0, "proxy_scripts": 0, "ops": 0, "finds": 0, "saveloads": 0, "proxy_evals": 0,
            "proxy_hits": 0, "wrap_scripts": 0, "dss_scripts": 0}
    shrunk = set()
    for k, s in enumerate(scripts):
        ho, mo = hout[k], mout[k]
        ck.count()
        kind = s[0]
        hist[{"T": "table_scripts", "P": "proxy_scripts", "D": "dss_scripts"}[kind]] += 1
        hist["ops"] += len(s.split()) - (5 if kind == "D" else 2)
        if ho:
            hist["proxy_fasts"] = hist.get("proxy_fasts", 0) + ho.count("a=")
            hist["finds"] += ho.count("f=")
            hist["saveloads"] += ho.count("s=")
            hist["proxy_evals"] += ho.count("e=")
            hist["proxy_hits"] += ho.count("/0")
        if " W," in s or "N,4294" in s:
            hist["wrap_scripts"] += 1
        if k < 2 or k in (len(FIXED_SCRIPTS), len(scripts) - 1):
            ck.sample({"script": s[:400], "impl": (ho or "")[:400], "model": (mo or "(oracle only)")[:400]})
        if ho is None or ho.startswith("CRASH"):
            small = shrink(harness, s, "sanitizer") if not (ck.replay_path or "sanitizer" in shrunk) else s
            shrunk.add("sanitizer")
            ck.add_violation("sanitizer", "the cache crashes or a sanitizer reports on an operation script",
                             {"script": small, "script_unshrunk": s, "impl": ho, "model": mo,
                              "sanitizer": crashes.get(k, "")[-2000:]})
            continue
        if nontrivial(s, ho):
            ck.nontriv(s)
        bad = oracle(s, ho)
        for key, what in bad[:1]:
            small = shrink(harness, s, key) if not (ck.replay_path or key in shrunk) else s
            shrunk.add(key)
            so, _ = pc.run_harness_resilient(harness, [small])
            what_small = next((w for k2, w in oracle(small, so[0] or "") if k2 == key), what)
            ck.add_violation(key, what_small,
                             {"script": small, "impl": so[0], "script_unshrunk": s, "impl_unshrunk": ho, "model": mo,
                              "protocol": "see harness/h_cache.cc"})
        if mo is not None and ho != mo:
            ck.add_diff({"script": s}, mo, ho)
    ck.coverage["histogram"] = hist
    return ck.finish(
        rule="operation scripts on tables of 2^1..2^10 slots (proxy 2^7..2^10) over key pools built to collide (same "
             "slot/different data[0], same data[0]/different data[1], keys differing only above the mask, words 0 and "
             "2^64-1), fitness sizes 0..4 over extreme finite doubles, mix of insert/find/clear/clear-one/save+load, "
             "30% of the table scripts start 1..3 clears before the 32-bit seal wrap; proxy scripts interleave "
             "evaluations of individuals sharing signatures and slots with clears and data changes; non-trivial = "
             "table history with two distinct keys stored in one slot and a clear, proxy history with a hit, a miss "
             "and a clear; distinct = distinct scripts")
