"""C12 -- A failed load leaves the target untouched.

proof:  coq/Props/Properties_C12.v (for EVERY stream, target and oracle
        behaviour) about the loaders of coq/Serial/SerialDefs.v.
tie:    correspondence: valid serialisations produced by the real library are
        damaged (every token boundary +-1 / every byte prefix; single-token
        deletions and digit-count preserving substitutions) and fed to the real
        load() under ASan/UBSan on targets that hold unrelated valid content;
        return value and target afterwards are compared with the model.
oracle: the property itself on the implementation's outputs: when load()
        returns false the target's dump (content + cached signature), its
        save bytes and is_valid() are what they were before; no sanitizer
        report, no exception.
"""
import json

import vv
import prims_common as pc
import serial_common as sc


def model_loaders(ck, hist):
    """serialize::lambda::load on damaged model streams: the saved text of a trained model of every kind cut at every
    token boundary (-1, 0, +1) and with single tokens substituted / removed (done by harness/h_lambda.cc, D cases).
    Documented outcomes: a model, nullptr, exception::data_format; nothing else, no sanitizer report."""
    import c08
    rnd = ck.rng
    if ck.replay_path:
        rp = json.load(open(ck.replay_path))
        lines = [rp["model_case"]] if "model_case" in rp else []
    else:
        # majority-vote teams only in the thorough tier: a damaged class count makes the loaded model allocate its
        # vote table for minutes before std::length_error (known finding MODEL-load:mv-team:classes-not-validated)
        lines = [c08.case_line("D", c08.gen_header(rnd, combo)) for combo in c08.COMBOS_T
                 if ck.thorough or not combo.endswith("/mv")
                 for _ in range(3 if ck.thorough else 2)]
    if not lines:
        return
    hl = vv.build_harness("h_lambda")
    out, crashes = pc.run_harness_resilient(hl, lines)
    for i, line in enumerate(lines):
        ck.count()
        w = line.split()
        combo = w[1] + "/" + w[2]
        hist["MODEL-load:" + combo] = hist.get("MODEL-load:" + combo, 0) + 1
        ho = out[i]
        replay = {"model_case": line, "impl": (ho or "")[:600]}
        if ho is None or ho.startswith("CRASH"):
            rep = crashes.get(i, "")
            dl = [x for x in rep.splitlines() if x.startswith("D-")]
            replay.update({"variant": dl[-1] if dl else None, "sanitizer": rep[-2500:]})
            ck.add_violation("MODEL-load:%s:sanitizer-report" % combo,
                             "%s: a damaged model stream (variant %s) makes serialize::lambda::load or the loaded model "
                             "crash / access memory out of bounds" % (combo, dl[-1] if dl else "?"), replay)
            continue
        tk = ho.split()
        if "R" not in tk or "other" not in tk:
            ck.add_diff({"model_case": line}, "", ho, "harness protocol (h_lambda D case)")
            continue
        nvar = int(tk[tk.index("d") + 1]) if "d" in tk else 0
        ck.count(max(nvar - 1, 0))
        ck.nontriv(("MODEL-load", line))
        nother = int(tk[tk.index("other") + 1])
        if nother > 0:
            first = tk[tk.index("other") + 2]
            key = ("MODEL-load:mv-team:classes-not-validated" if w[2] == "mv" and "length_error" in first
                   else "MODEL-load:%s:undocumented-exception" % combo)
            ck.add_violation(key, "%s: a damaged model stream makes serialize::lambda::load / the loaded model throw %s "
                                  "instead of exception::data_format (or returning nullptr)" % (combo, first), replay)
        if i < 1:
            ck.sample({"model_loader": combo, "damaged_variants": nvar, "outcomes": " ".join(tk[tk.index("R"):][:12])})


def run(ck):
    harness, model = sc.build(ck)
    ck.add_proof(vv.prove("Properties_C12", set()))
    ck.add_proof(vv.prove("Refuted_C12", set()))
    ck.trusted += sc.TRUSTED
    ck.assumptions += [sc.ASSUMPTIONS[1],
                       "no hypothesis on the floating-point oracles: the theorems hold for every read_f"]
    sset = sc.sset_lines(harness)
    rnd = ck.rng

    if ck.replay_path:
        rp = json.load(open(ck.replay_path))
        loads = [(tuple(c["target"]), c["kind"], sc.unhex(c["stream_hex"]), c.get("flags", "-"))
                 for c in (rp.get("cases") or [rp])]
    else:
        # 1. valid serialisations from the real library
        objs = sc.gen_objects(ck, 4 if ck.thorough else 3)
        objs = [o for o in objs if o[3] > 0 or o[0] in ("H", "MAT")] + [("MEP", 0, 5, 0), ("POPGA", 0, 6, 0)]
        hout, crashes = pc.run_harness_resilient(harness, ["GEN %s %d %d %d" % o for o in objs])
        loads = []
        for o, line in zip(objs, hout):
            f = sc.fields(line)
            if not f or f[0] != "OK":
                ck.add_unshown("correspondence", None, "cannot produce a valid serialisation of %s: %s" % (o, (line or "")[:100]))
                continue
            data = sc.unhex(f[2])
            dmg = [("valid", data)] + sc.damage(ck, data, ck.thorough)
            # 2. targets holding unrelated valid content (same type and symbol set):
            #    "-"  built by an unrelated history (any shape);
            #    "s"  of exactly the SHAPE of the serialised object (its own history, every value replaced);
            #    "2"  unrelated, and load() is given a second, distinct problem object (the snapshot of a
            #         population includes the problem it is bound to)
            tgt = (o[0], o[1], rnd.randint(1, 2**31 - 1), rnd.choice([1, 4, 9]))
            for kind, d in dmg:
                loads.append((tgt, kind, d, "-"))
            for kind, d in dmg:
                loads.append((o, kind, d, "s"))
            if o[0].startswith("POP"):
                sub = dmg if ck.thorough else dmg[:1] + dmg[1:40:3] + dmg[40::9]
                for kind, d in sub:
                    loads.append((tgt, kind, d, "2"))
                    loads.append((o, kind, d, "s2"))

    hl = ["LOAD %s %d %d %d %s %s" % (t + (sc.hexs(d), fl)) for t, kind, d, fl in loads]
    hout, crashes = sc.run_harness_chunks(harness, hl)

    mlines, owner = [], []
    for i, (t, kind, d, fl) in enumerate(loads):
        f = sc.fields(hout[i])
        if not f or f[0] != "OK" or len(f) < 9:
            continue
        # the model decodes with the symbol set load() was given
        mlines.append((t[1] + (2 if "2" in fl else 0), "LOAD %s %s %s" % (t[0], sc.hexs(d), f[2])))
        owner.append(i)
    mout = dict(zip(owner, sc.run_model(model, sset, mlines)))

    hist, nfail, nalloc = {}, 0, 0
    for i, (t, kind, d, fl) in enumerate(loads):
        ck.count()
        ty = t[0]
        hist[ty] = hist.get(ty, 0) + 1
        ho = hout[i]
        replay = {"target": list(t), "kind": kind, "flags": fl, "stream_hex": sc.hexs(d), "stream": d.decode("latin1")[:3000],
                  "target_is": {"-": "built by an unrelated history", "s": "same shape as the serialised object, other content",
                                "2": "unrelated; load() called with a second problem object",
                                "s2": "same shape; load() called with a second problem object"}.get(fl, fl),
                  "harness_line": hl[i][:200], "impl": (ho or "")[:1500]}
        if ho is not None and ho.startswith("CRASH"):
            rep = crashes.get(i, "")
            if ("allocator is out of memory" in rep or "allocation-size-too-big" in rep
                    or "requested allocation size" in rep):
                # the capacity to reserve for a layer (`allowed`) legitimately comes from the stream; under
                # ASan operator new aborts instead of throwing std::bad_alloc (which population::load turns
                # into `false`).  Memory allocation is not modelled: not judged.
                nalloc += 1
                continue
        if ho is None or ho.startswith("CRASH") or ho.startswith("EXC"):
            replay["sanitizer"] = crashes.get(i, "")[-2500:]
            ck.add_violation("%s:load-crash" % ty,
                             "%s::load on a damaged stream (%s) crashes, throws or makes an invalid access: %s"
                             % (ty, kind, (ho or "")[:60]), replay)
            continue
        f = sc.fields(ho)
        if f[0] != "OK" or len(f) < 9:
            ck.add_diff({"target": list(t), "kind": kind}, "", ho, "harness protocol")
            continue
        ret, dump0, save0, valid0, dump1, save1, valid1 = f[1:8]
        bound = f[8].split()
        hist[ty + ":" + fl] = hist.get(ty + ":" + fl, 0) + 1
        if ret == "0":
            nfail += 1
            ck.nontriv((ty, fl, kind.split(":")[0], d))
            # ---- oracle
            problems = []
            if dump1 != dump0:
                problems.append("target content changed")
            if save1 != save0:
                problems.append("target saves to different bytes")
            if valid1 != valid0:
                problems.append("is_valid() changed from %s to %s" % (valid0, valid1))
            if len(bound) == 2 and bound[0] != bound[1]:
                problems.append("the population is now bound to another problem object (get_problem(): %s -> %s)"
                                % (bound[0], bound[1]))
            if problems:
                replay.update({"before": dump0, "after": dump1, "problems": problems})
                ck.add_violation("%s:failed-load-modifies-target" % ty,
                                 "%s::load returned false on a damaged stream (%s) but: %s" % (ty, kind, "; ".join(problems)),
                                 replay)
        if i % (len(loads) // 5 + 1) == 0:
            ck.sample({"target": list(t), "kind": kind, "stream": d.decode("latin1")[:120], "ret": ret,
                       "target_unchanged": dump1 == dump0})
        want = "%s %s" % (ret, dump1)
        if mout.get(i) != want:
            ck.add_diff({"target": list(t), "kind": kind, "flags": fl, "stream_hex": sc.hexs(d)}, (mout.get(i) or "")[:600], want[:600],
                        "model and implementation disagree on load of a damaged stream")
    # ---- the trained models: damaged streams fed to serialize::lambda::load (harness of C08, reused read-only)
    model_loaders(ck, hist)
    ck.coverage["per_type"] = hist
    ck.coverage["failed_loads"] = nfail
    ck.coverage["allocation_aborts_not_judged"] = nalloc
    if nalloc:
        ck.notes.append("%d damaged streams made population::load reserve an absurd capacity; ASan aborts in operator new "
                        "(a production build throws std::bad_alloc, which load() turns into false): not judged" % nalloc)
    return ck.finish(
        rule="for each valid serialisation (15 types, objects built by operator histories on the real library): "
             + ("every byte prefix" if ck.thorough else "prefixes at every token boundary +-1 (sampled to 70 for long streams)")
             + ", deletion of single tokens and digit-count preserving substitutions (all 9s, all 0s, each digit +1, a "
               "non-numeric token, a lone sign, a damaged exponent), loaded by the real load() into a target of the same "
               "type: one built by an unrelated history, one of exactly the shape of the serialised object with every value replaced, and (populations) both again with load() given a second, distinct problem object, the problem a population is bound to being part of the snapshot; non-trivial = the real load() reported failure; distinct = distinct "
               "(type, damage kind, stream); plus, for trained models of 11 kinds, the saved text damaged the same way and fed to "
               "serialize::lambda::load (harness of C08): only a model, nullptr or exception::data_format may come out")
