"""C01 -- The interpreter returns the denotation of the program.

proof:  coq/Props/Properties_C01.v: the machine of kernel/gp/mep/interpreter.cc
        (memo, ip_ save/restore, fetch_param at ip_, fetch_var) returns, from
        EVERY prior interpreter state, the recursive evaluation of the unfolded
        active tree; memo invariant; layout / intron independence; laziness;
        termination with fuel = rows.  Generic in the symbols' strategies; the
        shipped primitives are the bodies regenerated from the source
        (coq/Gen/Prims.v) on every run.
tie:    regenerated primitive layer + correspondence: harness h_interp (real
        i_mep / interpreter / src_interpreter / reg_lambda_f under ASan+UBSan,
        results AND ip_/memo contents of the persistent objects) against the
        extracted machine on generated genomes and run histories.
search: executable oracles on the implementation's outputs --
        (O1) result == den of the unfolded tree (extracted spec, memo-free),
        (O2) persistent object == fresh interpreter (history independence),
        (O3) same active tree in another layout / with other introns == same results,
        (O4) a variable program returns the example's feature,
        (O5) an argument that is not asked for (a throwing sub-program in the
             untaken branch of a conditional whose outcome is known) is never needed.
"""
import json
import struct

import vv
import prims_common as pc

# ---------------------------------------------------------------- symbols
# ident -> (shape, parametric); shape maps the category vector to (category, argument categories)
SHAPES = {
    "t": lambda c: (c[0], []),
    "u": lambda c: (c[0], [c[0]]),
    "b": lambda c: (c[0], [c[0], c[0]]),
    "z": lambda c: (c[0], [c[0], c[0], c[0]]),
    "cmp": lambda c: (c[1], [c[0], c[0]]),
    "if4": lambda c: (c[1], [c[0], c[0], c[1], c[1]]),
    "if5": lambda c: (c[1], [c[0], c[0], c[0], c[1], c[1]]),
    "len": lambda c: (c[1], [c[0]]),
}
PRIMS = {
    "int_number": ("t", True), "int_add": ("b", False), "int_div": ("b", False), "int_ife": ("if4", False),
    "int_ifl": ("if4", False), "int_ifz": ("z", False), "int_mod": ("b", False), "int_mul": ("b", False),
    "int_shl": ("b", False), "int_sub": ("b", False),
    "real_real": ("t", True), "real_integer": ("t", True), "real_abs": ("u", False), "real_add": ("b", False),
    "real_aq": ("b", False), "real_cos": ("u", False), "real_div": ("b", False), "real_gt": ("cmp", False),
    "real_idiv": ("b", False), "real_ifb": ("if5", False), "real_ife": ("if4", False), "real_ifl": ("if4", False),
    "real_ifz": ("z", False), "real_length": ("len", False), "real_ln": ("u", False), "real_lt": ("cmp", False),
    "real_max": ("b", False), "real_mod": ("b", False), "real_mul": ("b", False), "real_sin": ("u", False),
    "real_sqrt": ("u", False), "real_sub": ("b", False), "real_sigmoid": ("u", False),
    "bool_zero": ("t", False), "bool_one": ("t", False), "bool_l_and": ("b", False), "bool_l_not": ("u", False),
    "bool_l_or": ("b", False), "string_ife": ("if4", False),
}
TWO = {"cmp", "if4", "if5", "len"}     # shapes that take a two-entry category vector


def penalty_kinds(snap):
    """which penalty function each shipped primitive class overrides, read from the headers of the
    snapshot: z = none (symbol::penalty_nvi returns 0), c4 = comparison_function_penalty,
    e12 = fetch_index(1) == fetch_index(2), u = something else (not compared)"""
    import os
    import re
    out = {}
    for h, pre in (("int", "int"), ("real", "real"), ("bool", "bool"), ("string", "string")):
        try:
            txt = open(os.path.join(snap, "kernel/gp/src/primitive/%s.h" % h)).read()
        except OSError:
            continue
        txt = re.sub(r"//[^\n]*", "", txt)
        parts = re.split(r"\bclass\s+(\w+)\s*:\s*public\s+(?:function|terminal)", txt)
        for i in range(1, len(parts) - 1, 2):
            name, body = parts[i], parts[i + 1]
            m = re.search(r"penalty_nvi\s*\([^)]*\)\s*const\s*(?:final|override)?\s*\{(.*?)\}", body, re.S)
            if not m:
                kind = "z"
            else:
                b = " ".join(m.group(1).split())
                if re.fullmatch(r"return comparison_function_penalty\(ci\);", b):
                    kind = "c4"
                elif re.search(r"fetch_index\(1\)\s*==\s*\w+->fetch_index\(2\)\s*;", b) and b.count("fetch_index") == 2:
                    kind = "e12"
                else:
                    kind = "u"
            out["%s_%s" % (pre, name)] = kind
    return out


PEN = {}


def dbits(x):
    return "%016x" % struct.unpack("<Q", struct.pack("<d", x))[0]


def dtok(x):
    return "d:" + dbits(x)


def stok(s):
    return "s:" + "".join("%02x" % b for b in s.encode())


def P(ident, cv):
    return {"k": "P", "id": ident, "cv": list(cv)}


def sym_info(s):
    """(category, argcats, parametric)"""
    if s["k"] == "P":
        shape, par = PRIMS[s["id"]]
        cat, ac = SHAPES[shape](s["cv"])
        return cat, ac, par
    return s["cat"], [], False


def sym_harness(s):
    k = s["k"]
    if k == "P":
        return "P/%s/%s" % (s["id"], ",".join(map(str, s["cv"])))
    if k == "V":
        return "V/%d/%d" % (s["id"], s["cat"])
    if k == "KD":
        return "KD/%s/%d" % (s["text"], s["cat"])
    if k == "KI":
        return "KI/%d/%d" % (s["val"], s["cat"])
    return "KS/%s/%d" % (s["hex"], s["cat"])


def sym_value(s):
    """value token of a constant symbol"""
    if s["k"] == "KD":
        return dtok(float(s["text"]))
    if s["k"] == "KI":
        return "i:%d" % s["val"]
    return "s:" + s["hex"]


def sym_model(s, idx):
    k = s["k"]
    if k == "P":
        cat, ac, par = sym_info(s)
        return "P/%d/%d/%s/%d/%s" % (idx[s["id"]], cat, ",".join(map(str, ac)) or "-", 1 if par else 0,
                                     PEN.get(s["id"], "z"))
    if k == "V":
        return "V/%d/%d" % (s["id"], s["cat"])
    return "K/%s/%d" % (sym_value(s), s["cat"])


def lines_of(case, idx, want_den):
    if "chain" in case:
        ch = case["chain"]
        rr = [str(len(case["runs"]))]
        for r in case["runs"]:
            rr.append(("%s 0 0 %d %s" % (r["mode"], len(r["ex"]), " ".join(r["ex"]))).strip())
        return (" ".join(["CHAIN", sym_harness(ch["f"]), sym_harness(ch["c"]), str(ch["n"])] + rr),
                " ".join(["CHAIN", sym_model(ch["f"], idx), sym_model(ch["c"], idx), str(ch["n"])] + rr))
    h = ["%d %d %d %d" % (case["ncats"], case["nrows"], case["best"][0], case["best"][1])]
    m = [h[0] + " %d" % (1 if want_den else 0)]
    hc, mc = [str(len(case["cells"]))], [str(len(case["cells"]))]
    for c in case["cells"]:
        tail = "%s %d %s" % (c["par"] or "-", len(c["args"]), " ".join(map(str, c["args"])))
        hc.append("%d %s %s" % (c["row"], sym_harness(c["sym"]), tail.strip()))
        mc.append("%d %s %s" % (c["row"], sym_model(c["sym"], idx), tail.strip()))
    rr = [str(len(case["runs"]))]
    for r in case["runs"]:
        rr.append(("%s %d %d %d %s" % (r["mode"], r["l"][0], r["l"][1], len(r["ex"]), " ".join(r["ex"]))).strip())
    if "long" in case:
        # the harness runs the whole history on one object; the model evaluates the selected runs
        lg = case["long"]
        hr = "1 H %s %d %d %s %d %s" % (lg["obj"], lg["n"], len(lg["template"]), " ".join(lg["template"]),
                                        len(lg["taken"]), " ".join(map(str, lg["taken"])))
        return " ".join(h + hc + [hr.strip()]), " ".join(m + mc + rr)
    return " ".join(h + hc + rr), " ".join(m + mc + rr)


# ------------------------------------------------------------ DAG helpers
def cell_map(case):
    return {(c["row"], sym_info(c["sym"])[0]): c for c in case["cells"]}


def arg_loci(c):
    _, ac, _ = sym_info(c["sym"])
    return [(a, k) for a, k in zip(c["args"], ac)]


def tree_sizes(case):
    cm = cell_map(case)
    memo = {}
    for key in sorted(cm, reverse=True):
        memo[key] = 1 + sum(memo.get(l, 0) for l in arg_loci(cm[key]))
    return memo


def active(case, root):
    cm = cell_map(case)
    seen, parents, stack = set(), {}, [tuple(root)]
    while stack:
        l = stack.pop()
        if l in seen or l not in cm:
            continue
        seen.add(l)
        for i, a in enumerate(arg_loci(cm[l])):
            parents.setdefault(a, set()).add((l, i))
            stack.append(a)
    shared = sum(1 for l, p in parents.items() if len(p) >= 2)
    return seen, shared


# -------------------------------------------------------------- generators
SPECIAL_D = [0.0, -0.0, 1.0, -1.0, 2.0, 0.5, 3.0, 1e300, -1e300, 1e-300, 5e-324, 2.2250738585072014e-308,
             1.7976931348623157e308, 4.440892098500626e-16, 2.220446049250313e-16, 1e-9, 1000.0, -128.0, 0.1]
STRS = ["", "a", "abc", "abd", "car", "plane", "A longer string, with spaces"]


def rnd_double(rnd):
    r = rnd.random()
    if r < 0.45:
        return rnd.choice(SPECIAL_D)
    if r < 0.75:
        return float(rnd.randint(-20, 20))
    if r < 0.9:
        return rnd.uniform(-1000, 1000)
    return rnd.choice([1, -1]) * 10.0 ** rnd.randint(-310, 308) * rnd.random()


def rnd_const_double(rnd):
    """doubles for constant<double>("text"): std::stod must not see a subnormal (ERANGE)"""
    r = rnd.random()
    if r < 0.5:
        return rnd.choice([0.0, -0.0, 1.0, -1.0, 2.0, 0.5, 3.0, 1e300, -1e300, 1e-300, 0.1, 1e-9, 1000.0,
                           4.440892098500626e-16])
    if r < 0.8:
        return float(rnd.randint(-20, 20))
    return rnd.uniform(-1000, 1000)


def rnd_int(rnd):
    r = rnd.random()
    if r < 0.5:
        return rnd.randint(-5, 5)
    if r < 0.8:
        return rnd.choice([2**31 - 1, -2**31, 2**31 - 2, 31, 32, 46341, 65536, -1])
    return rnd.randint(-2**31, 2**31 - 1)


def value_for(rnd, dom, illtyped=0.0):
    if rnd.random() < illtyped:
        dom = rnd.choice(["real", "int", "str", "void"])
    if dom == "void":
        return "v"
    if dom == "real":
        return dtok(rnd_double(rnd))
    if dom == "int":
        return "i:%d" % rnd_int(rnd)
    return stok(rnd.choice(STRS))


def terminal_for(rnd, cat, dom, nvars_of_cat):
    """a terminal symbol of category cat (domain dom) + par"""
    r = rnd.random()
    if nvars_of_cat and r < 0.45:
        return rnd.choice(nvars_of_cat), None
    if dom == "real":
        if r < 0.6:
            return P("real_real", [cat]), dbits(rnd_double(rnd))
        if r < 0.75:
            return P("real_integer", [cat]), dbits(float(rnd.randint(-128, 127)))
        return {"k": "KD", "text": repr(rnd_const_double(rnd)), "cat": cat}, None
    if dom == "int":
        if r < 0.6:
            return P("int_number", [cat]), dbits(float(rnd_int(rnd)))
        if r < 0.7:
            return P(rnd.choice(["bool_zero", "bool_one"]), [cat]), None
        return {"k": "KI", "val": rnd_int(rnd), "cat": cat}, None
    return {"k": "KS", "hex": rnd.choice(STRS).encode().hex(), "cat": cat}, None


def function_templates(cat, doms):
    """symbols returning category cat"""
    d = doms[cat]
    out = []
    reals = [c for c, x in enumerate(doms) if x == "real"]
    ints = [c for c, x in enumerate(doms) if x == "int"]
    strs = [c for c, x in enumerate(doms) if x == "str"]
    if d == "real":
        for n in ["real_abs", "real_cos", "real_ln", "real_sin", "real_sqrt", "real_sigmoid", "real_add", "real_aq",
                  "real_div", "real_idiv", "real_max", "real_mod", "real_mul", "real_sub", "real_ifz",
                  "real_add", "real_mul", "real_sub", "real_ifz"]:
            out.append(P(n, [cat]))
        for s in strs:
            out.append(P("real_length", [s, cat]))
    if d == "int":
        for n in ["int_add", "int_div", "int_mod", "int_mul", "int_shl", "int_sub", "int_ifz",
                  "bool_l_and", "bool_l_or", "bool_l_not"]:
            out.append(P(n, [cat]))
        for r in reals:
            out.append(P("real_gt", [r, cat]))
            out.append(P("real_lt", [r, cat]))
    for r in reals:
        for n in ["real_ife", "real_ifl", "real_ifb"]:
            out.append(P(n, [r, cat]))
    for i in ints:
        for n in ["int_ife", "int_ifl"]:
            out.append(P(n, [i, cat]))
    for s in strs:
        out.append(P("string_ife", [s, cat]))
    return out


def gen_random_case(rnd, size_class, full_rows=False):
    """full_rows: every row has a cell in every category and the arguments of the different
    categories are drawn from the same few rows, so that one run reaches the same row index in
    several categories (the memo must be keyed by row AND category)"""
    ncats = rnd.choice([1, 1, 2, 2, 3, 3, 4, 5]) if not full_rows else rnd.choice([2, 2, 3, 4])
    doms = [rnd.choice(["real", "real", "int", "str"]) for _ in range(ncats)]
    if ncats == 1:
        doms = [rnd.choice(["real", "real", "real", "int"])]
    if all(d == "str" for d in doms):
        doms[0] = "real"
    if size_class == "small":
        nrows = rnd.randint(2, 12)
    elif size_class == "medium":
        nrows = rnd.randint(10, 45)
    else:
        nrows = rnd.randint(60, 200)
    patch = min(nrows - 1, rnd.randint(1, 5)) if nrows > 1 else 1
    nvars = rnd.randint(0, 5)
    variables = []
    for v in range(nvars):
        variables.append({"k": "V", "id": v, "cat": rnd.randrange(ncats)})
    templates = [function_templates(c, doms) for c in range(ncats)]
    window = rnd.choice([2, 3, 4, 8, 1000]) if not full_rows else rnd.choice([1, 2, 2, 3])
    populated = {c: [] for c in range(ncats)}      # rows (descending order of creation) having a cell of category c
    cells = []
    for row in range(nrows - 1, -1, -1):
        in_patch = row >= nrows - patch
        if row == nrows - 1 or full_rows:
            cats_here = list(range(ncats))
        else:
            k = 1 if ncats == 1 else rnd.choice([1, 1, 1, 2, ncats])
            cats_here = rnd.sample(range(ncats), min(k, ncats))
        for cat in cats_here:
            sym, par, args = None, None, []
            if not in_patch and templates[cat] and rnd.random() < 0.85:
                for _ in range(6):
                    cand = rnd.choice(templates[cat])
                    _, ac, _ = sym_info(cand)
                    if all(populated[a] for a in ac):
                        sym = cand
                        for a in ac:
                            rows_a = populated[a]          # most recent (= nearest) first
                            args.append(rnd.choice(rows_a[:window]))
                        break
            if sym is None:
                sym, par = terminal_for(rnd, cat, doms[cat], [v for v in variables if v["cat"] == cat])
            cells.append({"row": row, "sym": sym, "par": par, "args": args})
        for cat in cats_here:
            populated[cat].insert(0, row)
    cells.reverse()
    # best: a populated cell of row 0 (i_mep(std::vector<gene>) sets {0,0}; other loci via get_block)
    row0 = [c for c in cells if c["row"] == 0]
    bc = rnd.choice(row0)
    case = {"ncats": ncats, "nrows": nrows, "best": [0, sym_info(bc["sym"])[0]], "cells": cells,
            "family": "rowshare" if full_rows else "random", "doms": doms, "vars": variables}
    # runs
    loci = [(c["row"], sym_info(c["sym"])[0]) for c in cells]
    nruns = rnd.randint(1, 8) if size_class != "large" else rnd.randint(1, 3)
    illtyped = rnd.choice([0.0, 0.0, 0.0, 0.05, 0.3])
    runs = []
    for _ in range(nruns):
        ex = []
        for v in variables:
            dom = doms[v["cat"]]
            ex.append("v" if rnd.random() < 0.06 else value_for(rnd, dom, illtyped))
        mode = rnd.choice("bBeeskklLsssLlCpT")
        l = rnd.choice(loci) if mode in "klp" else tuple(case["best"])
        if mode == "T":
            # a team of 1..4 blocks of this genome whose outputs are numbers
            numeric = [x for x in loci if doms[x[1]] in ("real", "int")]
            if not numeric:
                mode = "s"
            else:
                if "team" not in case or rnd.random() < 0.3:
                    case["team"] = [rnd.choice(numeric) for _ in range(rnd.randint(1, 4))]
                mode = "T:" + ";".join("%d,%d" % m for m in case["team"])
        runs.append({"mode": mode, "l": list(l), "ex": ex})
    case["runs"] = runs
    return case


def gen_var_case(rnd):
    """(O4) the program is a variable: the result is the feature at its position"""
    nvars = rnd.randint(1, 6)
    vid = rnd.randrange(nvars)
    cells = [{"row": 0, "sym": {"k": "V", "id": vid, "cat": 0}, "par": None, "args": []}]
    if rnd.random() < 0.5:
        cells.append({"row": 1, "sym": {"k": "KD", "text": "1.5", "cat": 0}, "par": None, "args": []})
    runs, expect = [], []
    for _ in range(rnd.randint(1, 5)):
        ex = [value_for(rnd, rnd.choice(["real", "int", "str", "void"])) for _ in range(nvars)]
        mode = rnd.choice("esLlC")
        runs.append({"mode": mode, "l": [0, 0], "ex": ex})
        expect.append(ex[vid])
    return {"ncats": 1, "nrows": len(cells), "best": [0, 0], "cells": cells, "runs": runs,
            "family": "var", "expect": expect}


def gen_lazy_case(rnd):
    """(O5) a conditional whose outcome is known, a throwing sub-program in the
    branch that is not taken; expected result = the taken terminal"""
    c = 0
    kind = rnd.choice(["real_ife", "real_ifl", "real_ifz", "real_ifb", "int_ife", "int_ifl", "int_ifz",
                       "string_ife", "bool_l_and", "bool_l_or"])
    take_then = rnd.random() < 0.5
    # rows: 0 root, 1 taken terminal, 2 poison (int_ife on a string constant), 3.. condition constants, last: string const
    cells = []
    nvars = rnd.randint(1, 3)
    vid = rnd.randrange(nvars)
    if kind.startswith("bool"):
        taken = None
    elif rnd.random() < 0.5:
        taken = {"k": "V", "id": vid, "cat": c}
    else:
        taken = rnd.choice([{"k": "KD", "text": repr(rnd_const_double(rnd)), "cat": c},
                            {"k": "KI", "val": rnd_int(rnd), "cat": c},
                            {"k": "KS", "hex": rnd.choice(STRS).encode().hex(), "cat": c}])
    T, POISON, A, B, C, S = 1, 2, 3, 4, 5, 6
    kd = lambda x: {"k": "KD", "text": repr(x), "cat": c}
    ki = lambda x: {"k": "KI", "val": x, "cat": c}
    ks = lambda x: {"k": "KS", "hex": x.encode().hex(), "cat": c}
    a = b = cc = kd(0.0)
    then_i, else_i = 2, 3
    if kind == "real_ife":
        a, b = kd(1.5), (kd(1.5) if take_then else kd(2.5))
        args = [A, B, None, None]
    elif kind == "real_ifl":
        a, b = (kd(1.0), kd(2.0)) if take_then else (kd(2.0), kd(1.0))
        args = [A, B, None, None]
    elif kind == "real_ifz":
        a = kd(0.0) if take_then else kd(3.0)
        args = [A, None, None]
        then_i, else_i = 1, 2
    elif kind == "real_ifb":
        a, b, cc = (kd(2.0) if take_then else kd(9.0)), kd(1.0), kd(3.0)
        args = [A, B, C, None, None]
        then_i, else_i = 3, 4
    elif kind == "int_ife":
        a, b = ki(7), (ki(7) if take_then else ki(8))
        args = [A, B, None, None]
    elif kind == "int_ifl":
        a, b = (ki(1), ki(2)) if take_then else (ki(2), ki(1))
        args = [A, B, None, None]
    elif kind == "int_ifz":
        a = ki(0) if take_then else ki(5)
        args = [A, None, None]
        then_i, else_i = 1, 2
    elif kind == "string_ife":
        a, b = ks("abc"), (ks("abc") if take_then else ks("abd"))
        args = [A, B, None, None]
    elif kind == "bool_l_and":
        a = ki(0)
        args = [A, POISON]
    else:
        a = ki(1)
        args = [A, POISON]
    if not kind.startswith("bool"):
        args[then_i] = T if take_then else POISON
        args[else_i] = POISON if take_then else T
    cv = [c] if PRIMS[kind][0] not in TWO else [c, c]
    cells.append({"row": 0, "sym": P(kind, cv), "par": None, "args": args})
    cells.append({"row": T, "sym": taken or ki(0), "par": None, "args": []})
    # poison: IFE(cast("x"), ...) throws std::bad_variant_access as soon as it is evaluated;
    # it shares its other arguments with the live part of the program
    cells.append({"row": POISON, "sym": P("int_ife", [c, c]), "par": None, "args": [S, A, A, B]})
    cells.append({"row": A, "sym": a, "par": None, "args": []})
    cells.append({"row": B, "sym": b, "par": None, "args": []})
    cells.append({"row": C, "sym": cc, "par": None, "args": []})
    cells.append({"row": S, "sym": ks("x"), "par": None, "args": []})
    runs, expect = [], []
    for _ in range(rnd.randint(1, 4)):
        ex = [value_for(rnd, rnd.choice(["real", "int", "str"])) for _ in range(nvars)]
        mode = rnd.choice("esLbBC") if (taken is None or taken["k"] != "V") else rnd.choice("esLC")
        runs.append({"mode": mode, "l": [0, 0], "ex": ex})
        if kind == "bool_l_and":
            expect.append("i:0")
        elif kind == "bool_l_or":
            expect.append("i:1")
        elif taken["k"] == "V":
            expect.append(ex[vid])
        else:
            expect.append(sym_value(taken))
    return {"ncats": 1, "nrows": 7, "best": [0, 0], "cells": cells, "runs": runs, "family": "lazy",
            "expect": expect, "what": "%s %s" % (kind, "then" if take_then else "else"),
            "poison_arg": args.index(POISON), "taken_arg": (args.index(T) if T in args else None)}


I32_MIN, I32_MAX = -2 ** 31, 2 ** 31 - 1


def chain_expect(kind, c, x, n):
    """F(F(...F(x, c)..., c), c) nested n deep, computed by plain iteration (binary64 / saturating
    int32 arithmetic as documented for the primitives)"""
    import math
    if kind.startswith("real"):
        v = x
        for _ in range(n):
            v = v + c if kind == "real_add" else v - c
            if not math.isfinite(v):
                return "v"
        return dtok(v)
    v = x
    for _ in range(n):
        v = max(I32_MIN, min(I32_MAX, v + c if kind == "int_add" else v - c))
    return "i:%d" % v


def gen_chain_case(rnd, n):
    """a linear chain nested n deep over a real or an integer primitive, non-trivial leaf (the
    example's feature), so that the value depends on every level"""
    kind = rnd.choice(["real_add", "real_sub", "int_add", "int_sub"])
    if kind.startswith("real"):
        cval = rnd.choice([1.0, 0.5, 0.1, 3.0])
        csym = {"k": "KD", "text": repr(cval), "cat": 0}
        xs = [rnd.choice([0.0, 1.5, -7.25, 1e6]) for _ in range(2)]
        exs = [[dtok(x)] for x in xs]
    else:
        cval = rnd.choice([1, 3, 100000])
        csym = {"k": "KI", "val": cval, "cat": 0}
        xs = [rnd.choice([0, -5, 2 ** 31 - 10, -2 ** 31 + 3]) for _ in range(2)]
        exs = [["i:%d" % x] for x in xs]
    runs, expect = [], []
    for x, ex in zip(xs, exs):
        runs.append({"mode": rnd.choice("esL"), "l": [0, 0], "ex": ex})
        expect.append(chain_expect(kind, cval, x, n))
    return {"ncats": 1, "nrows": n + 2, "best": [0, 0], "cells": [], "runs": runs, "family": "deepchain",
            "chain": {"f": P(kind, [0]), "c": csym, "n": n}, "expect": expect}


def chain_depths(ck):
    d = [100, 1000, 4095, 4096, 4097, 5000, 10000, 20000]
    if ck.thorough:
        d += [255, 256, 257, 2 ** 15 - 1, 2 ** 15, 2 ** 15 + 1, 40000, 65000, 65533]
    return d


def long_example(lg, r):
    tk = r in lg["taken"]
    out = []
    for t in lg["template"]:
        if t == "#":
            out.append(dtok(float(r)))
        elif t == "#i":
            out.append("i:%d" % r)
        elif t.startswith("@"):
            a, b = t[1:].split("|")
            out.append(a if tk else b)
        else:
            out.append(t)
    return out


def gen_long_case(rnd, taken, n):
    """one persistent object run n times on a tiny program whose conditional takes its rare
    branch exactly on the runs in `taken`; the rare branch is a sub-expression of the run number,
    so a memo entry that survives from an earlier run (or from construction) gives a different value"""
    kind = rnd.choice(["real_ifl", "real_ife", "real_ifz"])
    rare_then = rnd.random() < 0.5
    kd = lambda x: {"k": "KD", "text": repr(x), "cat": 0}
    then_row, else_row = 3, 4
    cond = {"real_ifl": [1, 2, then_row, else_row], "real_ife": [1, 2, then_row, else_row],
            "real_ifz": [1, then_row, else_row]}[kind]
    cv = [0, 0] if PRIMS[kind][0] in TWO else [0]
    rare_ops = rnd.choice([("real_add", "real_mul"), ("real_sub", "real_add"), ("real_mul", "real_sub")])
    cells = [
        {"row": 0, "sym": P(kind, cv), "par": None, "args": cond},
        {"row": 1, "sym": {"k": "V", "id": 0, "cat": 0}, "par": None, "args": []},
        {"row": 2, "sym": kd(0.5 if kind == "real_ifl" else 0.0), "par": None, "args": []},
        {"row": 3, "sym": P(rare_ops[0], [0]), "par": None, "args": [5, 6]},
        {"row": 4, "sym": P(rare_ops[1], [0]), "par": None, "args": [5, 6]},
        {"row": 5, "sym": {"k": "V", "id": 1, "cat": 0}, "par": None, "args": []},
        {"row": 6, "sym": kd(float(rnd.randint(2, 9))), "par": None, "args": []},
    ]
    # x0 = 0 selects THEN for the three conditionals, x0 = 1 selects ELSE
    on, off = (dtok(0.0), dtok(1.0)) if rare_then else (dtok(1.0), dtok(0.0))
    lg = {"obj": rnd.choice("sL"), "n": n, "template": ["@%s|%s" % (on, off), "#"], "taken": sorted(taken)}
    selected = sorted(set(taken) | {1, 2, n} | {t - 1 for t in taken if t > 1} | {t + 1 for t in taken if t < n})
    runs = [{"mode": "e", "l": [0, 0], "ex": long_example(lg, r)} for r in selected]
    lg["selected"] = selected
    return {"ncats": 1, "nrows": 7, "best": [0, 0], "cells": cells, "runs": runs, "family": "long", "long": lg}


def long_schedules(ck):
    """(taken runs, history length): a rare branch first taken at run p, and taken at runs a and
    a + p, for p a power of two (a wrapping run counter / generation stamp of 8 or 16 bits)"""
    rnd = ck.rng
    out = []
    periods = [2 ** 8, 2 ** 16]
    if ck.thorough:
        periods = [2 ** k for k in range(4, 18)] + [2 ** 17, 3 * 2 ** 16]
    for p in periods:
        a = rnd.randint(1, 9)
        out.append(([p], p + 2))
        out.append(([a, a + p], a + p + 2))
        if ck.thorough:
            out.append(([p - 1, 2 * p - 1], 2 * p + 1))
            out.append(([a, a + 2 * p], a + 2 * p + 1))
    # a history with random rare runs
    n = 3000 if not ck.thorough else 200000
    out.append((sorted(rnd.sample(range(1, n), 6)), n))
    return out


def unshare(case):
    """the active tree of the case written as a tree: one row per node, pre-order; None if too big"""
    cm = cell_map(case)
    root = tuple(case["best"])
    if tree_sizes(case).get(root, 10 ** 9) > 180:
        return None
    runs = [dict(r) for r in case["runs"] if r["mode"] in "bBesLC"]
    if not runs:
        return None
    cells = []

    def emit(l):
        row = len(cells)
        c = cm[l]
        new = {"row": row, "sym": c["sym"], "par": c["par"], "args": []}
        cells.append(new)
        for a in arg_loci(c):
            new["args"].append(emit(a))
        return row
    emit(root)
    for r in runs:
        r["l"] = [0, root[1]]
    return {"ncats": case["ncats"], "nrows": len(cells), "best": [0, root[1]], "cells": cells, "runs": runs,
            "family": "layout", "how": "unshare"}


def relayout(rnd, case):
    """(O3) the same active tree in another genome: either fully unshared (one
    row per tree node, pre-order) or shifted with junk rows and rewritten
    introns.  Returns None when not applicable."""
    cm = cell_map(case)
    root = tuple(case["best"])
    sizes = tree_sizes(case)
    runs = [dict(r) for r in case["runs"] if r["mode"] in "bBesLC"]
    if not runs:
        return None
    how = rnd.choice(["unshare", "junk"])
    if how == "unshare" and sizes[root] <= 180:
        return unshare(case)
    else:
        how = "junk"
        act, _ = active(case, root)
        # new row numbers: insert junk rows, keep order
        extra = sorted(rnd.randint(0, case["nrows"]) for _ in range(rnd.randint(1, 4)))
        newrow, shift, k = {}, 0, 0
        for r in range(case["nrows"]):
            while k < len(extra) and extra[k] <= r:
                shift += 1
                k += 1
            newrow[r] = r + shift
        # the root must stay on a row whose first... any row works: best is set through get_block
        cells = []
        for c in case["cells"]:
            key = (c["row"], sym_info(c["sym"])[0])
            if key in act:
                cells.append({"row": newrow[c["row"]], "sym": c["sym"], "par": c["par"],
                              "args": [newrow[a] for a in c["args"]]})
            else:
                # an intron: another terminal of the same category
                cells.append({"row": newrow[c["row"]], "sym": {"k": "KI", "val": rnd.randint(-9, 9), "cat": key[1]},
                              "par": None, "args": []})
        nrows = case["nrows"] + len(extra)
        used = {c["row"] for c in cells}
        for r in range(nrows):
            if r not in used:
                cells.append({"row": r, "sym": {"k": "KS", "hex": "6a756e6b", "cat": rnd.randrange(case["ncats"])},
                              "par": None, "args": []})
        cells.sort(key=lambda c: c["row"])
        out = {"ncats": case["ncats"], "nrows": nrows, "best": [newrow[root[0]], root[1]], "cells": cells}
    for r in runs:
        r["l"] = list(out["best"])
    out.update({"runs": runs, "family": "layout", "how": how})
    return out


# ------------------------------------------------------------------- check
DEN_LIMIT = 4000


def want_den(case):
    if "chain" in case:
        return True
    sizes = tree_sizes(case)
    roots = {tuple(case["best"])} | {tuple(r["l"]) for r in case["runs"]}
    return max(sizes.get(l, 0) for l in roots) <= DEN_LIMIT


def parse_out(line):
    """'C ... | R x F y S z | ...' -> (head, [(R, second, S)])"""
    parts = line.split(" | ")
    runs = []
    for p in parts[1:]:
        w = p.split(" ")
        r, second = w[1], w[3]
        rest = w[5:]
        asked = None
        if len(rest) >= 2 and rest[-2] == "A":
            asked = rest[-1]
            rest = rest[:-2]
        runs.append((r, second, " ".join(rest), asked))
    return parts[0], runs


def expected_cats(case):
    out = []
    for c in case["cells"]:
        cat, ac, _ = sym_info(c["sym"])
        out.append("%d:%d:%s" % (c["row"], cat, ",".join(map(str, ac)) or "-"))
    return "C " + " ".join(out)


def strip_case(case):
    return {k: case[k] for k in ("ncats", "nrows", "best", "cells", "runs", "family", "expect", "what", "how", "base", "poison_arg", "taken_arg", "long", "chain")
            if k in case}


def generate(ck):
    rnd = ck.rng
    n = 40 if ck.thorough else 2
    cases = []
    for _ in range(260 * n):
        cases.append(gen_var_case(rnd))
    for _ in range(500 * n):
        cases.append(gen_lazy_case(rnd))
    base = []
    for _ in range(1500 * n):
        base.append(gen_random_case(rnd, "small"))
    for _ in range(700 * n):
        base.append(gen_random_case(rnd, "medium"))
    for _ in range(40 * n):
        base.append(gen_random_case(rnd, "large"))
    for _ in range(500 * n):
        base.append(gen_random_case(rnd, "small", full_rows=True))
    for _ in range(150 * n):
        base.append(gen_random_case(rnd, "medium", full_rows=True))
    for depth in chain_depths(ck):
        cases.append(gen_chain_case(rnd, depth))
        if depth <= 300 or ck.thorough and depth <= 1000:
            pass
    for taken, hn in long_schedules(ck):
        cases.append(gen_long_case(rnd, taken, hn))
    for b in base:
        cases.append(b)
        if rnd.random() < 0.4:
            v = relayout(rnd, b)
            if v is not None:
                v["base"] = len(cases) - 1
                cases.append(v)
    return cases


class Collect:
    """a sink with the recording interface of vv.Check, used by the shrinker"""
    def __init__(self):
        self.violations, self.diffs = [], []

    def add_violation(self, key, what, replay):
        self.violations.append({"key": key, "what": what, "replay": replay})

    def add_diff(self, *a, **k):
        self.diffs.append(a)

    def count(self, n=1):
        pass

    def nontriv(self, c):
        pass

    def sample(self, s, maxn=6):
        pass


def judge(cases, env, sink, hist):
    """run harness and model on the cases, compare, evaluate the oracles"""
    idx, harness, model = env
    hl, ml = [], []
    for c in cases:
        h, m = lines_of(c, idx, want_den(c))
        hl.append(h)
        ml.append(m)
    hout, crashes = pc.run_harness_resilient(harness, hl)
    rc, mout, merr = vv.run_lines(model, "\n".join(ml) + "\n")
    if rc != 0 or len(mout) != len(cases):
        raise vv.BuildError("model driver failed: rc=%s %s" % (rc, merr[:500]))

    def bump(h, k):
        hist[h][k] = hist[h].get(k, 0) + 1
    parsed = [None] * len(cases)
    for k, c in enumerate(cases):
        sink.count(len(c["runs"]))
        bump("family", c["family"])
        bump("rows", "<=12" if c["nrows"] <= 12 else "<=45" if c["nrows"] <= 45 else ">45")
        bump("cats", str(c["ncats"]))
        ho, mo = hout[k], mout[k]
        rep = {"cases": [strip_case(c)], "harness_line": hl[k], "impl": ho, "model": mo}
        if "base" in c:
            rep["cases"] = [strip_case(cases[c["base"]]), dict(strip_case(c), base=0)]
        if ho is None or ho.startswith("CRASH"):
            sink.add_violation("sanitizer:%s" % c["family"], "the interpreter executes undefined behaviour on a "
                             "well-formed program (sanitizer report / crash)",
                             dict(rep, sanitizer=crashes.get(k, "")[-2000:]))
            continue
        if ho.startswith("BADLINE") or mo.startswith("BADLINE"):
            sink.add_diff({"case": hl[k][:300]}, mo[:200], ho[:200], "harness or model driver rejected the case")
            continue
        if "long" in c:
            judge_long(c, ho, mo, rep, sink, hist)
            continue
        if "chain" in c:
            judge_chain(c, ho, mo, rep, sink, hist)
            continue
        head, hruns = parse_out(ho)
        mhead, mruns = parse_out(mo)
        parsed[k] = hruns
        if head != expected_cats(c):
            sink.add_diff({"case": hl[k][:300]}, expected_cats(c), head, "symbol categories differ from the model's table")
        if mhead != "W 1":
            sink.add_diff({"case": hl[k][:300]}, mhead, "-", "generated genome is not wf_genome_b (generator bug)")
        _, shared = active(c, c["best"])
        if shared or len({tuple(r["ex"]) for r in c["runs"] if r["mode"][0] in "slLBCT"}) >= 2:
            sink.nontriv(hl[k])
        for j, run_ in enumerate(c["runs"]):
            bump("mode", run_["mode"][0])
            hr, hf, hs, _ = hruns[j]
            mr, md, ms, masked = mruns[j]
            bump("outcome", "THROW" if hr == "THROW" else hr[0])
            rj = dict(rep, run_index=j, mode=run_["mode"])
            if run_["mode"] == "p":
                # penalty_locus: correspondence only (the property does not speak about penalties)
                cellp = cell_map(c).get(tuple(run_["l"]))
                pid = cellp["sym"].get("id") if cellp and cellp["sym"]["k"] == "P" else None
                if mr == "p:UB":
                    bump("outcome", "penalty-reads-missing-argument")
                    hist.setdefault("notes", {})["penalty of %s reads an argument index the gene does not "
                                                 "have (comparison_function_penalty on arity < 4)" % pid] = 1
                elif PEN.get(pid, "z") == "u":
                    bump("outcome", "penalty-not-modelled")
                elif hr != mr or (hs != ms and hs != "?"):
                    sink.add_diff({"case": hl[k][:400], "run": j}, "R %s S %s" % (mr, ms), "R %s S %s" % (hr, hs),
                                  "penalty_locus differs")
                continue
            if run_["mode"].startswith("T:"):
                # O6: a team's output is the running mean of what its members return on their own
                members = hf.split(";")
                if any(x.startswith("s:") for x in members):
                    bump("outcome", "team-with-string-member-not-modelled")
                    continue
                exp, avg, count = None, 0.0, 0.0
                for mres in members:
                    if mres == "THROW":
                        exp = "THROW"
                        break
                    if mres == "v":
                        continue
                    x = float(int(mres[2:])) if mres[0] == "i" else struct.unpack("<d", struct.pack("<Q", int(mres[2:], 16)))[0]
                    count += 1.0
                    avg += (x - avg) / count
                if exp is None:
                    exp = dtok(avg) if count > 0.0 else "v"
                if avg != avg:
                    exp = "d:7ff8000000000000"
                if hr != mr:
                    sink.add_diff({"case": hl[k][:400], "run": j}, "R %s" % mr, "R %s" % hr, "team output differs")
                if hr != exp:
                    sink.add_violation("team", "run %d: a reg_lambda_f over the team %s returns %s, the running mean of "
                                       "its members' own results %s is %s" % (j, run_["mode"][2:], hr, members, exp),
                                       dict(rj, got=hr, members=members, expected=exp))
                continue
            # correspondence: machine model vs implementation (result and state)
            if hs == "?":
                # the private memo / ip_ no longer have the modelled shape: results only
                bump("outcome", "state-not-observable")
                ms = "?"
            if hr != mr or hs != ms:
                sink.add_diff({"case": hl[k][:400], "run": j}, "R %s S %s" % (mr, ms), "R %s S %s" % (hr, hs))
            # O1: the denotation of the unfolded tree
            if md != "-":
                hist["outcome"]["judged-against-den"] = hist["outcome"].get("judged-against-den", 0) + 1
                if md in ("STUCK", "NOTREE"):
                    sink.add_diff({"case": hl[k][:300], "run": j}, md, hr, "generated case has no defined denotation")
                elif hr != md:
                    sink.add_violation("denotation:%s" % run_["mode"],
                                     "run %d (mode %s) returns %s, the recursive evaluation of the active tree gives %s"
                                     % (j, run_["mode"], hr, md), dict(rj, got=hr, denotation=md))
            # O2: history independence (impl vs impl)
            if hf != "-" and hf != hr:
                sink.add_violation("history:%s" % run_["mode"],
                                 "run %d on a used interpreter object (mode %s) returns %s, a fresh interpreter returns %s"
                                 % (j, run_["mode"], hr, hf), dict(rj, got=hr, fresh=hf))
            # O4 / O5: model-free expectations
            if c["family"] == "lazy":
                # the expectation presupposes that the conditional, as written in the source NOW, does
                # not ask for the poisoned position and asks for the other branch (the regenerated
                # strategy tells); otherwise the case says nothing about laziness
                if masked in (None, "-"):
                    continue
                asked_now = masked.split(",")
                if str(c["poison_arg"]) in asked_now:
                    bump("outcome", "lazy-not-applicable")
                    continue
                if hr == "THROW":
                    sink.add_violation("lazy:%s" % run_["mode"],
                                       "argument %d of the root is not asked for, yet its throwing sub-program was "
                                       "evaluated (result THROW)" % c["poison_arg"], dict(rj, got=hr, asked=masked))
                    continue
                if c.get("taken_arg") is not None and str(c["taken_arg"]) not in asked_now:
                    continue
            if "expect" in c and hr != c["expect"][j]:
                key = "feature" if c["family"] == "var" else "lazy"
                sink.add_violation("%s:%s" % (key, run_["mode"]),
                                   ("a variable program returns %s, the example's feature is %s" if key == "feature" else
                                    "conditional returns %s, the branch it asks for evaluates to %s")
                                   % (hr, c["expect"][j]), dict(rj, got=hr, expected=c["expect"][j]))
        # O3: same active tree, other layout (impl vs impl)
        if "base" in c and parsed[c["base"]] is not None:
            b = cases[c["base"]]
            bres = [parsed[c["base"]][j][0] for j, r in enumerate(b["runs"]) if r["mode"] in "bBesLC"]
            vres = [r[0] for r in hruns]
            if bres != vres:
                sink.add_violation("layout:%s" % c["how"],
                                 "the same active tree laid out differently (%s) gives %s instead of %s"
                                 % (c["how"], vres, bres), dict(rep, base_results=bres, variant_results=vres))
        if k < 2 or k % (len(cases) // 4 + 1) == 0:
            sink.sample({"family": c["family"], "harness_line": hl[k][:600], "impl": ho[:400], "model": mo[:400]})


def judge_chain(c, ho, mo, rep, sink, hist):
    """a chain nested n deep: O1 against den (accumulated from the leaf by the model driver) and
    against the plain iteration of the documented arithmetic, O2 against a fresh interpreter"""
    ch = c["chain"]
    _, hruns = parse_out(ho)
    _, mruns = parse_out(mo)
    sink.nontriv("chain %s %d" % (ch["f"]["id"], ch["n"]))
    desc = "%s chain nested %d deep (code length %d)" % (ch["f"]["id"], ch["n"], ch["n"] + 2)
    for j, run_ in enumerate(c["runs"]):
        hr, hf = hruns[j][0], hruns[j][1]
        md = mruns[j][1]
        hist["mode"][run_["mode"]] = hist["mode"].get(run_["mode"], 0) + 1
        hist["outcome"]["judged-against-den"] = hist["outcome"].get("judged-against-den", 0) + 1
        rj = dict(rep, run_index=j, mode=run_["mode"], chain_depth=ch["n"])
        if md != c["expect"][j]:
            sink.add_diff({"case": rep["harness_line"][:200], "run": j}, md, c["expect"][j],
                          "den of the chain differs from the plain iteration (model or generator wrong)")
        if hr != md:
            sink.add_violation("denotation:deepchain", "%s: run %d (mode %s) on %s returns %s, the recursive evaluation "
                               "of the active tree gives %s" % (desc, j, run_["mode"], run_["ex"], hr, md),
                               dict(rj, got=hr, denotation=md))
        if hf != "-" and hf != hr:
            sink.add_violation("history:deepchain", "%s: run %d returns %s on the used object, %s on a fresh one"
                               % (desc, j, hr, hf), dict(rj, got=hr, fresh=hf))


def judge_long(c, ho, mo, rep, sink, hist):
    """one object run n times: every run was compared with a fresh interpreter inside the harness
    (O2); the runs on which the rare branch is taken are compared with the tree denotation (O1)"""
    lg = c["long"]
    head, rest = ho.split(" | ", 1)
    w = rest.split(" ")
    n, nmis = int(w[1]), int(w[2])
    shown = {}
    for t in w[3:]:
        r, body = t.split("=", 1)
        used, fresh = body.split("~", 1)
        shown[int(r)] = (used, fresh)
    sink.count(n)
    hist["mode"]["H"] = hist["mode"].get("H", 0) + n
    hist["family"]["long"] = hist["family"].get("long", 0)
    sink.nontriv("long %s %s" % (lg["n"], lg["taken"]))
    _, mruns = parse_out(mo)
    den = {r: mruns[j][1] for j, r in enumerate(lg["selected"])}
    mach = {r: mruns[j][0] for j, r in enumerate(lg["selected"])}
    desc = "one %s object run %d times, rare branch taken at runs %s" % (
        "src_interpreter" if lg["obj"] == "s" else "reg_lambda_f", n, lg["taken"])
    for r, (used, fresh) in sorted(shown.items()):
        ex = long_example(lg, r)
        rj = dict(rep, run_number=r, example=ex, history=desc)
        if r in den:
            hist["outcome"]["judged-against-den"] = hist["outcome"].get("judged-against-den", 0) + 1
            if used != mach[r]:
                sink.add_diff({"case": rep["harness_line"][:300], "run": r}, mach[r], used)
            if used != den[r]:
                sink.add_violation("denotation:H", "%s: run #%d on example %s returns %s, the recursive evaluation of "
                                   "the active tree gives %s" % (desc, r, ex, used, den[r]),
                                   dict(rj, got=used, denotation=den[r]))
        if used != fresh:
            sink.add_violation("history:H", "%s: run #%d on example %s returns %s, a fresh interpreter returns %s"
                               % (desc, r, ex, used, fresh), dict(rj, got=used, fresh=fresh))
    if nmis and not any(u != f for u, f in shown.values()):
        sink.add_violation("history:H", "%s: %d runs differ from a fresh interpreter" % (desc, nmis), dict(rep))


def compact(case):
    """drop the cells that no run can reach, renumber the rows densely"""
    roots = [tuple(case["best"])] + [tuple(r["l"]) for r in case["runs"]]
    keep = set()
    for r in roots:
        keep |= active(case, r)[0]
    rows = sorted({l[0] for l in keep})
    if len(rows) == case["nrows"] and len(keep) == len(case["cells"]):
        return None
    new = {r: i for i, r in enumerate(rows)}
    out = dict(case)
    out["cells"] = [dict(c, row=new[c["row"]], args=[new[a] for a in c["args"]]) for c in case["cells"]
                    if (c["row"], sym_info(c["sym"])[0]) in keep]
    out["nrows"] = len(rows)
    out["best"] = [new[case["best"][0]], case["best"][1]]
    out["runs"] = [dict(r, l=[new[r["l"][0]], r["l"][1]]) for r in case["runs"]]
    return out


def shrink(case, oracle, env, run_index):
    """greedy: cut the history after the failing run, drop earlier runs, drop unreachable cells"""
    def fails(c):
        sink = Collect()
        try:
            judge([c], env, sink, {"family": {}, "mode": {}, "rows": {}, "cats": {}, "outcome": {}})
        except Exception:
            return False
        return any(v["key"].split(":")[0] == oracle for v in sink.violations)
    cur = dict(case)
    cur.pop("base", None)
    if not fails(cur):
        return None
    def with_runs(c, runs_idx):
        d = dict(c, runs=[c["runs"][i] for i in runs_idx])
        if "expect" in c:
            d["expect"] = [c["expect"][i] for i in runs_idx]
        return d
    if run_index is not None and run_index + 1 < len(cur["runs"]):
        cand = with_runs(cur, list(range(run_index + 1)))
        if fails(cand):
            cur = cand
    i = 0
    while len(cur["runs"]) > 1 and i < len(cur["runs"]):
        cand = with_runs(cur, [j for j in range(len(cur["runs"])) if j != i])
        if fails(cand):
            cur = cand
        else:
            i += 1
    # re-root at an argument of the root while the oracle still fails
    if "expect" not in cur and "long" not in cur:
        progress = True
        while progress:
            progress = False
            cm = cell_map(cur)
            for a in arg_loci(cm[tuple(cur["best"])]):
                cand = dict(cur, best=list(a),
                            runs=[dict(r, l=list(a)) if r["mode"] not in "kl" else r for r in cur["runs"]])
                if fails(cand):
                    cur, progress = cand, True
                    break
    cand = compact(cur)
    if cand is not None and fails(cand):
        cur = cand
    return cur


def shrink_chain(case, env):
    """bisect the nesting depth"""
    def fails(c):
        sink = Collect()
        try:
            judge([c], env, sink, {"family": {}, "mode": {}, "rows": {}, "cats": {}, "outcome": {}})
        except Exception:
            return False
        return any("deepchain" in v["key"] or v["key"].startswith("sanitizer") for v in sink.violations)

    def at(n):
        ch = dict(case["chain"], n=n)
        kind = ch["f"]["id"]
        cval = float(ch["c"]["text"]) if ch["c"]["k"] == "KD" else ch["c"]["val"]
        exp = []
        for r in case["runs"]:
            t = r["ex"][0]
            x = int(t[2:]) if t[0] == "i" else struct.unpack("<d", struct.pack("<Q", int(t[2:], 16)))[0]
            exp.append(chain_expect(kind, cval, x, n))
        return dict(case, chain=ch, nrows=n + 2, expect=exp)
    hi = case["chain"]["n"]
    if not fails(at(hi)):
        return None
    lo = 0
    while hi - lo > 1:
        mid = (lo + hi) // 2
        if fails(at(mid)):
            hi = mid
        else:
            lo = mid
    return at(hi)


def shrink_pair(base, env):
    """layout oracle: shrink the base program while it and its unshared twin still disagree"""
    def fails(b):
        v = unshare(b)
        if v is None:
            return False
        sink = Collect()
        try:
            judge([b, dict(v, base=0)], env, sink, {"family": {}, "mode": {}, "rows": {}, "cats": {}, "outcome": {}})
        except Exception:
            return False
        return any(x["key"].startswith("layout") for x in sink.violations)
    cur = dict(base)
    cur.pop("base", None)
    cur["runs"] = [r for r in cur["runs"] if r["mode"] in "bBesLC"]
    if not fails(cur):
        return None
    i = 0
    while len(cur["runs"]) > 1 and i < len(cur["runs"]):
        cand = dict(cur, runs=[r for j, r in enumerate(cur["runs"]) if j != i])
        if fails(cand):
            cur = cand
        else:
            i += 1
    progress = True
    while progress:
        progress = False
        cm = cell_map(cur)
        for a in arg_loci(cm[tuple(cur["best"])]):
            cand = dict(cur, best=list(a), runs=[dict(r, l=list(a)) for r in cur["runs"]])
            if fails(cand):
                cur, progress = cand, True
                break
    cand = compact(cur)
    if cand is not None and fails(cand):
        cur = cand
    return [cur, dict(unshare(cur), base=0)]


def _retry(fn, *a):
    """the snapshot directories under .build are garbage-collected by concurrent checks of other
    properties; a build that lost its snapshot half-way is simply started again"""
    for attempt in range(4):
        try:
            return fn(*a)
        except vv.BuildError as e:
            if attempt == 3 or "No such file or directory" not in str(e) or ".build/" not in str(e) and "kernel/vita.h" not in str(e):
                raise
            vv.log("snapshot vanished during the build (concurrent run); retrying")


def run(ck):
    # deep chains recurse ~3 C++ frames (and a few OCaml frames) per nesting level
    try:
        import resource
        soft, hard = resource.getrlimit(resource.RLIMIT_STACK)
        want = 1 << 30
        if hard != resource.RLIM_INFINITY:
            want = min(want, hard)
        resource.setrlimit(resource.RLIMIT_STACK, (want, hard))
    except (ImportError, ValueError, OSError, AttributeError):
        pass
    L = _retry(vv.build_lib, "asan")
    idents, problems, regenerated = pc.regen_prims(L["snap"])
    ck.tie = "regenerated+correspondence" if regenerated else "correspondence"
    if problems:
        ck.notes.append("translator: " + "; ".join(problems)[:500] +
                        " -- Gen/Prims.v kept as hand-written model, tie = correspondence only")
    res = vv.prove("Properties_C01", set())     # every theorem is closed under the global context
    ck.add_proof(res)
    # cross-property links (C13: closure transfers to the machine; C03: equal pack => equal output);
    # they mention binary64 operations through the other properties' definitions
    res_links = vv.prove("Links_C01", vv.FLOCQ_AXIOMS)
    ck.add_proof(res_links)
    if ck.thorough and not res["failure"]:
        ok, axioms, tail = vv.coqchk("Properties_C01")
        ck.coverage["coqchk"] = {"ok": ok, "axioms": axioms}
        if not ok:
            ck.add_unshown("coqchk", "Properties_C01", tail)
    ck.trusted += ["translate/cxx_mini.py + coq/Cxx/CxxMini.v (primitive bodies -> strategies, regenerated each run)",
                   "coq/Mep/Genome.v (shared genome / tree_of definitions), coq/Interp/Strategy.v",
                   "extraction: ExtrOcamlBasic only, no Extract Constant; ocaml/interp_driver.ml + zutil.ml "
                   "(libm functions realised by the same glibc as the harness)",
                   "harness/h_interp.cc (genome construction through i_mep(std::vector<gene>)/get_block, "
                   "private ip_/cache_ read with #define private public), checks/c01.py symbol shape table "
                   "(verified against symbol::category()/arg_category() printed by the harness)"]
    ck.assumptions.append("symbols are referentially transparent strategies over fetch_arg/fetch_param/fetch_var "
                          "(true of every shipped primitive: their bodies are regenerated into that form); "
                          "libm sin/cos/exp/log are a record parameter [lm] of the model, theorems hold for every lm")
    ck.assumptions.append("fuel is an artefact of the model: C01_no_out_of_fuel shows rows(g) suffices for every "
                          "well-formed genome; UB (out-of-range index, default-constructed gene) is the outcome "
                          "RStuck, C++ exceptions are RThrow and are part of the equality with the denotation")

    PEN.clear()
    PEN.update(penalty_kinds(L["snap"]))
    ck.coverage["penalty_overrides"] = {k: v for k, v in PEN.items() if v != "z"}
    harness = _retry(vv.build_harness, "h_interp")
    model = vv.ocaml_model("Interp")
    idx = {n: i for i, n in enumerate(idents)}

    if ck.replay_path:
        rp = json.load(open(ck.replay_path))
        cases = rp.get("cases") or []
    else:
        cases = generate(ck)
    cases = [c for c in cases if all(s["id"] in idx for s in (x["sym"] for x in c["cells"]) if s["k"] == "P")]

    env = (idx, harness, model)
    hist = {"family": {}, "mode": {}, "rows": {}, "cats": {}, "outcome": {}}
    judge(cases, env, ck, hist)
    # shrink the first failing input of every oracle
    done = set()
    for v in list(ck.violations):
        oracle = v["key"].split(":")[0]
        rp = v["replay"]
        if oracle in done or oracle == "sanitizer" and len(done) > 3:
            continue
        if oracle == "layout":
            done.add(oracle)
            pair = shrink_pair(rp["cases"][0], env)
            if pair is not None:
                rp["shrunk"] = {"cases": [strip_case(pair[0]), dict(strip_case(pair[1]), base=0)],
                                "harness_lines": [lines_of(x, idx, False)[0] for x in pair],
                                "note": "the first program and its unshared twin (same active tree, one row per "
                                        "node) still give different results"}
            continue
        if len(rp.get("cases", [])) != 1 or "long" in rp["cases"][0]:
            continue
        if "chain" in rp["cases"][0]:
            done.add(oracle)
            small = shrink_chain(rp["cases"][0], env)
            if small is not None:
                rp["shrunk"] = {"cases": [strip_case(small)], "harness_line": lines_of(small, idx, True)[0],
                                "note": "smallest nesting depth (by bisection) on which the oracle still fails"}
            continue
        done.add(oracle)
        small = shrink(rp["cases"][0], oracle, env, rp.get("run_index"))
        if small is not None:
            h, _ = lines_of(small, idx, want_den(small))
            rp["shrunk"] = {"cases": [strip_case(small)], "harness_line": h,
                            "note": "same oracle still fails on this smaller case (replay it by putting it in 'cases')"}
    if hist["outcome"].get("state-not-observable"):
        ck.add_unshown("correspondence", "memo-state",
                       "interpreter<i_mep>::cache_/ip_ no longer have the shape the model mirrors (rows x categories "
                       "matrix of {valid, value}, locus): the state-level correspondence could not be established; "
                       "results were still compared and judged by the oracles")
    for n_ in hist.pop("notes", {}):
        ck.notes.append(n_)
    ck.coverage["histogram"] = hist
    ck.coverage["runs_judged_against_tree_denotation"] = hist["outcome"].get("judged-against-den", 0)
    ck.coverage["programs"] = len(cases)
    return ck.finish(
        rule="random well-formed multi-category MEP genomes of shipped primitives (2..200 rows, 1..5 categories, "
             "argument indices drawn from a small window for heavy sharing), variable-only programs, conditionals "
             "with a known outcome and a throwing untaken branch, and re-laid-out twins (unshared / junk rows / "
             "rewritten introns); each program is run 1..8 times through vita::run, one src_interpreter / "
             "interpreter / reg_lambda_f object, get_block and run_locus on random loci, on examples mixing "
             "+-0, denormals, 1e+-300, ints, strings, empty and ill-typed values; evaluations = runs; "
             "plus genomes whose rows are populated in every category with arguments of different categories drawn "
             "from the same rows, and long histories (one object run 2^8 / 2^16 (+-) times, a lazily evaluated branch "
             "taken at run p, or at runs a and a+p), every run compared in the harness with a fresh interpreter; "
             "non-trivial = the active DAG has a locus reached from two different parents, or one persistent "
             "object is run on two different examples; distinct = distinct case lines")
