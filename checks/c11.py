"""C11 -- Save followed by load reproduces the object.

proof:  coq/Props/Properties_C11.v about coq/Serial/SerialDefs.v (byte-level
        printers/parsers mirroring save()/load() of every persistable type).
tie:    correspondence: objects reached by seeded operator histories on the
        real library (h_serial, ASan/UBSan); the model's save must equal the
        implementation's bytes, the model's load of those bytes must equal the
        implementation's reloaded object.
oracle: the property itself on the implementation's outputs: load succeeds,
        the reloaded object equals the original componentwise (doubles
        bitwise), same signature, still valid, and saves to the same bytes.
"""
import json

import vv
import prims_common as pc
import serial_common as sc


def gen_cache_scripts(ck, n):
    """op scripts: insert / clear() / clear(key) / insert on a small key pool (so that slots collide,
    keys are re-inserted after a clear, cleared keys stay absent)"""
    rnd = ck.rng
    ext = ["7fefffffffffffff", "ffefffffffffffff", "0000000000000001", "8000000000000000", "3ff0000000000000",
           "c08f400000000000", "0010000000000000"]

    def fit():
        return ",".join(rnd.choice(ext) if rnd.random() < 0.4 else "%016x" % (rnd.getrandbits(62) | (rnd.getrandbits(1) << 63))
                        for _ in range(rnd.randint(1, 3)))
    scripts = [
        (4, ["I,11,22,3ff0000000000000", "C"]),                                        # insert, clear
        (4, ["I,11,22,3ff0000000000000", "C", "I,12,23,4000000000000000"]),             # ... insert more
        (4, ["I,11,22,3ff0000000000000", "I,12,23,4000000000000000", "X,11,22"]),       # clear one
        (3, ["I,1,1,3ff0000000000000", "C", "C", "I,9,1,4000000000000000", "I,2,5,c000000000000000"]),
    ]
    for _ in range(n):
        bits = rnd.choice([2, 3, 4, 6])
        pool = [(rnd.randint(1, 40), rnd.randint(0, 5)) for _ in range(rnd.randint(2, 12))]
        ops = []
        for _ in range(rnd.randint(1, 25)):
            r = rnd.random()
            k = rnd.choice(pool)
            if r < 0.6:
                ops.append("I,%x,%x,%s" % (k[0], k[1], fit()))
            elif r < 0.8:
                ops.append("C")
            else:
                ops.append("X,%x,%x" % k)
        scripts.append((bits, ops))
    return scripts


def cache_family(ck, harness, hist):
    if ck.replay_path:
        rp = json.load(open(ck.replay_path))
        scripts = [(rp["bits"], rp["ops"])] if "ops" in rp else []
    else:
        scripts = gen_cache_scripts(ck, 3000 if ck.thorough else 300)
    if not scripts:
        return
    lines = ["CACHE %d %s" % (b, " ".join(ops)) for b, ops in scripts]
    out, crashes = sc.run_harness_chunks(harness, lines)
    for i, (bits, ops) in enumerate(scripts):
        ck.count()
        hist["CACHE"] = hist.get("CACHE", 0) + 1
        ho = out[i]
        replay = {"bits": bits, "ops": ops, "harness_line": lines[i], "impl": (ho or "")[:2000]}
        if ho is None or ho.startswith("CRASH") or ho.startswith("EXC"):
            replay["sanitizer"] = crashes.get(i, "")[-2500:]
            ck.add_violation("CACHE:save-load-crash", "cache script %s: save/load crashes: %s" % (" ".join(ops)[:120], (ho or "")[:60]), replay)
            continue
        f = sc.fields(ho)
        if f[0] != "OK" or len(f) < 5:
            ck.add_diff({"bits": bits, "ops": ops}, "", ho, "harness protocol")
            continue
        ret, save0, save1 = f[1:4]
        w = f[4].split()
        n = int(w[0])
        if "C" in ops or any(o.startswith("X") for o in ops):
            ck.nontriv(("CACHE", bits, tuple(ops)))
        problems = []
        if ret != "1":
            problems.append("load of the saved cache into a fresh cache fails")
        else:
            for j in range(n):
                k0, k1, a, b = w[1 + 4 * j: 5 + 4 * j]
                if a != b:
                    problems.append("key (%s,%s): original cache answers %s, reloaded cache answers %s"
                                    % (k0.lstrip("0") or "0", k1.lstrip("0") or "0",
                                       "not found" if a == "-" else a, "not found" if b == "-" else b))
            if save1 != save0:
                problems.append("saving the reloaded cache yields different bytes")
        if problems:
            replay.update({"problems": problems[:6], "save": sc.unhex(save0).decode("latin1")[:1500]})
            ck.add_violation("CACHE:lookups-differ-after-reload",
                             "cache script [%s] (2^%d slots): %s" % (" ".join(ops)[:200], bits, "; ".join(problems[:3])), replay)
        if i < 2:
            ck.sample({"cache_script": ops, "bits": bits, "keys_compared": n, "reload_ok": ret})


def search_family(ck, harness, hist):
    """search::save / search::load of the evaluator cache to env.misc.serialization_file, through the
    evaluator_proxy: identical cache lookups in the original and in the reloaded search object"""
    rnd = ck.rng
    if ck.replay_path:
        rp = json.load(open(ck.replay_path))
        cases = [tuple(rp["search"])] if "search" in rp else []
    else:
        cases = [(6, 5, 7, -1, "ok"), (6, 8, 11, 3, "ok"), (3, 12, 5, -1, "ok"), (2, 9, 4, 4, "ok"),
                 (6, 4, 9, -1, "none"), (6, 4, 9, -1, "bad")]
        for _ in range(200 if ck.thorough else 24):
            n = rnd.randint(1, 14)
            cases.append((rnd.choice([1, 2, 3, 5, 8]), n, rnd.randint(1, 2**31 - 1), rnd.choice([-1, -1, rnd.randint(0, n - 1)]), "ok"))
    if not cases:
        return
    lines = ["SEARCH %d %d %d %d %s" % c for c in cases]
    out, crashes = sc.run_harness_chunks(harness, lines, 50)
    for i, c in enumerate(cases):
        ck.count()
        hist["SEARCH"] = hist.get("SEARCH", 0) + 1
        ho = out[i]
        replay = {"search": list(c), "harness_line": lines[i], "impl": (ho or "")[:2000]}
        if ho is None or ho.startswith("CRASH") or ho.startswith("EXC"):
            replay["sanitizer"] = crashes.get(i, "")[-2500:]
            ck.add_violation("SEARCH:save-load-crash", "search::save/load %s crashes: %s" % (c, (ho or "")[:60]), replay)
            continue
        f = sc.fields(ho)
        if f[0] != "OK" or len(f) < 6:
            ck.add_diff({"search": list(c)}, "", ho, "harness protocol")
            continue
        sret, lret, content, csave = f[1:5]
        w = f[5].split()
        n = int(w[0])
        rows = [w[1 + 6 * j: 7 + 6 * j] for j in range(n)]
        problems = []
        if c[4] == "bad":
            if sret != "0" or lret != "0":
                problems.append("save/load on an unusable file return %s/%s instead of false" % (sret, lret))
        elif c[4] == "none":
            if sret != "1" or lret != "1" or content != "-":
                problems.append("without a serialization file save/load must return true and write nothing")
        else:
            ck.nontriv(("SEARCH",) + c)
            if sret != "1" or lret != "1":
                problems.append("search::save returns %s, search::load returns %s" % (sret, lret))
            if content != csave:
                problems.append("the file is not what cache::save of the proxy's cache writes")
            for sig, f1, f2, pre2, hit2, e2 in rows:
                if f1 != f2:
                    problems.append("individual %s: original cache answers %s, reloaded cache answers %s" % (sig, f1, f2))
                elif (hit2 == "1") != (pre2 != "-") or (hit2 == "1" and e2 != pre2):
                    problems.append("individual %s: the reloaded proxy %s the evaluator although its cache answers %s"
                                    % (sig, "does not call" if hit2 == "1" else "calls", pre2))
        if problems:
            replay["problems"] = problems[:6]
            replay["file"] = sc.unhex(content).decode("latin1")[:1500]
            ck.add_violation("SEARCH:lookups-differ-after-reload",
                             "search<i_mep> with 2^%d cache slots, %d individuals, seed %d, clear after %d, file %s: %s"
                             % (c + ("; ".join(problems[:3]),)), replay)
        if i < 1:
            ck.sample({"search": list(c), "file": sc.unhex(content).decode("latin1")[:200], "individuals": n})


def model_family(ck, harness, hist):
    """trained models of every kind (reg, dyn_slot, gaussian, binary; individual, team, wta, mv) through the real
    serialize::save / serialize::lambda::load: same predictions (label + confidence bits, values) on the training rows
    AND on many unseen / extreme queries, same bytes when the reloaded model is saved again"""
    import c08                       # generators of the lambda cases (read-only reuse)
    rnd = ck.rng
    if ck.replay_path:
        rp = json.load(open(ck.replay_path))
        lines = [rp["model_case"]] if "model_case" in rp else []
    else:
        lines = []
        for combo in c08.COMBOS_T:
            for _ in range(60 if ck.thorough else 6):
                c = c08.gen_header(rnd, combo)
                if combo.startswith("dyn") and rnd.random() < 0.7:
                    # many slots, few training rows: most slots see no training example
                    c["xslot"] = rnd.choice([3, 5, 10])
                    c["train"] = c["train"][:rnd.randint(1, 4)] or c["train"]
                q = [list(r) for _, r in c["train"]]
                for _ in range(30):
                    r = rnd.random()
                    if r < 0.4:
                        q.append([rnd.uniform(-60, 60) for _ in range(c08.NV)])
                    elif r < 0.6:
                        q.append([float(rnd.randint(-9, 9)) for _ in range(c08.NV)])
                    else:
                        q.append(c08.rand_row(rnd, "wild"))
                c["query"] = q
                # class labels as they come from real data sets: inner / leading / trailing blanks, tabs, digits only,
                # blank-only, empty (they are saved one per line)
                lines.append("MODEL " + c08.case_line("T", c)[2:] + " L%d" % rnd.choice([0, 1, 1, 2, 3, 4, 5, 6, 7, 8]))
    if not lines:
        return
    out, crashes = sc.run_harness_chunks(harness, lines, 40)
    for i, line in enumerate(lines):
        ck.count()
        w = line.split()
        combo = w[1] + "/" + w[2]
        hist["MODEL:" + combo] = hist.get("MODEL:" + combo, 0) + 1
        ho = out[i]
        replay = {"model_case": line, "impl": (ho or "")[:3000]}
        if ho is None or ho.startswith("CRASH") or ho.startswith("EXC") or ho.startswith("BADCASE"):
            replay["sanitizer"] = crashes.get(i, "")[-2500:]
            ck.add_violation("MODEL:%s:save-load-crash" % combo, "model %s: save/load crashes or throws: %s" % (combo, (ho or "")[:80]), replay)
            continue
        f = sc.fields(ho)
        if f[0] != "OK" or len(f) < 6:
            ck.add_diff({"model_case": line}, "", ho, "harness protocol")
            continue
        saved, loaded, text, text2 = f[1:5]
        pw = f[5].split()
        n = int(pw[0])
        ck.nontriv(("MODEL", line))
        problems = []
        if saved != "1":
            problems.append("serialize::save returns false")
        elif loaded != "1":
            problems.append("serialize::lambda::load of the saved model gives %s" % ("nullptr" if loaded == "0" else loaded))
        else:
            ntrain = int(w[5 + int(w[5]) + 1])
            for j in range(n):
                a, b, na, nb = pw[1 + 4 * j: 5 + 4 * j]
                if a != b:
                    problems.append("query %d (%s): original model predicts %s, reloaded model predicts %s"
                                    % (j, "a training row" if j < ntrain else "unseen input", a, b))
                elif na != nb:
                    problems.append("query %d: the prediction is named %r by the original model and %r by the reloaded one"
                                    % (j, sc.unhex(na).decode("latin1"), sc.unhex(nb).decode("latin1")))
            if text2 != text:
                problems.append("saving the reloaded model yields different bytes")
        if problems:
            replay["problems"] = problems[:8]
            replay["saved_text"] = sc.unhex(text).decode("latin1")[:1500]
            ck.add_violation("MODEL:%s:predictions-differ-after-reload" % combo,
                             "trained model %s: %s" % (combo, "; ".join(problems[:3])), replay)
        if i < 1:
            ck.sample({"model": combo, "queries": n, "saved_text": sc.unhex(text).decode("latin1")[:200]})


def run(ck):
    harness, model = sc.build(ck)
    ck.add_proof(vv.prove("Properties_C11", set()))
    ck.add_proof(vv.prove("Refuted_C11", set()))
    ck.add_proof(vv.prove("CacheCorollary_C11", set()))
    ck.add_proof(vv.prove("LambdaCorollary_C11", vv.FLOCQ_AXIOMS))
    ck.trusted += sc.TRUSTED
    ck.assumptions += sc.ASSUMPTIONS

    if ck.replay_path:
        rp = json.load(open(ck.replay_path))
        cases = [tuple(c) for c in rp.get("cases", [])] or ([tuple(rp["case"])] if "case" in rp else [])
    else:
        cases = sc.gen_objects(ck, 400 if ck.thorough else 14)

        # a distribution fed with finite values whose squares overflow (known finding)
        cases += [("DISTX", 0, ck.rng.randint(1, 2**31 - 1), s) for s in (0, 5)]
        # the summary of a run longer than 2^31 ms: only once summary::load reads the elapsed time with its
        # full width (read off the source; the pinned `int ms` is C11_summary_elapsed_int_roundtrip_refuted)
        if sc.STATE["elapsed_width"] == 64:
            cases += [("SUMGAX", 0, ck.rng.randint(1, 2**31 - 1), s) for s in (0, 3, 7)]
        else:
            ck.notes.append("summary::load reads the elapsed time into an int: summaries of runs longer than 2^31 ms "
                            "are not generated (refuted theorem C11_summary_elapsed_int_roundtrip_refuted; fix on wt2-c11)")

    sset = sc.sset_lines(harness)
    hl = ["GEN %s %d %d %d" % c for c in cases]
    hout, crashes = pc.run_harness_resilient(harness, hl)

    # model: save of the dumped object, load of the implementation's bytes
    mlines = []
    owner = []
    for i, c in enumerate(cases):
        f = sc.fields(hout[i])
        if not f or f[0] != "OK" or len(f) < 10:
            continue
        mlines.append((c[1], "SAVE %s %s" % (c[0], f[1])))
        owner.append((i, "save"))
        mlines.append((c[1], "LOAD %s %s FRESH" % (c[0], f[2])))
        owner.append((i, "load"))
    mout = sc.run_model(model, sset, mlines)
    msave, mload = {}, {}
    for (i, what), o in zip(owner, mout):
        (msave if what == "save" else mload)[i] = o

    hist = {}
    for i, c in enumerate(cases):
        ck.count()
        t = c[0]
        hist[t] = hist.get(t, 0) + 1
        ho = hout[i]
        replay = {"case": list(c), "harness_line": hl[i], "impl": (ho or "")[:2000]}
        if ho is None or ho.startswith("CRASH") or ho.startswith("EXC"):
            replay["sanitizer"] = crashes.get(i, "")[-2500:]
            ck.add_violation("%s:save-load-crash" % t,
                             "save/load of a %s built by history %s crashes or throws: %s" % (t, c[1:], (ho or "")[:80]),
                             replay)
            continue
        f = sc.fields(ho)
        if f[0] != "OK" or len(f) < 10:
            ck.add_diff({"case": list(c)}, "", ho, "harness protocol")
            continue
        dump0, save0, ret, dump1, save1, sigs, valid1, dump0c, save_ok = f[1:10]
        if save_ok != "1":
            # save() reports that it cannot persist the object: accepted only for statistics that are not
            # finite (distribution::save refuses them), and the model must refuse too
            if t == "DISTX" and sc.unhex(msave.get(i, "-")) == b"REFUSED":
                hist["DISTX:save-refused"] = hist.get("DISTX:save-refused", 0) + 1
                continue
            replay["save"] = sc.unhex(save0).decode("latin1")[:500]
            ck.add_violation("%s:save-fails" % t, "%s built by history %s: save() returns false" % (t, c[1:]), replay)
            continue
        if c[3] >= 3 or t in ("H", "F"):
            ck.nontriv((t, dump0))
        if i % (len(cases) // 5 + 1) == 0:
            ck.sample({"case": list(c), "save_bytes": sc.unhex(save0).decode("latin1")[:300], "reload_ok": ret,
                       "model_save_equal": msave.get(i) == save0})
        # ---- oracle: the property on the implementation's outputs
        s = sigs.split()
        half = len(s) // 2
        problems = []
        if ret != "1":
            problems.append("load of the saved object fails")
        else:
            if dump1 != dump0c:
                problems.append("reloaded object differs from the original")
            if s[:half] != s[half:]:
                problems.append("signature changes across save/load")
            if save1 != save0:
                problems.append("saving the reloaded object yields different bytes")
            if valid1 != "1":
                problems.append("reloaded object fails is_valid()")
        if problems:
            replay.update({"original": dump0c, "reloaded": dump1, "save": sc.unhex(save0).decode("latin1"),
                           "resave": sc.unhex(save1).decode("latin1"), "problems": problems})
            key = "DIST:nonfinite-moments" if t == "DISTX" and "inf" in replay["save"] else "%s:roundtrip" % t
            ck.add_violation(key, "%s built by history %s: %s" % (t, c[1:], "; ".join(problems)), replay)
        # ---- correspondence
        if msave.get(i) != save0:
            ck.add_diff({"case": list(c), "what": "save bytes"}, sc.unhex(msave.get(i, "-") if not msave.get(i, "").startswith("ERR") else "-").decode("latin1")[:400],
                        sc.unhex(save0).decode("latin1")[:400], "model and implementation save different bytes")
        want = "%s %s" % (ret, dump1)
        if mload.get(i) != want and ret == "1":
            ck.add_diff({"case": list(c), "what": "load"}, (mload.get(i) or "")[:400], want[:400],
                        "model and implementation load differently")
    # ---- the fitness cache (also after clears): identical lookups for EVERY key ever used
    cache_family(ck, harness, hist)
    search_family(ck, harness, hist)
    model_family(ck, harness, hist)
    ck.coverage["per_type"] = hist
    return ck.finish(
        rule="objects of 15 persistable types (hash, fitness, i_mep over 1- and 2-category symbol sets, i_ga, i_de, team, "
             "populations and summaries of each, distribution, matrix) built on the real library by seeded histories of "
             "0..30 operator steps (mutation, crossover, ageing, layer add/remove/shrink, extreme finite constants); "
             "non-trivial = history of >= 3 steps (or any hash/fitness); distinct = distinct (type, object dump); "
             "plus fitness-cache scripts (insert / clear() / clear(key) / insert on colliding key pools): save, load into a "
             "fresh cache, every key ever used looked up in both, save(load(save)); non-trivial = script with a clear; plus "
             "search<i_mep>::save/load of the evaluator cache to env.misc.serialization_file through evaluator_proxy "
             "(counting evaluator): file bytes = cache::save, identical lookups, hits of the reloaded proxy; plus trained models "
             "of 11 kinds (reg/dyn_slot/gaussian/binary x individual/team/wta/mv) through serialize::save / "
             "serialize::lambda::load: predictions on every training row and 30 unseen or extreme queries, save(load(save))")
