"""C14 -- Integer primitives never overflow and saturate as documented.

proof:  coq/Props/Properties_C14.v about coq/Gen/Prims.v, which is regenerated
        from /repo/src/kernel/gp/src/primitive/int.h on every run.
tie:    regenerated model + correspondence (harness h_prims under ASan/UBSan
        vs the extracted model) on the boundary product.
search: the documented results (clamp / fallback operand) evaluated directly
        on the implementation's outputs; UBSan reports.
"""
import os
import sys

import vv
import prims_common as pc

I32_MIN, I32_MAX = -2**31, 2**31 - 1
BIN = ["int_add", "int_sub", "int_mul", "int_div", "int_mod", "int_shl"]


def clamp(z):
    return max(I32_MIN, min(I32_MAX, z))


def quot(a, b):
    q = abs(a) // abs(b)
    return q if (a >= 0) == (b >= 0) else -q


def oracle(name, a):
    """documented result (the statement of the Coq theorems)"""
    if name == "int_add":
        return clamp(a[0] + a[1])
    if name == "int_sub":
        return clamp(a[0] - a[1])
    if name == "int_mul":
        return clamp(a[0] * a[1])
    fb = a[1] == 0 or (a[0] == I32_MIN and a[1] == -1) if len(a) > 1 else False
    if name == "int_div":
        return a[0] if fb else quot(a[0], a[1])
    if name == "int_mod":
        return a[1] if fb else a[0] - a[1] * quot(a[0], a[1])
    if name == "int_shl":
        if a[0] < 0 or a[1] < 0 or a[1] >= 32 or a[0] * 2 ** a[1] > I32_MAX:
            return a[0]
        return a[0] * 2 ** a[1]
    if name == "int_ife":
        return a[2] if a[0] == a[1] else a[3]
    if name == "int_ifl":
        return a[2] if a[0] < a[1] else a[3]
    if name == "int_ifz":
        return a[1] if a[0] == 0 else a[2]
    raise KeyError(name)


def boundary_values():
    vs = {0, 1, -1, 2, -2, 3, -3, I32_MIN, I32_MIN + 1, I32_MIN + 2, I32_MAX, I32_MAX - 1, I32_MAX - 2,
          31, 32, 33, 46340, 46341, -46340, -46341, 65535, 65536, -65536}
    for k in range(0, 32):
        for d in (-1, 0, 1):
            for s in (1, -1):
                v = s * (2 ** k) + d
                if I32_MIN <= v <= I32_MAX:
                    vs.add(v)
    return sorted(vs)


def near_boundary(a):
    for v in a:
        if abs(v) <= 2 or v <= I32_MIN + 2 or v >= I32_MAX - 2:
            return True
        m = abs(v)
        for d in (-1, 0, 1):
            if m + d > 0 and ((m + d) & (m + d - 1)) == 0:
                return True
    return False


def gen_cases(ck, idents):
    vals = boundary_values()
    cases = []
    if ck.thorough:
        pool = vals
    else:
        pool = vals
    for name in BIN:
        if name not in idents:
            continue
        for x in pool:
            for y in pool:
                cases.append((name, [x, y]))
    rnd = ck.rng
    nrand = 2000000 if ck.thorough else 40000
    for _ in range(nrand):
        name = rnd.choice(BIN)
        if name not in idents:
            continue
        def rv():
            r = rnd.random()
            if r < 0.4:
                return rnd.choice(vals) + rnd.randint(-3, 3)
            if r < 0.6:
                return rnd.randint(-70000, 70000)
            return rnd.randint(I32_MIN, I32_MAX)
        cases.append((name, [clamp(rv()), clamp(rv())]))
    small = [0, 1, -1, 7, I32_MIN, I32_MAX]
    for x in small:
        for y in small:
            for t in (5, I32_MIN):
                for e in (9, I32_MAX):
                    cases.append(("int_ife", [x, y, t, e]))
                    cases.append(("int_ifl", [x, y, t, e]))
        for t in (5, I32_MIN):
            for e in (9, I32_MAX):
                cases.append(("int_ifz", [x, t, e]))
    return [c for c in cases if c[0] in idents]


def run(ck):
    L = vv.build_lib("asan")
    idents, problems, regenerated = pc.regen_prims(L["snap"])
    ck.tie = "regenerated+correspondence" if regenerated else "correspondence"
    if problems:
        ck.notes.append("translator: " + "; ".join(problems)[:500] +
                        " -- Gen/Prims.v kept as hand-written model, tie = correspondence only")
    res = vv.prove("Properties_C14", vv.FLOCQ_AXIOMS)
    ck.add_proof(res)
    ck.trusted += ["translate/cxx_mini.py (C++ subset -> CxxMini AST)",
                   "coq/Cxx/CxxMini.v as the semantics of that subset (UB = Stuck)",
                   "extraction: ExtrOcamlBasic only, no Extract Constant; ocaml/prims_driver.ml + zutil.ml",
                   "harness/h_prims.cc canonical printing; g++ 12 UBSan/ASan as the detector of executed UB"]
    ck.assumptions.append("the four Flocq/stdlib axioms appear only because the shared evaluator mentions binary64 "
                          "operations; the integer proofs do not use them")

    if ck.thorough and not res["failure"]:
        ok, axioms, tail = vv.coqchk("Properties_C14")
        ck.coverage["coqchk"] = {"ok": ok, "axioms": axioms}
        if not ok:
            ck.add_unshown("coqchk", "Properties_C14", tail)

    harness = vv.build_harness("h_prims")
    model = vv.ocaml_model("Prims")

    if ck.replay_path:
        import json
        rp = json.load(open(ck.replay_path))
        cases = [(c["prim"], c["args"]) for c in rp.get("cases", [])] or [(rp["prim"], rp["args"])]
    else:
        cases = gen_cases(ck, set(idents))
    # the ephemeral constant INT: parameters whose truncation fits in 32 bits
    import struct
    par_cases = []
    if "int_number" in set(idents) and not ck.replay_path:
        ps = [float(v) for v in range(-130, 131, 7)] + [0.5, -0.5, 0.999, -0.999, 126.99, -128.0, 2147483647.0,
              -2147483648.0, 2147483647.5, -2147483648.9, 1e-300, -1e-300, 65535.75, -65536.25]
        ps += [ck.rng.uniform(-2147483648.0, 2147483647.0) for _ in range(300)]
        par_cases = [("int_number", p_) for p_ in ps]
    idx = {n: i for i, n in enumerate(idents)}
    hl = ["%s - %d %s" % (n, len(a), " ".join("i:%d" % v for v in a)) for n, a in cases]
    ml = ["%d - %d %s" % (idx[n], len(a), " ".join("i:%d" % v for v in a)) for n, a in cases]
    for n_, p_ in par_cases:
        hx = "%016x" % struct.unpack("<Q", struct.pack("<d", p_))[0]
        hl.append("%s %s 0" % (n_, hx))
        ml.append("%d %s 0" % (idx[n_], hx))
    hout, crashes = pc.run_harness_resilient(harness, hl)
    rc, mout, merr = vv.run_lines(model, "\n".join(ml) + "\n")
    for j, (n_, p_) in enumerate(par_cases):
        k_ = len(cases) + j
        ck.count()
        ck.nontriv((n_, p_))
        want_ = "i:%d f" % int(p_)        # truncation toward zero
        if hout[k_] is None or hout[k_].startswith("CRASH"):
            ck.add_violation("int_number:undefined-behaviour", "int_number with parameter %r executes undefined behaviour" % p_,
                             {"prim": n_, "param": p_, "impl": hout[k_], "model": mout[k_] if k_ < len(mout) else None})
        elif hout[k_].strip() != want_.strip():
            ck.add_violation("int_number:wrong-result", "int_number(%r) returns %s, expected %s" % (p_, hout[k_], want_),
                             {"prim": n_, "param": p_, "impl": hout[k_], "documented": want_})
        if k_ < len(mout) and hout[k_] != mout[k_]:
            ck.add_diff({"prim": n_, "param": p_}, mout[k_], hout[k_])
    if rc != 0 or len(mout) != len(cases) + len(par_cases):
        raise vv.BuildError("model driver failed: rc=%s %s" % (rc, merr[:500]))

    hist = {}
    for k, (n, a) in enumerate(cases):
        ck.count()
        hist[n] = hist.get(n, 0) + 1
        if near_boundary(a):
            ck.nontriv((n, tuple(a)))
        ho = hout[k]
        mo = mout[k]
        want = "i:%d" % oracle(n, a)
        got = ho.split(" f")[0] if ho else None
        if k < 3 or (k % (len(cases) // 3 + 1) == 0):
            ck.sample({"prim": n, "args": a, "impl": ho, "model": mo, "documented": want})
        if ho is None or ho.startswith("CRASH"):
            ck.add_violation("%s:undefined-behaviour" % n,
                             "%s%s executes undefined behaviour (sanitizer report)" % (n, tuple(a)),
                             {"prim": n, "args": a, "impl": ho, "model": mo, "documented": want,
                              "sanitizer": crashes.get(k, "")[-1500:]})
            continue
        if got != want:
            ck.add_violation("%s:wrong-result" % n,
                             "%s%s returns %s, documented result is %s" % (n, tuple(a), got, want),
                             {"prim": n, "args": a, "impl": ho, "model": mo, "documented": want})
        if ho != mo:
            ck.add_diff({"prim": n, "args": a}, mo, ho)
    ck.coverage["per_primitive"] = hist
    ck.coverage["boundary_values"] = len(boundary_values())
    return ck.finish(
        rule="exhaustive product of %d boundary values (0, +-1, +-2, +-2^k, +-2^k+-1, type bounds, sqrt(2^31)) per "
             "binary primitive, plus seeded random pairs and the conditionals; non-trivial = some operand within 2 "
             "of 0, of +-2^k or of a type bound; distinct = distinct (primitive, operands)" % len(boundary_values()))
