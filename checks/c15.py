"""C15 -- The fitness cache can be shared by threads.

proof:  coq/Props/Properties_C15.v (mutex invariant, no data race, find returns
        a whole value: any number of threads, any operations, any schedule)
        about coq/Conc/ConcDefs.v instantiated with coq/Gen/CacheProto.v, the
        lock protocol REGENERATED from src/kernel/cache.cc on every run by
        translate/cache_proto.py; coq/Props/Refuted_C15.v: the race and the
        torn value of the pinned protocol (find returning a reference).
tie:    regenerated protocol + correspondence: harness h_conc (ThreadSanitizer
        build of the real library, H3 scheduling points) runs thread scripts on
        one real vita::cache; the extracted model, driven in the observed order
        of lock acquisitions, must accept the trace and predict every find.
oracle: no ThreadSanitizer report / crash, and every value returned by find is
        empty or exactly a value some thread stores under that signature.

PARTIAL BY NATURE: the model is sequentially consistent and has no allocator
or std::shared_mutex implementation; ThreadSanitizer only searches for replays.
"""
import json
import os
import struct
import subprocess
import sys

import vv

sys.path.insert(0, os.path.join(vv.VERIF, "translate"))
import cache_proto


def dbl(x):
    return "%x" % struct.unpack("<Q", struct.pack("<d", float(x)))[0]


def regen(snap):
    text, problems, infos = cache_proto.generate(snap)
    if problems:
        return False, problems, infos
    with vv.Lock("coq"):
        vv.write_if_changed(os.path.join(vv.COQ, "Gen", "CacheProto.v"), text)
    return True, [], infos


def gen_script(rng, thorough):
    bits = rng.choice([1, 1, 2, 3, 4, 6] if thorough else [1, 1, 2, 3])
    nkeys = rng.randint(1, 4)
    keys = []
    base = rng.getrandbits(bits)
    for i in range(nkeys):
        if rng.random() < 0.6:
            keys.append(((rng.getrandbits(20) << bits) | base, rng.getrandbits(32) | 1))   # one slot
        else:
            keys.append((rng.getrandbits(24) | 1, rng.getrandbits(32) | 1))
    keys = list(dict.fromkeys(keys))
    nthreads = rng.randint(2, 8 if thorough else 6)
    ver = [0]

    def value(ki):
        ver[0] += 1
        n = rng.choice([1, 4, 4, 2])          # scalar (inline) and heap-allocated values
        return [dbl(ki * 100000 + ver[0] * 10 + j) for j in range(n)]
    with_load = rng.random() < 0.3
    roles = ["r", "w"] + [rng.choice(["r", "r", "w", "c", "m", "s"]) for _ in range(nthreads - 2)]
    secs = []
    for role in roles:
        ops = []
        for _ in range(rng.randint(4, 60 if thorough else 30)):
            ki = rng.randrange(len(keys))
            k = "%x,%x" % keys[ki]
            r = rng.random()
            kind = {"r": "F" if r < 0.95 else "I", "w": "I" if r < 0.85 else "F",
                    "c": "C" if r < 0.4 else ("X" if r < 0.7 else "F"),
                    "m": "F" if r < 0.5 else ("I" if r < 0.85 else ("C" if r < 0.93 else "X")),
                    "s": "V" if r < 0.4 else ("L" if r < 0.6 and with_load else ("F" if r < 0.85 else "I"))}[role]
            if kind == "F":
                ops.append("F," + k)
            elif kind == "I":
                ops.append("I,%s,%s" % (k, ",".join(value(ki))))
            elif kind == "V":
                ops.append("V")
            elif kind == "L":
                ops.append("L,%d,%s,%s" % (rng.randint(1, 3), k, ",".join(value(ki))))
            elif kind == "C":
                ops.append("C")
            else:
                ops.append("X," + k)
        secs.append(" ".join(ops))
    return "S %d %d %d | %s" % (bits, rng.choice([0, 100, 300, 600]), rng.randint(1, 10 ** 9), " | ".join(secs))


REFUTED_CASES = ["R 3 1 5 2 4", "R 3 1 5 4 4", "R 3 1 5 1 4", "R 1 3 7 4 2", "R 3 1 5 1 1"]


def run_case(harness, line, timeout=120):
    try:
        p = subprocess.run([harness], input=line + "\n", env=vv.san_env(), timeout=timeout,
                           stdout=subprocess.PIPE, stderr=subprocess.PIPE, text=True, errors="replace")
        return p.returncode, p.stdout.strip(), p.stderr
    except subprocess.TimeoutExpired:
        return 124, "", "[timeout: deadlock or livelock]"


def stored_values(line):
    vals = {}
    for sec in line.split("|")[1:]:
        for o in sec.split():
            p = o.split(",")
            if p[0] == "I":
                vals.setdefault((p[1], p[2]), set()).add(",".join(p[3:]) or "-")
            if p[0] == "L":
                vals.setdefault((p[2], p[3]), set()).add(",".join(p[4:]) or "-")
    return vals


def oracle(line, out):
    """integrity: every find returns nothing or a whole value stored under that signature"""
    if line[0] == "R":
        w = line.split()
        allowed = {",".join([dbl(1.0)] * int(w[4])), ",".join([dbl(2.0)] * int(w[5]))}
        got = out[2:] if out.startswith("R=") else None
        if got not in allowed:
            return "find handed out %r; the values ever stored are %s" % (got, sorted(allowed))
        return None
    vals = stored_values(line)
    secs = line.split("|")[1:]
    toks = out.split()
    for t, sec in enumerate(secs):
        finds = [o.split(",") for o in sec.split() if o.startswith("F,")]
        tok = next((x for x in toks if x.startswith("r%d=" % t)), None)
        if tok is None:
            return "no result line for thread %d" % t
        res = [] if tok.endswith("=.") else tok.split("=", 1)[1].split(";")
        if len(res) != len(finds):
            return "thread %d: %d finds, %d results" % (t, len(finds), len(res))
        for f, r in zip(finds, res):
            if r != "-" and r not in vals.get((f[1], f[2]), set()):
                return ("thread %d: find(%s,%s) returned %s, which no thread ever stores under that signature "
                        "(torn or foreign value)" % (t, f[1], f[2], r))
    return None


def interleaved(out):
    tr = out.split("trace=")[-1].split(",") if "trace=" in out else []
    sw = sum(1 for a, b in zip(tr, tr[1:]) if a.split(":")[0] != b.split(":")[0])
    return sw >= 4 and any(x != "-" for t in out.split()[:-1] for x in t.split("=", 1)[1].split(";") if x != ".")


def run(ck):
    L = vv.build_lib("tsan")
    ok, problems, infos = regen(L["snap"])
    ck.tie = "regenerated+correspondence" if ok else "correspondence"
    if not ok:
        ck.notes.append("translator: " + "; ".join(problems)[:400] +
                        " -- Gen/CacheProto.v kept as hand-written model, tie = correspondence only")
    ck.coverage["protocol"] = {m: {k: v for k, v in i.items() if k != "name"} for m, i in infos.items()}
    ck.add_proof(vv.prove("Properties_C15", set()))
    ck.add_proof(vv.prove("Refuted_C15", set()))
    ck.trusted += ["H_mutex: std::shared_mutex implements the reader-set/writer-flag transition system of Conc/ConcDefs.v",
                   "translate/cache_proto.py (lock, fields, result kind per cache:: method) and the action skeleton "
                   "[compile] of Conc/ConcDefs.v (checked against the extracted field sets by proto_ok)",
                   "sequential consistency of the model: hardware reordering, allocator races and shared_mutex bugs are "
                   "outside it (partial by nature); ThreadSanitizer (g++ 12) only searches for replays",
                   "extraction: ExtrOcamlBasic only; ocaml/conc_driver.ml + zutil.ml; harness/h_conc.cc"]
    ck.assumptions += ["signatures are non-zero (hash_t() is the empty marker): C15_find_returns_whole_value excludes key (0,0)",
                       "the struct assignment table_[i] = s is one model step touching the whole slot; the value is "
                       "copied OUT word by word"]
    harness = vv.build_harness("h_conc", san="tsan")
    # thorough: the same scripts also under AddressSanitizer + UBSan (heap misuse of the values handed out)
    harness_asan = vv.build_harness("h_conc", san="asan") if ck.thorough else None
    model = vv.ocaml_model("Conc")

    rng = ck.rng
    if ck.replay_path:
        rp = json.load(open(ck.replay_path))
        cases = [rp["case"]] if "case" in rp else list(rp.get("cases", []))
        reps = 5
    else:
        cases = list(REFUTED_CASES) + [gen_script(rng, ck.thorough) for _ in range(2500 if ck.thorough else 45)]
        reps = 1
    hist = {"refuted_schedule_cases": 0, "stress_scripts": 0, "threads": 0, "events": 0, "finds": 0, "hits": 0}
    mlines, midx = [], []
    outs = {}
    for k, line in enumerate(cases):
        for rep in range(reps):
            ck.count()
            rc, out, err = run_case(harness, line)
            outs[k] = out
            if line[0] == "R":
                hist["refuted_schedule_cases"] += 1
            else:
                hist["stress_scripts"] += 1
                hist["threads"] += line.count("|")
                hist["events"] += out.count(":")
                hist["finds"] += line.count("F,")
                hist["hits"] += sum(1 for t in out.split()[:-1] for x in t.split("=", 1)[1].split(";") if x not in ("-", "."))
            if k < 2 or k == len(REFUTED_CASES):
                ck.sample({"case": line[:300], "impl": out[:300], "tsan": err[:200]})
            if rc != 0 or "ThreadSanitizer" in err:
                kind = "data-race" if "data race" in err else ("use-after-free" if "use-after-free" in err else
                                                               ("deadlock" if rc == 124 else "crash"))
                where = "find" if "cache::find" in err or line[0] == "R" or "h_conc.cc" in err else "cache"
                ck.add_violation("tsan:%s" % kind,
                                 "ThreadSanitizer / runtime reports a %s while threads share one cache (%s)" % (kind, where),
                                 {"case": line, "impl": out, "exit": rc, "report": err[:3500],
                                  "how": "h_conc (TSan build) on this line; R = the refuted schedule of Refuted_C15.v"})
                break
            bad = oracle(line, out)
            if bad:
                ck.add_violation("integrity", bad, {"case": line, "impl": out})
                break
            if harness_asan is not None and rep == 0:
                rca, outa, erra = run_case(harness_asan, line)
                hist["asan_runs"] = hist.get("asan_runs", 0) + 1
                bada = None if rca == 0 else "AddressSanitizer/UBSan build: exit %d" % rca
                bada = bada or oracle(line, outa)
                if bada:
                    ck.add_violation("asan:" + ("integrity" if rca == 0 else "report"), bada,
                                     {"case": line, "impl": outa, "exit": rca, "report": erra[:3500],
                                      "how": "h_conc built with -fsanitize=address,undefined on this line"})
                    break
            if line[0] == "S":
                if interleaved(out):
                    ck.nontriv(line)
                if rep == 0 and " L," not in line:      # load has no scheduling point: oracle + TSan only
                    mlines.append(line + " @ " + out.split("trace=")[-1])
                    midx.append(k)
            else:
                ck.nontriv(line)
    if mlines:
        rc, mout, merr = vv.run_lines(model, "\n".join(mlines) + "\n", timeout=1200)
        if rc != 0 or len(mout) != len(mlines):
            raise vv.BuildError("model driver failed: rc=%s %s" % (rc, merr[:500]))
        for k, mo in zip(midx, mout):
            ho = outs[k].split(" trace=")[0].strip()
            if mo.strip() != ho:
                ck.add_diff({"case": cases[k], "trace": outs[k].split("trace=")[-1][:2000]}, mo, ho,
                            what="the model driven in the observed order of lock acquisitions does not accept the "
                                 "trace or predicts other find results")
        ck.sample({"case": mlines[0][:300], "model": mout[0][:300]})
    ck.coverage["histogram"] = hist
    return ck.finish(
        rule="the refuted schedule at call level (reader obtains the result of find, writer overwrites the slot with "
             "1/2/4-component values, reader copies) plus seeded thread scripts: 2..6 threads (readers, writers, "
             "clearers, savers/loaders, mixed; up to 8 threads and 2^6 slots and a second pass under ASan/UBSan in thorough) over 1..4 keys that mostly share one slot of a 2^1..2^3 table, values of 1, 2 and 4 "
             "components that encode key and version, H3 scheduling points yielding/sleeping with probability 0..0.6; "
             "non-trivial = the trace switches threads at least 4 times and some find hits; distinct = distinct scripts",
        explanation="partial by nature: the proofs are about a sequentially consistent model of the lock protocol; "
                    "hardware reordering, allocator races and std::shared_mutex itself are only searched by TSan")
