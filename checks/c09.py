"""C09 -- Dataset import is faithful to the table.

proof:  coq/Props/Properties_C09.v about coq/Csv/CsvDefs.v (hand-written model of
        pocket_csv.h, dataframe.cc, category_set.cc, problem.cc::setup_terminals).
tie:    correspondence: harness/h_csv.cc (real read_csv / read_xrff / src_problem,
        ASan+UBSan) against the extracted model on generated tables.
search: the property restated in python (csv_common.expected_frame /
        judge_frame / judge_vars) evaluated on the implementation's output.
"""
import json

import vv
import csv_common as cc


def tame_family(rng, with_header, classification=False, void=True):
    """tables on which delimiter and header sniffing are unambiguous: no cell
    contains a candidate delimiter, plain decimal numbers, (a) non-numeric
    names over numeric data or (b) no header and an all-numeric first row"""
    delim = rng.choice(cc.DELIMS)
    nin = rng.randint(2, 5)
    nrows = rng.randint(3, 12)
    kinds = ["text" if classification else "num"] + ["num"] * nin
    if void and rng.random() < 0.4:
        kinds.insert(rng.randint(1, len(kinds) - 1), "void")
    ncols = len(kinds)
    labels = ["k" + cc.gen_text(rng, delim, True).replace(" ", "") for _ in range(3)]
    labels = list(dict.fromkeys(labels))
    cells = []
    for r in range(nrows):
        row = []
        for c, k in enumerate(kinds):
            if k == "num":
                row.append(cc.gen_number(rng, plain=True) if rng.random() < 0.7 else "%.2f" % rng.uniform(-50, 50))
            elif k == "void":
                row.append("")
            else:
                row.append(labels[r % len(labels)] if r < len(labels) else rng.choice(labels))
        cells.append(row)
    header = None
    if with_header:
        header = ["n" + cc.gen_text(rng, delim, True).replace(" ", "_") + str(c) for c in range(ncols)]
    return {"delim": delim, "ncols": ncols, "nrows": nrows, "out": 0, "out_kind": "class" if classification else "num",
            "kinds": kinds, "cells": cells, "header": header}


def padded_family(rng, with_header):
    """space-padded tables (a blank after every delimiter, per column optional trailing blanks) in which fixed-width
    lower-case code columns (2-4 letters) outnumber the numeric ones by >= 2.  Unambiguous: without header the first
    row has the width of every other row in each code column and is numeric where they are; with header the names
    are longer than every code and are not numbers."""
    delim = rng.choice([44, 59, 58, 124])
    nnum = rng.randint(1, 2)                      # column 0 = numeric output
    ncode = nnum + rng.randint(2, 4)
    kinds = ["num"] * nnum + ["text"] * ncode
    order = list(range(1, len(kinds)))
    rng.shuffle(order)
    kinds = [kinds[0]] + [kinds[i] for i in order]
    ncols = len(kinds)
    widths = [rng.randint(2, 4) for _ in range(ncols)]
    trail = [rng.choice(["", "", " "]) for _ in range(ncols)]
    nrows = rng.randint(3, 12)
    letters = "ghjkmqrsuvwz"
    cells = []
    for r in range(nrows):
        row = []
        for c in range(ncols):
            lead = "" if c == 0 else " "
            if kinds[c] == "num":
                row.append(lead + str(rng.randint(-999, 9999)) + trail[c])
            else:
                row.append(lead + "".join(rng.choice(letters) for _ in range(widths[c])) + trail[c])
        cells.append(row)
    header = None
    if with_header:
        header = [("" if c == 0 else " ") + "n" + "".join(rng.choice(letters) for _ in range(rng.randint(6, 9))) + str(c)
                  for c in range(ncols)]
    return {"delim": delim, "ncols": ncols, "nrows": nrows, "out": 0, "out_kind": "num", "kinds": kinds,
            "cells": cells, "header": header}


def mixed_family(rng, with_header):
    """tables whose columns are drawn from the classes of the agreement theorems (HeaderProofs): plain numbers,
    fixed-width lower-case text (name of another length / first row of that width), variable-width lower-case text
    (casts no vote) and blank columns; column 0 is numeric, so at least one column votes the right way"""
    delim = rng.choice(cc.DELIMS)
    letters = "ghjkmqrsuvwz"
    classes = ["num"] + [rng.choice(["num", "fixed", "fixed", "var", "var", "blank"]) for _ in range(rng.randint(1, 5))]
    ncols = len(classes)
    nrows = rng.randint(3, 12)
    widths = [rng.randint(1, 5) for _ in range(ncols)]
    cells = []
    for r in range(nrows):
        row = []
        for c, k in enumerate(classes):
            if k == "num":
                row.append(str(rng.randint(-9999, 9999)) if rng.random() < 0.7 else "%.2f" % rng.uniform(-50, 50))
            elif k == "fixed":
                row.append("".join(rng.choice(letters) for _ in range(widths[c])))
            elif k == "var":
                w = [2, 5][r] if r < 2 else rng.randint(1, 8)          # two different widths among the first rows
                row.append("".join(rng.choice(letters) for _ in range(w)))
            else:
                row.append("")
        cells.append(row)
    header = None
    if with_header:
        header = []
        for c, k in enumerate(classes):
            ln = widths[c] + rng.randint(1, 4) if k == "fixed" else rng.randint(3, 9)
            header.append("".join(rng.choice(letters) for _ in range(ln)))
    kinds = ["num" if k == "num" else "void" if k == "blank" else "text" for k in classes]
    return {"delim": delim, "ncols": ncols, "nrows": nrows, "out": 0, "out_kind": "num", "kinds": kinds,
            "cells": cells, "header": header}


def awkward_names(t, rng):
    """header names that are NOT distinct / not innocent: a repeated name followed by more input columns, a name equal
    to the default name of an unnamed column (X<i>), names of shipped primitives, empty names.  Only the names of the
    numeric input columns are touched, so the table stays in the unambiguous header family."""
    num = [c for c in range(1, t["ncols"]) if t["kinds"][c] == "num"]
    if len(num) < 2:
        return
    h = t["header"]
    kind = rng.randrange(6)
    a, b = num[0], num[1]
    if kind == 0:                                  # repeated name, more columns after it
        h[b] = h[a]
    elif kind == 1:                                # unnamed column, then its default name used explicitly
        h[a] = ""
        h[b] = "X%d" % a
    elif kind == 2:                                # explicit default-looking name first, unnamed column later
        h[a] = "X%d" % b
        h[b] = ""
    elif kind == 3:                                # names of shipped primitives
        for c in num:
            h[c] = rng.choice(["FADD", "FSUB", "FMUL", "SIFE", "FLN", "FABS"])
    elif kind == 4:                                # all the same
        for c in num:
            h[c] = h[a]
    else:                                          # several empty names
        for c in num[:-1]:
            h[c] = ""


def table_text(t, rng, tame=False):
    rows = ([t["header"]] if t["header"] is not None else []) + t["cells"]
    if tame:
        return cc.render_csv(rows, t["delim"], rng, quote_p=0.0)
    return cc.render_csv(rows, t["delim"], rng, quote_p=0.25, eol=rng.choice(["\n", "\n", "\r\n"]),
                         final_eol=rng.random() < 0.8, blank_lines=rng.random() < 0.3)


def xrff_case(rng):
    t = cc.gen_table(rng, delim=44, for_xml=True, allow_void=False)
    if t["out"] is None:
        t["out"] = t["ncols"] - 1
        t["out_kind"] = rng.choice(["num", "class"])
        t["kinds"][t["out"]] = "num" if t["out_kind"] == "num" else "text"
        t = regen_column(t, rng, t["out"])
    explicit = rng.random() < 0.7 or t["out"] != t["ncols"] - 1
    names = t["header"] or ["a%d" % c for c in range(t["ncols"])]
    t["header"] = names
    attrs = []
    for c in range(t["ncols"]):
        k = t["kinds"][c]
        if k == "num":
            ty = rng.choice(["numeric", "real"])
        else:
            ty = rng.choice(["nominal", "string"])
        a = {"name": names[c], "type": ty, "cls": explicit and c == t["out"]}
        if ty == "nominal":
            a["labels"] = sorted({r[c] for r in t["cells"]})
        attrs.append(a)
    t["attrs"] = attrs
    return t, cc.render_xrff(attrs, t["cells"])


def regen_column(t, rng, c):
    labels = ["k" + cc.gen_text(rng, 44, True).strip() for _ in range(3)]
    for r, row in enumerate(t["cells"]):
        row[c] = cc.gen_number(rng, plain=True) if t["kinds"][c] == "num" else labels[r % 3]
    return t


def gen_cases(ck):
    rng = ck.rng
    n = 12 if ck.thorough else 1
    cases = []
    # 0. corpus: the witness of Refuted_C09.v (an empty column between numeric ones) through src_problem
    t0 = {"delim": 44, "ncols": 4, "nrows": 2, "out": 0, "out_kind": "num", "kinds": ["num", "num", "void", "num"],
          "cells": [["1", "2", "", "4"], ["5", "6", "", "8"]], "header": None}
    cases.append({"mode": "prob", "table": t0, "line": "prob fixed %s 0" % cc.hx("1,2,,4\n5,6,,8\n")})
    # repeated / default-colliding column names through src_problem (variables are identified by position)
    for hd in (["y", "a", "a", "b"], ["y", "", "X1", "c"], ["y", "X2", "", "c"], ["y", "FADD", "FADD", "FADD"]):
        tn = {"delim": 44, "ncols": 4, "nrows": 3, "out": 0, "out_kind": "num", "kinds": ["num"] * 4,
              "cells": [["1", "2", "3", "4"], ["5", "6", "7", "8"], ["9", "10", "11", "12"]], "header": hd}
        cases.append({"mode": "prob", "table": tn,
                      "line": "prob fixed %s 0" % cc.hx("\n".join(",".join(r) for r in [hd] + tn["cells"]) + "\n")})
    # the witness of C09_has_header_named_numeric_refuted: a name over 1e5 / 1E5; sniffed vs explicit header
    t1 = {"delim": 44, "ncols": 1, "nrows": 2, "out": 0, "out_kind": "num", "kinds": ["num"],
          "cells": [["1e5"], ["1E5"]], "header": ["Abc"]}
    cases.append({"mode": "csv", "table": t1, "line": cc.csv_line("Abc\n1e5\n1E5\n", 44, 1, False, 0)})
    cases.append({"mode": "csv", "table": t1, "key_override": "sniff:header-exponent-case",
                  "line": cc.csv_line("Abc\n1e5\n1E5\n", 44, -1, False, 0)})
    # 1. general tables, explicit settings, every delimiter / output index / quoting
    for _ in range(500 * n):
        t = cc.gen_table(rng)
        txt = table_text(t, rng)
        trim = rng.random() < 0.3
        cases.append({"mode": "csv", "table": t,
                      "line": cc.csv_line(txt, t["delim"], 1 if t["header"] is not None else 0, trim, t["out"])})
    # 2. filter hook: rows equal to a chosen cell in column k are rejected
    for _ in range(120 * n):
        t = cc.gen_table(rng, allow_void=False)
        numcols = [c for c in range(t["ncols"]) if t["kinds"][c] == "num"]
        if not numcols:
            continue
        k = rng.choice(numcols)
        val = rng.choice(t["cells"])[k]
        keep = [r for r in t["cells"] if r[k] != val]
        if len(keep) < 1:
            continue
        if t["out_kind"] == "class" and len({r[t["out"]].strip(cc.WS) for r in keep}) < 2:
            continue
        # the first data row decides the column domains: keep its text cells non-blank
        if any(t["kinds"][c] == "text" and keep[0][c].strip(cc.WS) == "" for c in range(t["ncols"])):
            continue
        txt = table_text(t, rng)
        cases.append({"mode": "csv", "table": t, "rows": keep,
                      "line": cc.csv_line(txt, t["delim"], 1 if t["header"] is not None else 0, False, t["out"],
                                          "E:%d:%s" % (k, cc.hx(val)))})
    # 3. sniffed delimiter / header on unambiguous tables, next to the explicit reading
    for _ in range(150 * n):
        t = tame_family(rng, rng.random() < 0.5, classification=False, void=False)
        txt = table_text(t, rng, tame=True)
        hdr = 1 if t["header"] is not None else 0
        for (d, h) in ((0, -1), (t["delim"], -1), (0, hdr), (t["delim"], hdr)):
            cases.append({"mode": "csv", "table": t, "sniffed": (d == 0, h == -1),
                          "line": cc.csv_line(txt, d, h, False, 0)})
    # 3b. the same on space-padded tables with dominating fixed-width code columns (has_header compares field widths)
    for _ in range(80 * n):
        t = padded_family(rng, rng.random() < 0.5)
        txt = table_text(t, rng, tame=True)
        hdr = 1 if t["header"] is not None else 0
        for (d, h) in ((0, -1), (t["delim"], -1), (t["delim"], hdr)):
            cases.append({"mode": "csv", "table": t, "sniffed": (d == 0, h == -1),
                          "line": cc.csv_line(txt, d, h, False, 0)})
    # 3c. mixed column classes of the agreement theorems (numeric / fixed-width text / variable text / blank)
    for _ in range(70 * n):
        t = mixed_family(rng, rng.random() < 0.5)
        txt = table_text(t, rng, tame=True)
        hdr = 1 if t["header"] is not None else 0
        for (d, h) in ((0, -1), (t["delim"], hdr)):
            cases.append({"mode": "csv", "table": t, "sniffed": (d == 0, h == -1),
                          "line": cc.csv_line(txt, d, h, False, 0)})
    # 3d. members of the refuted families (Refuted_C09.v): no verdict, model and implementation must agree
    for txt in ("name,city\nalice,rome\nbob,paris\n", "Rome,Lazio\nmilan,lombardy\nturin,piedmont\n",
                "ab,cd\nef,gh\nij,kl\n"):
        for out in (0, None):
            cases.append({"mode": "raw", "line": cc.csv_line(txt, 0, -1, False, out)})
    # 3e. boundaries of the regenerated constants (Gen/CsvConsts.v), correspondence only: a column that starts after
    #     k blank rows around the number of records columns_info::build looks at, and tables whose delimiter statistics
    #     change around the number of lines the sniffer scans
    for k in (1, 2, 3, 5, 8, 9, 10, 11, 12, 15):
        rows = ["%d,%s,%d" % (i, "" if i < k else "t%d" % i, i * 2) for i in range(k + 4)]
        cases.append({"mode": "raw", "line": cc.csv_line("\n".join(rows) + "\n", 44, 0, False, 0)})
        cases.append({"mode": "raw", "line": cc.csv_line("a,b,c\n" + "\n".join(rows) + "\n", 44, 1, False, 0)})
    for k in (1, 2, 3, 5, 10, 18, 19, 20, 21, 22, 25):
        rows = ["%d;%d" % (i, i + 1) for i in range(k)] + ["%d,%d,%d" % (i, i, i) for i in range(2 * k + 3)]
        cases.append({"mode": "raw", "line": cc.csv_line("\n".join(rows) + "\n", 0, -1, False, 0)})
        rows = ["%d,zz" % i for i in range(k + 1)] + ["%d,z%s" % (i, "z" * (i % 3)) for i in range(5)]
        cases.append({"mode": "raw", "line": cc.csv_line("\n".join(rows) + "\n", 44, -1, False, 0)})
    # 3f. EXPLICIT delimiter with a GUESSED header on tables where the sniffer's own delimiter guess is another
    #     candidate (it occurs once in every row, inside a text cell, and precedes the real delimiter in the sniffer's
    #     order): the explicit delimiter must be honoured.  Header-less, fixed-width cells, so that the header guess
    #     (made by the sniffer on ITS delimiter) is NO_HEADER either way.
    for _ in range(40 * n):
        d, c = rng.choice([(124, 58), (124, 59), (124, 44), (59, 44), (59, 58), (58, 44)])
        nnum = rng.randint(1, 3)
        nrows = rng.randint(3, 10)
        cells = [[str(rng.randint(10, 99)) for _ in range(nnum + 1)] + ["%d%s%d" % (rng.randint(10, 99), chr(c), rng.randint(10, 99))]
                 for _ in range(nrows)]
        t = {"delim": d, "ncols": nnum + 2, "nrows": nrows, "out": 0, "out_kind": "num", "kinds": ["num"] * (nnum + 1) + ["text"],
             "cells": cells, "header": None}
        txt = table_text(t, rng, tame=True)
        for h in (-1, 0):
            cases.append({"mode": "csv", "table": t, "line": cc.csv_line(txt, d, h, False, 0)})
    # 4. src_problem + the program Xi
    for _ in range(150 * n):
        cl = rng.random() < 0.4
        t = tame_family(rng, True if cl else rng.random() < 0.5, classification=cl, void=True)
        if t["header"] is not None and rng.random() < 0.6:
            awkward_names(t, rng)
        txt = table_text(t, rng, tame=True)
        cases.append({"mode": "prob", "table": t, "line": "prob fixed %s %d" % (cc.hx(txt), rng.randint(0, 1))})
    # 5. XRFF
    for _ in range(150 * n):
        t, xml = xrff_case(rng)
        cases.append({"mode": "xrff", "table": t, "line": "xrff fixed %s N" % cc.hx(xml)})
    # 5b. XRFF with a filter hook that looks at a cell POSITION of the instance as written in the file (before the
    #     output value is moved to the front), output attribute not the first one
    for _ in range(80 * n):
        t, xml = xrff_case(rng)
        if t["out"] == 0:
            continue
        k = rng.randint(0, t["out"])
        if any(r[k] != r[k].strip(cc.WS) or r[k] == "" for r in t["cells"]):
            continue
        val = rng.choice(t["cells"])[k]
        keep = [r for r in t["cells"] if r[k] != val]
        if len(keep) < 1:
            continue
        if t["out_kind"] == "class" and len({r[t["out"]].strip(cc.WS) for r in keep}) < 2:
            continue
        cases.append({"mode": "xrff", "table": t, "rows": keep,
                      "line": "xrff fixed %s E:%d:%s" % (cc.hx(xml), k, cc.hx(val))})
    # 6. parse_line alone: rendered records (oracle: the record comes back) and raw lines
    for _ in range(400 * n):
        d = rng.choice(cc.DELIMS)
        fields = [rng.choice(["", cc.gen_text(rng, d), cc.gen_number(rng), ' "', '""', " "]) for _ in range(rng.randint(1, 6))]
        line = chr(d).join(cc.rfc_field(f, d, rng.random() < 0.3 or f[:1] in tuple(cc.WS) or f[-1:] in tuple(cc.WS)) for f in fields)
        if line.strip(cc.WS) == "":
            continue
        trim = rng.random() < 0.3
        cases.append({"mode": "line", "fields": fields, "trim": trim,
                      "line": "line %s %d %d 0" % (cc.hx(line), d, 1 if trim else 0)})
    for _ in range(300 * n):
        d = rng.choice(cc.DELIMS)
        alphabet = 'ab1 "' + '"' + chr(d) + chr(d) + ", \t"
        line = "".join(rng.choice(alphabet) for _ in range(rng.randint(1, 14)))
        if line.strip(cc.WS) == "":
            continue
        cases.append({"mode": "line", "line": "line %s %d %d %d" % (cc.hx(line), d, rng.randint(0, 1), rng.randint(0, 1))})
    return cases


def judge_case(c, got):
    """the property oracle for one case: list of (key, message)"""
    t = c.get("table")
    bad = []
    if got["kind"] == "CRASH":
        return [("%s:sanitizer" % c["mode"], "the reader executes undefined behaviour on a table (sanitizer report)")]
    if c["mode"] in ("csv", "xrff"):
        bad = cc.judge_frame(t, got, c.get("rows"), c["mode"])
        if c.get("sniffed") and bad:
            bad = [("sniff:disagree", "sniffed %s: %s" % (c["sniffed"], b[1])) for b in bad]
    elif c["mode"] == "prob":
        bad = cc.judge_frame(t, got, None, "prob") or cc.judge_vars(t, got)
    elif c["mode"] == "line" and "fields" in c:
        want = [f.strip(cc.WS) if c["trim"] else f for f in c["fields"]]
        have = [x.decode("latin1") for x in got.get("rec", [])]
        if want != have:
            bad = [("line:parse-render", "parse_line(render(%r)) = %r" % (c["fields"], have))]
    if bad and c.get("key_override"):
        bad = [(c["key_override"], bad[0][1])]
    return bad


def case_with_table(c, t):
    """the case c re-rendered for the (smaller) table t: deterministic minimal quoting, same reading parameters"""
    w = c["line"].split(" ")
    rows = ([t["header"]] if t["header"] is not None else []) + t["cells"]
    if c["mode"] == "xrff":
        txt = cc.render_xrff(t["attrs"], t["cells"])
    else:
        txt = "".join(chr(t["delim"]).join(cc.rfc_field(x, t["delim"], False) for x in r) + "\n" for r in rows)
    if c["mode"] == "csv":
        w[2] = cc.hx(txt)
        w[6] = "-1" if t["out"] is None else str(t["out"])
    else:
        w[2] = cc.hx(txt)
    c2 = dict(c)
    c2["table"] = t
    c2["line"] = " ".join(w)
    return c2


def table_ok(t):
    """still inside the property's domain after removing rows/columns"""
    if len(t["cells"]) < 1 or t["ncols"] < 2:
        return False
    first = t["cells"][0]
    for c in range(t["ncols"]):
        if t["kinds"][c] == "text" and first[c].strip(cc.WS) == "":
            return False
    if t["out_kind"] == "class" and len({r[t["out"]].strip(cc.WS) for r in t["cells"]}) < 2:
        return False
    if not all(any(x.strip(cc.WS) for x in r) for r in t["cells"]):
        return False
    ins = [c for c in range(t["ncols"]) if c != t["out"]]
    return any(t["kinds"][c] != "void" for c in ins)


def drop_column(t, c):
    t2 = dict(t)
    t2["ncols"] = t["ncols"] - 1
    t2["kinds"] = t["kinds"][:c] + t["kinds"][c + 1:]
    t2["cells"] = [r[:c] + r[c + 1:] for r in t["cells"]]
    t2["header"] = None if t["header"] is None else t["header"][:c] + t["header"][c + 1:]
    if t.get("attrs") is not None:
        t2["attrs"] = t["attrs"][:c] + t["attrs"][c + 1:]
    if t["out"] is not None and c < t["out"]:
        t2["out"] = t["out"] - 1
    return t2


def shrink_table_case(harness, c, key, budget=70):
    """greedy shrinking of a table case whose oracle verdict has key `key`: re-render with minimal quoting, drop
    data rows, then drop non-output columns, as long as the implementation still violates the same clause"""
    if c.get("table") is None or c.get("rows") is not None or c["mode"] not in ("csv", "prob", "xrff") \
            or c.get("key_override"):
        return c
    sniffed = bool(c.get("sniffed")) or c["mode"] == "prob"      # keep sniffing unambiguous: rows only, >= 2 of them

    def fails(c2):
        out, _ = cc.pc.run_harness_resilient(harness, [c2["line"]])
        bad = judge_case(c2, cc.parse_out(out[0]))
        return bool(bad) and bad[0][0] == key, out[0]

    t = dict(c["table"])
    t["nrows"] = len(t["cells"])
    base = case_with_table(c, t)
    ok, o = fails(base)
    budget -= 1
    if not ok:
        return c
    best, best_out = base, o
    i = 0
    while i < len(t["cells"]) and budget > 0:
        t2 = dict(t)
        t2["cells"] = t["cells"][:i] + t["cells"][i + 1:]
        t2["nrows"] = len(t2["cells"])
        if table_ok(t2) and (not sniffed or len(t2["cells"]) >= 2):
            budget -= 1
            cand = case_with_table(c, t2)
            ok, o = fails(cand)
            if ok:
                t, best, best_out = t2, cand, o
                continue
        i += 1
    col = 0
    while col < t["ncols"] and budget > 0 and not sniffed:
        if col != t["out"]:
            t2 = drop_column(t, col)
            if table_ok(t2) and (c["mode"] != "prob" or t2["out"] == 0):
                budget -= 1
                cand = case_with_table(c, t2)
                ok, o = fails(cand)
                if ok:
                    t, best, best_out = t2, cand, o
                    continue
        col += 1
    best = dict(best)
    best["shrunk_impl"] = best_out
    return best


def evaluate(ck, cases, hout, crashes, mout, harness=None):
    hist = {}
    shrunk = {}
    for k, c in enumerate(cases):
        ck.count()
        hist[c["mode"]] = hist.get(c["mode"], 0) + 1
        ho, mo = hout[k], mout[k]
        if ho == "SKIPPED":
            continue
        got = cc.parse_out(ho)
        t = c.get("table")
        if k < 2 or k % (len(cases) // 4 + 1) == 0:
            ck.sample({"mode": c["mode"], "line": c["line"][:160], "impl": (ho or "")[:200], "model": mo[:200]})
        if t is not None and t["nrows"] >= 2:
            ck.nontriv(c["line"])
        elif c["mode"] in ("line", "raw"):
            ck.nontriv(c["line"])
        replay = {"mode": c["mode"], "line": c["line"], "impl": ho, "model": mo,
                  "table": t, "rows": c.get("rows"), "fields": c.get("fields"), "trim": c.get("trim")}
        bad = judge_case(c, got)
        for key, msg in bad[:1]:
            if got["kind"] == "CRASH":
                replay = dict(replay, sanitizer=crashes.get(k, "")[-1500:])
            if harness is not None and key not in shrunk and not ck.replay_path:
                small = shrink_table_case(harness, c, key)
                shrunk[key] = True
                if small is not c:
                    replay = dict(replay, line=small["line"], table=small["table"], impl=small.get("shrunk_impl"),
                                  original_line=c["line"],
                                  input_text=cc.unhx(small["line"].split(" ")[2]).decode("latin1")[:600])
            ck.add_violation(key, msg, replay)
        if got["kind"] == "CRASH":
            continue
        if cc.canon(ho) != cc.canon(mo):
            ck.add_diff({"mode": c["mode"], "line": c["line"][:400]}, mo[:600], (ho or "")[:600])
    ck.coverage["per_mode"] = hist
    import os
    if os.environ.get("VV_DEBUG"):
        for d in ck.diffs[:int(os.environ["VV_DEBUG"])]:
            vv.log("DIFF", d["case"]["line"][:300], "\n   M:", d["model"][:400], "\n   H:", d["impl"][:400])
        for v in ck.violations[:int(os.environ["VV_DEBUG"])]:
            vv.log("VIOL", v["key"], v["what"][:300], v["replay"]["line"][:200])


def run(ck):
    regenerated, problems = cc.regen_consts()
    if regenerated:
        ck.tie = "regenerated+correspondence"
        ck.trusted.append("translate/csv_consts.py (regular expressions over pocket_csv.h / dataframe.cc -> coq/Gen/CsvConsts.v); "
                          "only the literal constants are regenerated, the control flow of the model is hand-written")
    else:
        ck.notes.append("translator csv_consts: " + "; ".join(problems)[:400] +
                        " -- coq/Gen/CsvConsts.v kept as checked in, tie = correspondence only")
    res = vv.prove("Properties_C09", set())
    ck.add_proof(res)
    ck.add_proof(vv.prove("Refuted_C09", set()))
    ck.trusted += ["extraction: ExtrOcamlBasic only; ocaml/csv_driver.ml + zutil.ml (realises the strtod/stod/stoi oracles "
                   "with the C library through float_of_string)",
                   "harness/h_csv.cc canonical printing; g++ 12 ASan/UBSan",
                   "checks/csv_common.py: python restatement of the property used as the oracle"]
    ck.assumptions += ["is_number/stod/stoi are universally quantified function arguments of the model (oracles)",
                       "tinyxml2 is an oracle DOM: the model of read_xrff runs on the DOM the harness dumps with the same "
                       "tinyxml2 calls"]
    harness, model = cc.build()
    if ck.replay_path:
        rp = json.load(open(ck.replay_path))
        cases = [{k: rp.get(k) for k in ("mode", "line", "table", "rows", "fields", "trim") if rp.get(k) is not None}]
    else:
        cases = gen_cases(ck)
    hl = [c["line"] for c in cases]
    hout, crashes = cc.run_resilient(harness, hl)
    ml = list(hl)
    xi = [i for i, c in enumerate(cases) if c["mode"] == "xrff"]
    xm = cc.xrff_model_lines([hl[i] for i in xi], [hout[i] for i in xi])
    for i, l in zip(xi, xm):
        ml[i] = l
    rc, mout, merr = vv.run_lines(model, "\n".join(ml) + "\n")
    if rc != 0 or len(mout) != len(ml):
        raise vv.BuildError("model driver failed: rc=%s %s" % (rc, merr[:500]))
    evaluate(ck, cases, hout, crashes, mout, harness)
    return ck.finish(
        rule="seeded random rectangular tables (2-6 columns, 2-14 rows; numeric/text/void columns; every delimiter; header or "
             "not; every output index and none; random quoting; printable cell text with quotes, delimiters, blanks), the "
             "same with a filter hook, sniffed vs explicit settings on unambiguous tables (plain numeric tables, space-padded tables whose fixed-width code columns outnumber the numeric ones, and tables mixing numeric / fixed-width text / variable-width text / blank columns as in the agreement theorems), src_problem + program Xi, XRFF "
             "renderings, and single lines for parse_line; non-trivial = a table with >= 2 data rows and >= 2 columns or a "
             "non-blank line; distinct = distinct input text and parameters")
