"""C19 -- Exported source code denotes the same expression as the program.

proof:  coq/Props/Properties_C19.v about coq/Lang/LangDefs.v (model of
        i_mep.cc language(), utility.cc replace_all(), function/terminal/
        constant/variable display, std::to_string) over coq/Gen/Templates.v,
        which is regenerated from primitive/{real,bool,string,int}.h and
        function.cc on every run (translate/templates.py).
tie:    regenerated templates + correspondence: harness h_lang prints genomes
        through the real out::*_language manipulators (ASan/UBSan); the
        extracted model must print the same bytes in the four formats.
search: executable oracles applied to the IMPLEMENTATION's text:
        (a) an independent lexer + precedence parser (gen/c19_lang.py) must read
            the text as the program's own expression: every function node = its
            template with each placeholder replaced by the complete argument;
        (b) gcc -std=c11 / g++ -std=c++17 -fsyntax-only accept the C / C++ text,
            python3 compile() accepts the Python text;
        (c) the C text, compiled and executed, returns the interpreter's value
            on input vectors (programs with exactly printable constants).
"""
import concurrent.futures
import json
import os
import shutil
import subprocess
import sys
import tempfile

import vv
import prims_common as pc

sys.path.insert(0, os.path.join(vv.VERIF, "translate"))
sys.path.insert(0, os.path.join(vv.VERIF, "gen"))
import templates as tpl
import c19_lang as L

FMTS = L.FORMATS


INFO_CACHE = os.path.join(vv.VERIF, "gen", "c19_templates_last.json")


def _enc(o):
    if isinstance(o, bytes):
        return {"__b": o.hex()}
    if isinstance(o, (list, tuple)):
        return [_enc(x) for x in o]
    if isinstance(o, dict):
        return {k: _enc(v) for k, v in o.items()}
    return o


def _dec(o):
    if isinstance(o, dict) and "__b" in o:
        return bytes.fromhex(o["__b"])
    if isinstance(o, list):
        return [_dec(x) for x in o]
    if isinstance(o, dict):
        return {k: _dec(v) for k, v in o.items()}
    return o


def _tuples(info):
    """json turned the display tuples into lists"""
    info = dict(info)
    info["disp"] = [tuple([e[0]] + ([[tuple(p) for p in e[1]]] if len(e) > 1 else [])) for e in info["disp"]]
    return info


def regen_templates(snap):
    """returns (infos, problems, regenerated?).  The class descriptions of the last successful
    regeneration are kept in gen/c19_templates_last.json: a class whose display() left the translator's
    subset keeps being generated and compared, with its last known description (the model then is the
    checked-in Gen/Templates.v, tie = correspondence only)"""
    infos, problems, text = tpl.generate(snap)
    if problems:
        try:
            with open(INFO_CACHE) as f:
                cached = [_tuples(_dec(i)) for i in json.load(f)]
        except (OSError, ValueError):
            cached = []
        have = {i["ident"] for i in infos}
        infos = infos + [i for i in cached if i["ident"] not in have]
        order = checked_in_order()
        infos.sort(key=lambda i: order.index(i["ident"]) if i["ident"] in order else len(order))
        return infos, problems, False
    with vv.Lock("coq"):
        vv.write_if_changed(os.path.join(vv.COQ, "Gen", "Templates.v"), text)
        vv.write_if_changed(INFO_CACHE, json.dumps([_enc(i) for i in infos], indent=0, sort_keys=True))
    return infos, [], True


def checked_in_order():
    import re
    with open(os.path.join(vv.COQ, "Gen", "Templates.v")) as f:
        txt = f.read()
    m = re.search(r"Definition classes_all.*?\[(.*?)\]\.", txt, re.S)
    return [x.strip()[3:] for x in m.group(1).split(";") if x.strip()]


def unhex(h):
    return b"" if h == "-" else bytes.fromhex(h)


def parse_out(line):
    """harness / model output line -> ({fmt: bytes|None}, [values] or the P flags)"""
    texts, vals = {}, []
    if line is None:
        return None, []
    w = line.split()
    for i, t in enumerate(w):
        if t == "R":
            vals = w[i + 1:]
            break
        if t.startswith("P:"):
            vals = t[2:]
            break
        if ":" in t:
            k, v = t.split(":", 1)
            if k in FMTS:
                texts[k] = None if v == "NONE" else unhex(v)
    return (texts if len(texts) == 4 else None), vals


def run_slice(exe, lines, budget, env=None):
    """line-protocol harness on one slice with a time budget; a sanitizer abort marks its line CRASH
    and the harness is restarted on the rest; lines not answered within the budget stay None.
    returns (outputs aligned with lines, {index: stderr}, timed_out?)"""
    import time
    out = [None] * len(lines)
    crashes = {}
    start = 0
    t_end = time.time() + budget
    env = env or vv.san_env()
    restarts = 0
    while start < len(lines):
        left = t_end - time.time()
        if left <= 0:
            return out, crashes, True
        try:
            p = subprocess.run([exe], input="\n".join(lines[start:]) + "\n", env=env, timeout=left,
                               stdout=subprocess.PIPE, stderr=subprocess.PIPE, text=True, errors="replace")
            got, rc, err = p.stdout.splitlines(), p.returncode, p.stderr
        except subprocess.TimeoutExpired as e:
            so = e.stdout or b""
            if isinstance(so, bytes):
                so = so.decode(errors="replace")
            got = so.splitlines()
            if so and not so.endswith("\n"):
                got = got[:-1]
            for i, l in enumerate(got[:len(lines) - start]):
                out[start + i] = l
            return out, crashes, True
        n = min(len(got), len(lines) - start)
        for i in range(n):
            out[start + i] = got[i]
        if start + n >= len(lines):
            if rc != 0:
                crashes[len(lines) - 1] = err
                out[len(lines) - 1] = "CRASH-AT-EXIT " + (out[len(lines) - 1] or "")
            break
        k = start + n
        out[k] = "CRASH rc=%d" % rc
        crashes[k] = err
        start = k + 1
        restarts += 1
        if restarts > 50:
            break
    return out, crashes, False


def compile_batch(lines, prelude, compiler, std, suffix):
    """-fsyntax-only over one function per line; returns {case index: message}"""
    d = tempfile.mkdtemp(prefix="c19-")
    try:
        src = os.path.join(d, "batch" + suffix)
        npre = prelude.count("\n")
        with open(src, "w") as f:
            f.write(prelude)
            for k, l in lines:
                f.write(l + "\n")
        p = subprocess.run([compiler, std, "-fsyntax-only", "-w", "-fmax-errors=0", src],
                           stdout=subprocess.PIPE, stderr=subprocess.PIPE, text=True, errors="replace", timeout=900)
        bad = {}
        if p.returncode != 0:
            import re
            for m in re.finditer(r"batch%s:(\d+):\d+: (?:fatal )?error: (.*)" % re.escape(suffix), p.stderr):
                ln = int(m.group(1)) - npre - 1
                if 0 <= ln < len(lines):
                    bad.setdefault(lines[ln][0], m.group(2)[:200])
            if not bad:
                bad[-1] = p.stderr[-500:]
        return bad
    finally:
        shutil.rmtree(d, ignore_errors=True)


PY_CHECKER = r"""
import sys
for line in sys.stdin:
    k, h = line.split()
    t = bytes.fromhex(h if h != '-' else '').decode('latin-1')
    try:
        compile(t, '<c19>', 'eval')
        print(k, 'OK')
    except SyntaxError as e:
        print(k, 'ERR', str(e).replace('\n', ' ')[:150])
    except Exception as e:
        print(k, 'ERR', type(e).__name__)
"""


def python_batch(items):
    """items: [(k, bytes)] -> {k: message}"""
    inp = "".join("%d %s\n" % (k, t.hex() or "-") for k, t in items)
    p = subprocess.run([sys.executable, "-c", PY_CHECKER], input=inp, stdout=subprocess.PIPE,
                       stderr=subprocess.PIPE, text=True, timeout=600)
    bad = {}
    for l in p.stdout.splitlines():
        w = l.split(None, 2)
        if len(w) >= 2 and w[1] != "OK":
            bad[int(w[0])] = w[2] if len(w) > 2 else "error"
    return bad


def exec_batch(cases):
    """cases: [(k, case, c text)] -> {k: [hex bits per vector]} by compiling and running the C text"""
    d = tempfile.mkdtemp(prefix="c19x-")
    try:
        src = os.path.join(d, "exec.c")
        with open(src, "w") as f:
            f.write("#define _POSIX_C_SOURCE 200809L\n#include <stdio.h>\n#include <stdint.h>\n#include <signal.h>\n#include <setjmp.h>\n" + L.C_PRELUDE)
            f.write("static sigjmp_buf JB; static void on_fpe(int s) { (void)s; siglongjmp(JB, 1); }\n")
            f.write("static double D(uint64_t u) { double d; memcpy(&d, &u, 8); return d; }\n")
            f.write("static void P(int k, double d) { uint64_t u; memcpy(&u, &d, 8); printf(\"%d %016llx\\n\", k, (unsigned long long)u); }\n")
            for k, c, text in cases:
                f.write(L.c_function(c, k, text) + "\n")
            f.write("int main(void) {\n  struct sigaction sa; memset(&sa, 0, sizeof sa); sa.sa_handler = on_fpe; "
                    "sigemptyset(&sa.sa_mask); sigaction(SIGFPE, &sa, 0);\n")
            for k, c, text in cases:
                for v in c.vectors:
                    # an integer division by zero in the text traps: reported as TRAP, the run goes on
                    f.write("  if (sigsetjmp(JB, 1) == 0) P(%d, f%d(%s)); else printf(\"%d TRAP\\n\");\n"
                            % (k, k, ", ".join("D(0x%016xULL)" % b for b in v), k))
            f.write("  return 0;\n}\n")
        exe = os.path.join(d, "exec")
        p = subprocess.run(["gcc", "-std=c11", "-O0", "-w", src, "-lm", "-o", exe],
                           stdout=subprocess.PIPE, stderr=subprocess.PIPE, text=True, timeout=900)
        if p.returncode != 0:
            return None, p.stderr[-800:]
        p = subprocess.run([exe], stdout=subprocess.PIPE, stderr=subprocess.PIPE, text=True, timeout=300)
        out = {}
        for l in p.stdout.splitlines():
            w = l.split()
            if len(w) == 2:
                out.setdefault(int(w[0]), []).append(w[1])
        if p.returncode != 0:
            # the compiled text itself crashed (e.g. strlen of a non-string): report the first function without output
            missing = [k for k, c, t in cases if len(out.get(k, [])) < len(c.vectors)]
            return None, "the executable built from the C texts died with status %d at function f%s" % (
                p.returncode, missing[0] if missing else "?")
        return out, ""
    finally:
        shutil.rmtree(d, ignore_errors=True)


PY_EXEC = r"""
import sys, json, struct, math
from math import *
env0 = dict((k, v) for k, v in vars(math).items() if not k.startswith('_'))
env0.update({'math': math, 'abs': abs, 'len': len, 'max': max, 'min': min, 'True': True, 'False': False})
for line in sys.stdin:
    o = json.loads(line)
    out = []
    for vec in o['vecs']:
        env = dict(env0)
        for n, b in zip(o['names'], vec):
            env[n] = struct.unpack('<d', struct.pack('<Q', b))[0]
        try:
            v = eval(o['t'], {'__builtins__': {}}, env)
            out.append('%016x' % struct.unpack('<Q', struct.pack('<d', float(v)))[0])
        except (ZeroDivisionError, OverflowError, ValueError) as e:
            out.append('EXC')
        except Exception as e:
            out.append('ERR:' + type(e).__name__)
    print(o['k'], ' '.join(out))
"""

# Python operators whose meaning differs from the interpreter's by construction (not part of the
# property, which speaks of the C text): % (sign of the divisor), // (floor of the exact quotient),
# isclose / 1e-10 (other tolerances), chained b <= a <= c (no fmin / fmax of the bounds)
PY_DIVERGENT = {"real_mod", "real_idiv", "real_ife", "real_ifz", "real_ifb"}


def python_exec_batch(items):
    """items: [(k, case, python text)] -> {k: [hex bits | EXC | ERR:..]}"""
    import json as js
    lines = []
    for k, c, t in items:
        names = []
        for s in c.syms:
            if s["k"] == "V" and s["name"].decode("latin-1") not in names:
                names.append(s["name"].decode("latin-1"))
        lines.append(js.dumps({"k": k, "t": t, "names": names, "vecs": c.vectors}))
    p = subprocess.run([sys.executable, "-c", PY_EXEC], input="\n".join(lines) + "\n", stdout=subprocess.PIPE,
                       stderr=subprocess.PIPE, text=True, timeout=600)
    out = {}
    for l in p.stdout.splitlines():
        w = l.split()
        if w:
            out[int(w[0])] = w[1:]
    return out


UNCOMPILABLE = ("not-an-expression", "rejected-by-compiler", "template-unreadable")


def close_enough(a_bits, b_bits):
    a, b = L.dbl_of(a_bits), L.dbl_of(b_bits)
    if a_bits == b_bits or a == b:
        return True
    if a != a or b != b:
        return False
    return abs(a - b) <= 1e-9 * max(1.0, abs(a), abs(b))


def build_tree():
    """library + harness from the current tree.  Built in a cache directory of
    this check (.build/c19): the shared snapshot cache keeps three trees only and
    concurrently running checks of other worktrees evict each other's snapshot
    between the library and the harness build."""
    shared = vv.BUILD
    vv.BUILD = os.path.join(shared, "c19")
    try:
        Lb = vv.build_lib("asan")
        harness = vv.build_harness("h_lang")
    finally:
        vv.BUILD = shared
    return Lb, harness


def run(ck):
    import faulthandler
    # diagnostic only: where the check is if it is still running after 5 minutes
    faulthandler.dump_traceback_later(300, exit=False, file=sys.stderr)
    try:
        return run_(ck)
    finally:
        faulthandler.cancel_dump_traceback_later()


def run_(ck):
    import time
    tm = {"t": time.time()}

    def lap(what):
        now = time.time()
        ck.coverage.setdefault("phase_s", {})[what] = round(now - tm["t"], 1)
        tm["t"] = now
    Lb, harness = build_tree()
    lap("build lib+harness")
    infos, problems, regenerated = regen_templates(Lb["snap"])
    ck.tie = "regenerated+correspondence" if regenerated else "correspondence"
    if problems:
        ck.notes.append("translator: " + "; ".join(problems)[:600] +
                        " -- Gen/Templates.v kept as hand-written model, tie = correspondence only")
    order = [i["ident"] for i in infos] if regenerated else checked_in_order()
    class_index = {n: i for i, n in enumerate(order)}

    res = vv.prove("Properties_C19", vv.FLOCQ_AXIOMS)
    ck.add_proof(res)
    if ck.thorough:
        # witnesses of the findings on the pinned tree (statements about the pinned texts)
        ck.add_proof(vv.prove("Refuted_C19", vv.FLOCQ_AXIOMS))
    ck.trusted += ["translate/templates.py (display() switch -> template table) and translate/cxx_mini.py tokenizer",
                   "extraction: ExtrOcamlBasic only; ocaml/lang_driver.ml + zutil.ml",
                   "harness/h_lang.cc (hex printing of the streams); g++ 12 ASan/UBSan",
                   "gen/c19_lang.py: the oracle's lexer/parser and its C / Python precedence tables",
                   "gcc 12 -std=c11, g++ 12 -std=c++17, CPython compile() as judges of validity; glibc libm in the executed C text"]
    ck.assumptions += [
        "terminal texts are placeholder-free (no \"%%\", no trailing '%'): hypothesis good_tree of the theorems; the "
        "malformed stream exercises its negation (model and implementation still agree byte for byte)",
        "std::to_string(double) is printf(\"%f\") of glibc: exact value rounded half-even to six decimals "
        "(to_string_f64; NaN not modelled); exercised by the correspondence on boundary doubles",
        "MQL has no compiler here: the MQL text is judged by the oracle parser with the C precedences only",
    ]

    lap("coq prove")
    model = vv.ocaml_model("Lang")
    lap("extract + ocaml")
    catalog = L.Catalog(infos)
    try:
        catalog.escapes = tpl.string_escapes(Lb["snap"])
    except (tpl.OutsideSubset, OSError):
        catalog.escapes = False
    missing = [i for i in L.TYPED if i not in catalog.infos]
    if missing:
        ck.notes.append("classes no longer present in the headers: %s" % missing)

    # ------------------------------------------------------------- cases
    if ck.replay_path:
        rp = json.load(open(ck.replay_path))
        cs = rp.get("cases") or ([rp["case"]] if "case" in rp else [])
        cases = [L.Case.from_json(c) for c in cs]
    else:
        g = L.Gen(ck.rng, catalog)
        cases = []
        cases += g.pair_cases()
        cases += g.untyped_pair_cases()
        cases += g.string_cases()
        cases += g.intlit_cases()
        cases += g.pytable_cases()
        cases += g.threshold_cases()
        cases += g.rowshare_cases(3000 if ck.thorough else 500, depth=6 if ck.thorough else 4)
        rc_ = g.random_cases(6000 if ck.thorough else 600, depth=6 if ck.thorough else 4)
        for i, c in enumerate(rc_):
            if i % 2:
                c.compact_rows()
        cases += rc_
        cases += g.user_cases(300 if ck.thorough else 60)
        cases += g.malformed_cases()
        cases += g.quote_cases()
        cases += g.exec_cases(3000 if ck.thorough else 400, depth=5 if ck.thorough else 4)
    cases = [c for c in cases if all(s.get("ident", "real_add") in catalog.infos for s in c.syms)]
    # process-history stream: the same sequence of build / export / destroy tasks twice, once for the sanitised
    # harness without quarantine and once for an unsanitised build (the production allocator); both reuse the
    # addresses of destroyed symbols
    if not ck.replay_path:
        life = L.Gen(ck.rng, catalog).lifecycle_cases(20 if ck.thorough else 6)
        import copy
        life2 = copy.deepcopy(life)
        for c in life2:
            c.tag = "lifecycle-plain"
        cases = cases + life + life2

    hl = [c.harness_line() for c in cases]
    ml = [c.model_line(class_index) for c in cases]
    # harness and extracted model run in parallel on interleaved slices (slice i = lines i, i+n, ...), so
    # that every stream progresses evenly; the harness has a time budget: a tree that prints very slowly
    # must not hide the cases that follow -- unanswered cases are skipped and counted, never an alarm
    budget = 600 if ck.thorough else 75
    # the lifecycle cases run apart, in order, in ONE process each
    seq_a = [k for k, c in enumerate(cases) if c.tag == "lifecycle"]
    seq_p = [k for k, c in enumerate(cases) if c.tag == "lifecycle-plain"]
    rest = [k for k, c in enumerate(cases) if not c.tag.startswith("lifecycle")]
    env_nq = vv.san_env()
    env_nq["ASAN_OPTIONS"] += ":quarantine_size_mb=0:thread_local_quarantine_size_kb=0"
    life_out = {}
    if seq_a:
        o, cr, to = run_slice(harness, [hl[k] for k in seq_a], budget, env_nq)
        for k, l in zip(seq_a, o):
            life_out[k] = l
    if seq_p:
        shared = vv.BUILD
        vv.BUILD = os.path.join(shared, "c19")
        try:
            plain = vv.build_harness("h_lang", san="plain")
        finally:
            vv.BUILD = shared
        o, cr, to = run_slice(plain, [hl[k] for k in seq_p], budget)
        for k, l in zip(seq_p, o):
            life_out[k] = l
    hl_all, ml_all, cases_all = hl, ml, cases
    hl = [hl_all[k] for k in rest]
    ml_rest = [ml_all[k] for k in rest]
    nsl = max(1, min(8, len(ml_all) // 200))
    with concurrent.futures.ThreadPoolExecutor(2 * nsl) as ex:
        fh = [ex.submit(run_slice, harness, hl[i::nsl], budget) for i in range(nsl)]
        fm = [ex.submit(vv.run_lines, model, "\n".join(ml[i::nsl]) + "\n") for i in range(nsl)]
        hout = [None] * len(cases)
        mout = [None] * len(cases)
        crashes = {}
        timed_out = False
        for i, fut in enumerate(fh):
            o, cr, to = fut.result()
            timed_out = timed_out or to
            for j, l in enumerate(o):
                hout[rest[i + j * nsl]] = l
            for j, e in cr.items():
                crashes[rest[i + j * nsl]] = e
        for i, fut in enumerate(fm):
            rc, o, merr = fut.result()
            if rc != 0 or len(o) != len(ml[i::nsl]):
                raise vv.BuildError("model driver failed: rc=%s answered %d of %d: %s" % (rc, len(o), len(ml[i::nsl]), merr[:500]))
            for j, l in enumerate(o):
                mout[i + j * nsl] = l
    for k, l in life_out.items():
        hout[k] = l
    hl = hl_all
    skipped = len([1 for x in hout if x is None])
    if skipped:
        ck.notes.append("the harness did not answer %d of %d cases within its %d s budget (printing is much slower "
                        "than on the reference tree); those cases were skipped" % (skipped, len(cases), budget))
    ck.coverage["cases_not_answered_in_time"] = skipped
    lap("generate + run harness and model")
    failures = []     # (fmt, kind, case index, message)
    reader_bad = []
    flag_hist = {}
    impl = []
    hist = {}
    pairs = set()
    for k, c in enumerate(cases):
        ho = hout[k]
        if ho is None:
            impl.append(None)
            continue
        ck.count()
        hist[c.tag] = hist.get(c.tag, 0) + 1
        if ho.startswith("CRASH"):
            impl.append(None)
            ck.add_violation("print:undefined-behaviour", "printing the individual aborts under the sanitizers",
                             {"case": c.to_json(), "impl": ho, "sanitizer": crashes.get(k, "")[-1500:]})
            continue
        ht, hv = parse_out(ho)
        mt, mflags = parse_out(mout[k])
        impl.append((ht, hv))
        if ht is None:
            ck.add_diff({"case": c.to_json()}, mout[k], ho, "harness did not print the four texts")
            continue
        ids = c.idents()
        for a in range(len(c.genes)):
            for b in c.genes[a][2]:
                pairs.add((c.syms[c.genes[a][0]].get("ident", c.syms[c.genes[a][0]]["k"]),
                           c.syms[c.genes[b][0]].get("ident", c.syms[c.genes[b][0]]["k"])))
        ck.nontriv(("%s|%s" % (c.tag, "/".join(ids)))[:200] + "|" + (ht["c"] or b"").decode("latin-1")[:80])
        if k % (len(cases) // 5 + 1) == 0:
            ck.sample({"tag": c.tag, "symbols": ids[:12],
                       "impl": {f: ht[f].decode("latin-1") for f in FMTS},
                       "model_equal": bool(mt) and all(mt[f] == ht[f] for f in FMTS)})
        # correspondence: byte equality in the four formats
        if mt is None or any(mt[f] != ht[f] for f in FMTS):
            ck.add_diff({"case": c.to_json()}, mout[k], ho)
        # the extracted lexer + parser of the Coq development read the (identical) text as the
        # program's expression: the executed part of the printer/parser round trip (C19_parse_pp_partial)
        if mt is not None and all(mt[f] == ht[f] for f in FMTS) and c.wellformed:
            for j, f in enumerate(FMTS):
                fl = mflags[j] if isinstance(mflags, str) and len(mflags) == 4 else "?"
                flag_hist[fl] = flag_hist.get(fl, 0) + 1
                if fl == "x":
                    reader_bad.append((f, k))
        # oracle (a): the text denotes the program's expression
        if c.wellformed and c.tag != "user":
            for f in FMTS:
                try:
                    want = L.expected_ast(c, f, catalog)
                except L.ParseError as e:
                    # a template or terminal the oracle cannot read
                    failures.append((f, "template-unreadable", k, str(e)))
                    continue
                try:
                    got = L.parse_text(ht[f].decode("latin-1"), f)
                except L.ParseError as e:
                    failures.append((f, "not-an-expression", k, str(e)))
                    continue
                if f != "py":
                    ints = L.integer_literals_for_reals(c, f, catalog)
                    if ints:
                        failures.append((f, "real-constant-printed-as-integer-literal", k,
                                         "the real-valued constant(s) %s are integer literals in %s: arithmetic on them is "
                                         "integer arithmetic (7/2 is 3)" % (", ".join(sorted(set(ints))[:4]), f)))
                if L.norm_ast(got, f) != L.norm_ast(want, f):
                    failures.append((f, "denotes-another-expression", k,
                                     "reads as %s, the program is %s" % (L.show_ast(got)[:300], L.show_ast(want)[:300])))

    lap("compare + oracle parser")
    # oracle (b): the compilers
    # (cases aimed at the unescaped-quote finding would unbalance the whole batch file: they are judged by the
    # oracle parser and by CPython only)
    typed = [(k, c) for k, c in enumerate(cases) if c.typed and c.wellformed and (not c.known_key or catalog.escapes)
             and impl[k] and impl[k][0]]
    with concurrent.futures.ThreadPoolExecutor(3) as ex:
        fc = ex.submit(compile_batch, [(k, L.c_function(c, k, impl[k][0]["c"].decode("latin-1"))) for k, c in typed],
                       L.C_PRELUDE, "gcc", "-std=c11", ".c")
        fcpp = ex.submit(compile_batch,
                         [(k, L.c_function(c, k, impl[k][0]["cpp"].decode("latin-1"), cpp=True)) for k, c in typed],
                         L.CPP_PRELUDE, "g++", "-std=c++17", ".cc")
        fpy = ex.submit(python_batch, [(k, impl[k][0]["py"]) for k, c in enumerate(cases)
                                       if c.wellformed and c.tag != "user" and impl[k] and impl[k][0]])
        for f, fut in (("c", fc), ("cpp", fcpp), ("py", fpy)):
            bad = fut.result()
            for k, msg in bad.items():
                if k == -1:
                    ck.add_unshown("oracle", "%s compiler" % f, "batch failed without a located error: %s" % msg)
                else:
                    failures.append((f, "rejected-by-compiler", k, msg))
    ck.coverage["compiled_c"] = len(typed)
    ck.coverage["compiled_python"] = len([1 for c in cases if c.wellformed and c.tag != "user"])

    lap("compilers")
    # oracle (c): execution of the C text against the interpreter
    ex_cases = [(k, c, impl[k][0]["c"].decode("latin-1")) for k, c in enumerate(cases)
                if c.vectors is not None and impl[k] and impl[k][0]
                and not any(fl[2] == k and fl[0] == "c" and fl[1] in UNCOMPILABLE for fl in failures)]
    executed = 0
    if ex_cases:
        out, err = exec_batch(ex_cases)
        if out is None:
            vv.log("execution leg:", err)
            ck.add_unshown("oracle", "execution", "the batch of C functions does not compile: %s" % err)
        else:
            for k, c, text in ex_cases:
                vals = impl[k][1]
                got = out.get(k, [])
                for j, v in enumerate(vals):
                    if not v.startswith("d:") or j >= len(got):
                        continue          # the interpreter yields no value (or not a real) on this input
                    executed += 1
                    if got[j] == "TRAP":
                        failures.append(("c", "computes-another-value", k,
                                         "on input %s the interpreter returns %r, the compiled C text traps (SIGFPE: "
                                         "integer division by zero)" % ([L.dbl_of(b) for b in c.vectors[j]],
                                                                        L.dbl_of(int(v[2:], 16)))))
                        break
                    if not close_enough(int(v[2:], 16), int(got[j], 16)):
                        failures.append(("c", "computes-another-value", k,
                                         "on input %s the interpreter returns %r, the compiled C text %r"
                                         % ([L.dbl_of(b) for b in c.vectors[j]], L.dbl_of(int(v[2:], 16)),
                                            L.dbl_of(int(got[j], 16)))))
                        break
    ck.coverage["executed_c_evaluations"] = executed

    # the Python text evaluated by CPython (math functions), for the programs on which Python's operators
    # mean what the interpreter computes
    py_cases = [(k, c, impl[k][0]["py"].decode("latin-1")) for k, c in enumerate(cases)
                if c.vectors is not None and impl[k] and impl[k][0]
                and not (set(c.idents()) & PY_DIVERGENT)
                and not any(fl[2] == k and fl[0] == "py" for fl in failures)]
    py_executed = py_raised = 0
    if py_cases:
        pout = python_exec_batch(py_cases)
        for k, c, text in py_cases:
            vals = impl[k][1]
            got = pout.get(k, [])
            for j, v in enumerate(vals):
                if not v.startswith("d:") or j >= len(got):
                    continue
                if got[j] == "EXC":
                    py_raised += 1        # Python raises where C yields inf / nan (e.g. math.exp overflow)
                    continue
                if got[j].startswith("ERR"):
                    failures.append(("py", "cannot-be-evaluated", k, "eval of the Python text raises %s" % got[j][4:]))
                    break
                py_executed += 1
                if not close_enough(int(v[2:], 16), int(got[j], 16)):
                    failures.append(("py", "computes-another-value", k,
                                     "on input %s the interpreter returns %r, the Python text %r"
                                     % ([L.dbl_of(b) for b in c.vectors[j]], L.dbl_of(int(v[2:], 16)),
                                        L.dbl_of(int(got[j], 16)))))
                    break
    # the documented differences between the Python templates and the interpreter: observed, not judged
    table_cases = [(k, c, impl[k][0]["py"].decode("latin-1")) for k, c in enumerate(cases)
                   if c.expect and impl[k] and impl[k][0]]
    pytable = []
    if table_cases:
        pout = python_exec_batch(table_cases)
        for k, c, text in table_cases:
            vals, got = impl[k][1], pout.get(k, [])
            if not vals or not got or not vals[0].startswith("d:") or len(got[0]) != 16:
                rel = "not-evaluated"
            else:
                rel = "agrees" if close_enough(int(vals[0][2:], 16), int(got[0], 16)) else "differs"
            row = {"template": c.expect[0], "python_text": text, "input": [L.dbl_of(b) for b in c.vectors[0]],
                   "interpreter": L.dbl_of(int(vals[0][2:], 16)) if vals and vals[0].startswith("d:") else None,
                   "python": L.dbl_of(int(got[0], 16)) if got and len(got[0]) == 16 else None,
                   "documented": c.expect[1], "observed": rel, "why": c.expect[2]}
            pytable.append(row)
            if rel != c.expect[1]:
                ck.notes.append("Python template of %s: documented as '%s' on %s, observed '%s'"
                                % (c.expect[0], c.expect[1], row["input"], rel))
    ck.coverage["python_templates_vs_interpreter"] = pytable

    # MQL cannot be executed here: beyond the oracle parser (C grammar), the MQL text must be the C text
    # modulo the function-name table regenerated from the templates (for the classes whose two templates
    # have the same shape)
    mql_table, mql_different = L.mql_name_table(catalog)
    mql_checked = mql_skipped = 0
    for k, c in enumerate(cases):
        if not (impl[k] and impl[k][0]) or not c.wellformed or c.tag == "user" or c.known_key:
            continue
        if set(c.idents()) & set(mql_different):
            mql_skipped += 1
            continue
        try:
            a = L.rename_ids(L.parse_text(impl[k][0]["c"].decode("latin-1"), "c"), mql_table)
            b = L.parse_text(impl[k][0]["mql"].decode("latin-1"), "mql")
        except L.ParseError:
            continue        # already reported by oracle (a)
        mql_checked += 1
        if L.norm_ast(a, "py") != L.norm_ast(b, "py"):
            failures.append(("mql", "differs-from-the-c-text", k,
                             "modulo the function names %s the MQL text reads as %s, the C text as %s"
                             % (sorted(mql_table.items())[:6], L.show_ast(b)[:200], L.show_ast(a)[:200])))
    ck.coverage["mql_vs_c"] = {"name_table": mql_table, "templates_of_another_shape": mql_different,
                               "texts_compared": mql_checked, "skipped": mql_skipped}
    ck.coverage["executed_python_evaluations"] = py_executed
    ck.coverage["python_raised_where_c_is_inf_or_nan"] = py_raised

    lap("execution")
    # texts the extracted reader does not read as the program's expression: a violation if the
    # independent oracle agrees (then it is in `failures`), otherwise the model's parser is at fault
    flagged = {(f, k) for f, kind, k, msg in failures}
    for f, k in reader_bad:
        if (f, k) not in flagged:
            ck.add_diff({"case": cases[k].to_json(), "format": f}, "read(text) <> ast", impl[k][0][f].decode("latin-1"),
                        "the extracted lexer/parser does not read the printed text as the program's expression")
    ck.coverage["extracted_reader"] = {"read_equals_ast": flag_hist.get("y", 0), "differs": flag_hist.get("x", 0),
                                       "outside_hypotheses": flag_hist.get("n", 0)}

    # report the smallest failing program of each (format, kind)
    best = {}
    for f, kind, k, msg in failures:
        if cases[k].known_key:
            # a case built to exhibit a recorded known finding: reported under that key
            ck.add_violation(cases[k].known_key,
                             "the %s text %r %s: %s" % (f, impl[k][0][f].decode("latin-1"), kind, msg),
                             {"case": cases[k].to_json(), "format": f, "impl_text": impl[k][0][f].decode("latin-1"),
                              "verdict": msg})
            continue
        key = (f, kind)
        if key not in best or len(cases[k].genes) < len(cases[best[key][0]].genes):
            best[key] = (k, msg)
    for (f, kind), (k, msg) in sorted(best.items()):
        c = cases[k]
        ids = c.idents()
        text = impl[k][0][f].decode("latin-1") if impl[k] and impl[k][0] else None
        hist = {}
        if c.tag.startswith("lifecycle"):
            # the failure depends on the tasks run before in the same process: the replay is the whole sequence
            seq = [j for j, x in enumerate(cases) if x.tag == c.tag and j <= k]
            hist = {"cases": [cases[j].to_json() for j in seq],
                    "history_note": "sequence of build / export / destroy tasks of one process (%s); the last one fails"
                                    % ("sanitised harness without quarantine" if c.tag == "lifecycle" else "unsanitised build")}
        ck.add_violation("%s:%s:%s" % (f, kind, "/".join(ids[:6])),
                         "the %s text %r printed for %s %s%s: %s" % (f, text, "/".join(ids[:8]), kind,
                                                                   " (after a history of %d tasks in the same process)"
                                                                   % (len(hist["cases"]) - 1) if hist else "", msg),
                         {**hist, "case": c.to_json(), "format": f, "impl_text": text,
                          "all_formats": {x: impl[k][0][x].decode("latin-1") for x in FMTS} if impl[k] and impl[k][0] else None,
                          "verdict": msg, "failing_cases_of_this_kind": len([1 for x in failures if x[0] == f and x[1] == kind])})
    ck.coverage["per_stream"] = hist
    ck.coverage["parent_child_pairs"] = len(pairs)
    return ck.finish(
        rule="streams: every typed (parent instance, argument, child instance) triple; every untyped parent x argument x "
             "child class; every string-taking argument x strings of regex / format / placeholder look-alikes ($1 $& $$ "
             "% ' ` digits); multi-category genomes whose active tree reaches the same row in two categories with heavy "
             "sharing (genes placed by row in the private matrix); seeded random typed genomes (shared sub-expressions, negative / fractional / boundary "
             "constants, nested conditionals, strings); base-class displays with up to 12 arguments; terminals "
             "containing placeholders (malformed); real-valued programs with exactly printable constants and 4 input "
             "vectors each.  non-trivial = distinct (symbols along the active tree, printed C text)")
