"""Shared by C11 and C12 (serialisation): harness / model plumbing, case
generation, stream damage, replays."""
import json
import os
import re
import subprocess
import sys
import time

import vv
import prims_common as pc

TYPES = ["H", "F", "MEP", "GA", "DE", "TEAM", "POPMEP", "POPGA", "POPDE", "POPTEAM",
         "SUMMEP", "SUMGA", "SUMDE", "DIST", "MAT"]
USES_SSET = {"MEP", "TEAM", "POPMEP", "POPTEAM", "SUMMEP"}

TRUSTED = ["extraction: ExtrOcamlBasic only, no Extract Constant; ocaml/serial_driver.ml + zutil.ml "
           "(dump parsing; the oracles show17 = printf %.16e and read_f = libstdc++ num_get scan + strtod)",
           "harness/h_serial.cc: object histories, canonical dumps (private members read via #define private public)",
           "g++ 12 ASan/UBSan as the detector of out-of-bounds accesses in load()"]
ASSUMPTIONS = ["float_text_ok show17 read_f (hypothesis of the C11 theorems that involve doubles; H_17digits of DESIGN 3): "
               "for every finite double x, show17 x is non-empty, contains no white space, and "
               "read_f (pre ++ show17 x ++ rest) = Some (x, rest) for every white-space prefix and every rest that is empty "
               "or starts with white space (glibc printf %.16e / strtod round trip); blank_fails read_f (fitness, summary): "
               "operator>> fails on a stream of blanks; both proved satisfiable (C11_float_hypotheses_satisfiable) and "
               "exercised by the correspondence on extreme doubles",
               "memory allocation is not modelled (a damaged size field large enough to make an allocation fail is "
               "outside the model)"]


sys.path.insert(0, os.path.join(vv.VERIF, "gen"))
import serial_order

STATE = {"dist_refuses": 0, "elapsed_width": 32, "order_problems": [], "regenerated": False}


def regen_order(snap):
    """coq/Gen/SerialOrder.v from the snapshot of the sources; on a translator problem the
    checked-in file is kept (tie = correspondence only for the field order)"""
    problems, text = serial_order.generate(snap)
    STATE["order_problems"] = problems
    STATE["regenerated"] = not problems
    if not problems:
        with vv.Lock("coq"):
            vv.write_if_changed(os.path.join(vv.COQ, "Gen", "SerialOrder.v"), text)
    try:
        with open(os.path.join(snap, "kernel", "evolution_summary.tcc")) as f:
            STATE["elapsed_width"] = 32 if "int ms;" in f.read() else 64
        body = serial_order.body_of(serial_order.strip_comments(open(os.path.join(snap, "kernel", "distribution.tcc")).read()),
                                    r"bool\s+distribution<T>::save\s*\(") or ""
        STATE["dist_refuses"] = 1 if re.search(r"isfinite\(m2_\)", body) and "return false" in body else 0
    except OSError:
        pass


def build(ck=None):
    # other checks running at the same time may garbage-collect the source
    # snapshot between its creation and the compilation (vv._gc keeps 3): a
    # missing snapshot file is retried, any other build error is final
    for attempt in range(4):
        try:
            L = vv.build_lib("asan")
            regen_order(L["snap"])
            harness = vv.build_harness("h_serial")
            break
        except vv.BuildError as e:
            if attempt == 3 or "No such file or directory" not in str(e) or "/.build/src-" not in str(e) and "kernel/vita.h" not in str(e):
                raise
            time.sleep(1 + attempt)
    model = vv.ocaml_model("Serial")
    if ck is not None:
        if STATE["regenerated"]:
            ck.tie = "regenerated+correspondence"
        else:
            ck.notes.append("translator gen/serial_order.py: " + "; ".join(STATE["order_problems"])[:400]
                            + " -- checked-in Gen/SerialOrder.v kept, field order tied by correspondence only")
        ck.trusted.append("gen/serial_order.py (operands of the out << / in >> chains of each save()/load() -> Gen/SerialOrder.v)")
    return harness, model


def sset_lines(harness):
    """SSET lines for the model, taken from the real symbol sets"""
    out, crashes = pc.run_harness_resilient(harness, ["SSET %d" % k for k in range(4)])
    if crashes or any(o is None for o in out):
        raise vv.BuildError("harness cannot print the symbol sets: %s" % list(crashes.values())[:1])
    # 0,1: the problems the objects are built with; 2,3: the second, distinct problem objects
    return ["SSET %d %s" % (k, out[k]) for k in range(4)] + ["ELW %d" % STATE["elapsed_width"], "DSR %d" % STATE["dist_refuses"]]


def run_model(model, sset, lines):
    """lines: list of (prob, text); returns outputs aligned with lines"""
    txt = list(sset)
    cur = None
    for k, l in lines:
        if k != cur:
            txt.append("USE %d" % k)
            cur = k
        txt.append(l)
    rc, out, err = vv.run_lines(model, "\n".join(txt) + "\n")
    if rc != 0 or len(out) != len(lines):
        raise vv.BuildError("model driver failed: rc=%s got %d of %d lines %s" % (rc, len(out), len(lines), err[:500]))
    return out


def fields(line):
    if line is None:
        return None
    return [f.strip() for f in line.split(" | ")]


def gen_objects(ck, per_type):
    """(type, prob, seed, steps) quadruples"""
    rnd = ck.rng
    cases = []
    for t in TYPES:
        for j in range(per_type):
            k = rnd.randint(0, 1) if t in USES_SSET else 0
            steps = [0, 1, 3, 8, 20][j % 5] if j < 5 else rnd.randint(0, 30)
            cases.append((t, k, rnd.randint(1, 2**31 - 1), steps))
    return cases


def tokens_with_pos(data):
    """[(start, end)] of the white-space separated tokens of a byte string"""
    out = []
    i = 0
    n = len(data)
    while i < n:
        while i < n and data[i:i + 1].isspace():
            i += 1
        if i >= n:
            break
        j = i
        while j < n and not data[j:j + 1].isspace():
            j += 1
        out.append((i, j))
        i = j
    return out


def damage(ck, data, thorough):
    """damaged variants of a valid serialisation: [(kind, bytes)]"""
    rnd = ck.rng
    out = []
    toks = tokens_with_pos(data)
    cuts = set()
    if thorough:
        cuts = set(range(0, len(data)))
    else:
        for (a, b) in toks:
            for c in (a - 1, a, a + 1, b - 1, b, b + 1):
                if 0 <= c < len(data):
                    cuts.add(c)
        cuts.add(0)
        if len(cuts) > 70:
            keep = sorted(cuts)
            cuts = set(keep[:12] + keep[-12:] + rnd.sample(keep[12:-12], 46))
    for c in sorted(cuts):
        out.append(("prefix:%d" % c, data[:c]))
    idx = list(range(len(toks)))
    if not thorough and len(idx) > 24:
        idx = sorted(idx[:6] + idx[-6:] + rnd.sample(idx[6:-6], 12))
    for i in idx:
        a, b = toks[i]
        tok = data[a:b]
        # deletion
        out.append(("delete:%d" % i, data[:a] + data[b:]))
        # substitutions keeping the digit count
        subs = [b"x", b"-"]
        if tok.isdigit():
            subs.append(b"9" * len(tok))
            subs.append(b"0" * len(tok))
            subs.append(bytes([48 + (c - 48 + 1) % 10 for c in tok]))
        else:
            m = bytearray(tok)
            digs = [p for p, c in enumerate(m) if 48 <= c <= 57]
            if digs:
                p = rnd.choice(digs)
                m[p] = 48 + (m[p] - 48 + 1 + rnd.randint(0, 7)) % 10
                subs.append(bytes(m))
                m2 = bytearray(tok)
                m2[digs[-1]] = 57
                subs.append(bytes(m2))
            subs.append(tok.replace(b"e", b"", 1))
        for s in subs:
            if s != tok:
                out.append(("subst:%d:%s" % (i, s.decode("latin1")), data[:a] + s + data[b:]))
    return out


def hexs(b):
    return b.hex() if b else "-"


def unhex(h):
    return b"" if h == "-" else bytes.fromhex(h)


def run_harness_chunks(harness, lines, size=1500):
    """run_harness_resilient in chunks: a sanitizer abort restarts the harness on the rest of
    the chunk only (the lines are long; re-feeding the whole tail after every abort is quadratic)"""
    out, crashes = [], {}
    for a in range(0, len(lines), size):
        o, c = pc.run_harness_resilient(harness, lines[a:a + size])
        out += o
        for k, v in c.items():
            crashes[a + k] = v
    return out, crashes
