"""C02 -- Genetic operators only produce well-formed, well-typed individuals.

proof:  coq/Props/Properties_C02.v (+ Refuted_C02.v) about the operator model
        coq/Mep/OpsDefs.v (built on the shared Mep/Genome.v), randomness as an
        oracle draw stream (Mep/Draws.v).
tie:    correspondence: harness h_mep runs histories of the REAL operators
        under ASan/UBSan with hook H1 logging every random draw and H2
        reading/forcing the crossover flavour; the extracted model replays
        every operation (construction, mutation, the four crossovers,
        get_block, replace, destroy_block, cse, team liftings) from the logged
        draws and must produce the identical individual, cell by cell.
search: the extracted boolean predicates the theorems are stated with
        (ind_ok_b, crossover_ok_b, ind_same_b) evaluated on the
        implementation's own outputs; sanitizer reports.
"""
import json
import os
import struct
import sys

import vv
import prims_common as pc

FLAVOURS = ["one_point", "two_points", "tree", "uniform"]


def dhex(x):
    return "%016x" % struct.unpack(">Q", struct.pack(">d", x))[0]


# ------------------------------------------------------------------ generators
def gen_sset(rnd, ncats):
    """list of (cat, kind, weight, argcats); every category gets a terminal"""
    syms = []
    poor = rnd.random() < 0.5          # few symbols => equal genes are frequent (cse)
    for c in range(ncats):
        nt = 1 if poor else rnd.randint(1, 3)
        for _ in range(nt):
            kind = rnd.choice(["t", "t", "p", "q"]) if not poor else rnd.choice(["t", "t", "t", "p"])
            syms.append((c, kind, rnd.choice([1.0, 1.0, 2.0, 0.5]), []))
        nf = rnd.randint(0, 2) if poor else rnd.randint(0, 3)
        if ncats > 1 and c == 0 and nf == 0:
            nf = 1
        for _ in range(nf):
            # gene::args keeps 4 indices inline (small_vector<_, 4>): arities 5 and 6 cross that boundary
            ar = rnd.choice([1, 2, 2, 2, 3, 4, 4, 5, 6])
            syms.append((c, "f", rnd.choice([1.0, 1.0, 2.0, 0.5]), [rnd.randrange(ncats) for _ in range(ar)]))
        if rnd.random() < 0.25:
            c0 = rnd.randrange(ncats)          # the shipped 5-argument primitive real::ifb (FIFB)
            syms.append((c, "b", 1.0, [c0, c0, c0, c, c]))
    rnd.shuffle(syms)
    return syms


def sset_tokens(ncats, syms):
    t = ["S", str(ncats), str(len(syms))]
    for c, k, w, ac in syms:
        t += [str(c), k, repr(w), str(len(ac))] + [str(a) for a in ac]
    return t


def gen_replace_gene(rnd, syms, R, patch, idx, cat):
    """a gene compatible with locus (idx, cat)"""
    cands = [i for i, s in enumerate(syms) if s[0] == cat and (s[1] not in "fb" or idx < R - patch)]
    if not cands:
        return None
    sid = rnd.choice(cands)
    c, k, w, ac = syms[sid]
    args = [rnd.randrange(idx + 1, R) for _ in ac]
    if k in "npq" and rnd.random() < 0.25:
        par = dhex(rnd.choice([0.0, -0.0]))          # +0.0 and -0.0: equal for operator<, different objects
    elif k == "n":
        par = dhex(rnd.uniform(1.0, 1.00003))
    else:
        par = dhex(float(rnd.randint(-50, 50)) if rnd.random() < 0.7 else rnd.uniform(-5, 5)) if k in "pq" else dhex(0.0)
    return [str(sid), par, str(len(args))] + [str(a) for a in args]


def gen_case(rnd, thorough, force=None):
    """returns (header tokens, sset tokens, list of op token lists, meta)"""
    force = force or {}
    team = force.get("team", rnd.random() < 0.2)
    ncats = force.get("ncats", rnd.choice([1, 1, 2, 2, 2, 3, 4]))
    r = rnd.random()
    if "rows" in force:
        R = force["rows"]
    elif r < 0.25:
        R = rnd.randint(2, 4)
    elif r < 0.8:
        R = rnd.randint(5, 16)
    else:
        R = rnd.randint(17, 40)
    patch = rnd.randint(1, min(4, R - 1))
    tsize = rnd.choice([1, 2, 3, 3, 4, 5, 6, 7]) if team else 1
    nslots = rnd.randint(2, 4)
    syms = gen_sset(rnd, ncats)
    nops = rnd.randint(1, 60 if not team else 25)
    if force.get("short"):
        nops = rnd.randint(1, 6)
    ops = [["N", str(k)] for k in range(nslots)]
    pgms = [0.0, 0.0, 1.0, 0.5, 0.1, 0.02]
    only = force.get("only")
    # the problem object can be reused with another code / patch length (op E): individuals of different sizes
    # live side by side and are mutated through a problem they were not created with
    R0, patch0 = R, patch
    size = {k: R for k in range(nslots)}
    maxpatch = patch
    vary = force.get("vary", (not only) and rnd.random() < 0.5)
    for _ in range(nops):
        k = rnd.randrange(nslots)
        kinds = ["M", "M", "X", "X", "X", "A", "N"] if team else \
                ["M", "M", "X", "X", "X", "B", "R", "D", "C", "C", "A", "N", "W", "W"]
        if vary:
            kinds = kinds + ["E", "E", "M"]
        op = rnd.choice(kinds) if not only else rnd.choice(only)
        Rk = size[k]
        if op == "E":
            smallest = min(size.values())
            R = rnd.choice([rnd.randint(2, 6), rnd.randint(2, 40), max(2, R - 1), min(40, R + 1), min(40, R + rnd.randint(1, 8))])
            patch = rnd.randint(1, max(1, min(4, R - 1, smallest - 1)))
            maxpatch = max(maxpatch, patch)
            ops.append(["E", str(R), str(patch)])
            if rnd.random() < 0.6:
                ops.append(["N", str(k)])
                size[k] = R
        elif op == "M":
            p = rnd.choice(pgms) if rnd.random() < 0.8 else rnd.random()
            ops.append(["M", str(k), dhex(p)])
        elif op == "X":
            a = rnd.randrange(nslots)
            b = rnd.choice([x for x in range(nslots) if size[x] == size[a]])      # Expects(lhs.size() == rhs.size())
            if rnd.random() < 0.85:
                fl = force.get("flavour", rnd.randrange(4))
                ops.append(["F", str(a), str(fl)])
                ops.append(["F", str(b), str(fl)])
            ops.append(["X", str(a), str(b), str(k)])
            size[k] = size[a]
        elif op == "B":
            ops.append(["B", str(k), str(rnd.randrange(Rk)), str(rnd.randrange(ncats))])
        elif op == "R":
            idx, cat = rnd.randrange(Rk), rnd.randrange(ncats)
            if rnd.random() < 0.3:
                idx = rnd.randrange(max(0, Rk - maxpatch - 1), Rk)      # around the patch boundary
            g = gen_replace_gene(rnd, syms, Rk, maxpatch, idx, cat)
            if g:
                ops.append(["R", str(k), str(idx), str(cat)] + g)
        elif op == "D":
            ops.append(["D", str(k), str(rnd.randrange(Rk))])
        elif op == "C":
            ops.append(["C", str(k)])
        elif op == "A":
            ops.append(["A", str(k)])
        elif op == "W":
            ops.append(["W", str(k)])
        else:
            ops.append(["N", str(k)])
            size[k] = R
    R, patch = R0, patch0
    hdr = ["T" if team else "I", str(rnd.randrange(1, 2**31)), str(R), str(patch), str(tsize), str(nslots)]
    return {"hdr": hdr, "ncats": ncats, "syms": syms, "ops": ops}


def gen_near_case(rnd, thorough):
    """cse at the boundary between gene::operator== (parameters compared with a 1e-5 relative
    tolerance) and the exact order cse's std::map needs: several categories, strongly typed
    functions taking arguments of OTHER categories, and ephemeral constants drawn from
    [1, 1.00003) -- chains a~b, b~c, a!~c of nearly equal, distinct constants are everywhere.
    Many fresh individuals per history, each one (sometimes after a block extraction, a mutation
    or a crossover) put through cse()."""
    ncats = rnd.choice([2, 2, 3, 4])
    R = rnd.randint(20, 40)
    patch = rnd.randint(1, min(12, R - 8))
    syms = []
    for c in range(ncats):
        syms.append((c, "n", 1.0, []))
        if rnd.random() < 0.3:
            syms.append((c, "n", 1.0, []))
        others = [x for x in range(ncats) if x != c]
        # same-category function, and functions mixing in lower / other categories
        syms.append((c, "f", 1.0, [c] * rnd.choice([1, 2])))
        lower = [x for x in range(ncats) if x < c] or others
        syms.append((c, "f", rnd.choice([1.0, 2.0]), [rnd.choice(lower), c]))
        if rnd.random() < 0.5:
            syms.append((c, "f", 1.0, [rnd.choice(others), rnd.choice(others), c]))
    rnd.shuffle(syms)
    nslots = 3
    ops = [["N", str(k)] for k in range(nslots)]
    for _ in range(rnd.randint(20, 36) if not thorough else rnd.randint(30, 60)):
        k = rnd.randrange(nslots)
        ops.append(["N", str(k)])
        r = rnd.random()
        if r < 0.35:
            ops.append(["B", str(k), str(rnd.randrange(R // 2)), str(rnd.randrange(ncats))])
        elif r < 0.5:
            ops.append(["M", str(k), dhex(rnd.choice([0.1, 0.5]))])
        elif r < 0.6:
            a = rnd.randrange(nslots)
            ops.append(["X", str(a), str(k), str(k)])
        if rnd.random() < 0.4:
            # constants +0.0 / -0.0 / 1.0 planted by replace: cse must keep the signed zeros apart (std::memcmp)
            for _ in range(rnd.randint(2, 6)):
                cat = rnd.randrange(ncats)
                sid = rnd.choice([i for i, sy in enumerate(syms) if sy[0] == cat and sy[1] == "n"])
                ops.append(["R", str(k), str(rnd.randrange(R)), str(cat), str(sid),
                            dhex(rnd.choice([0.0, -0.0, 0.0, -0.0, 1.0])), "0"])
        ops.append(["C", str(k)])
        if rnd.random() < 0.3:
            ops.append(["W", str(k)])
        if rnd.random() < 0.3:
            ops.append(["C", str(k)])          # cse of a cse
    hdr = ["I", str(rnd.randrange(1, 2**31)), str(R), str(patch), "1", str(nslots)]
    return {"hdr": hdr, "ncats": ncats, "syms": syms, "ops": ops, "family": "near-equal-constants"}


def gen_long_case(rnd, thorough):
    """very long multi-category genomes (hundreds of rows, more than a thousand cells, mostly distinct genes)
    put through cse(), mutation and crossover: whatever bookkeeping an operator keeps per gene is exercised
    far beyond the sizes of the fixtures (32 rows) and of the default environment (100 rows)"""
    ncats = rnd.choice([3, 3, 4])
    R = rnd.randint(420, 560)
    patch = rnd.randint(1, 3)
    syms = []
    for c in range(ncats):
        # low categories: few plain terminals (equal genes on many rows); high ones: constants that are all different
        syms.append((c, "t", 1.0, []))                 # one plain terminal: equal genes on many rows
        syms.append((c, "f", 1.0, [c, c]))
        lower = [x for x in range(ncats) if x < c] or [c]
        syms.append((c, "f", 2.0, [rnd.choice(lower), c]))
        syms.append((c, "f", 2.0, [rnd.choice(lower), rnd.choice(lower), c]))
    rnd.shuffle(syms)
    nslots = 2
    ops = [["N", "0"], ["N", "1"], ["C", "0"], ["C", "1"]]
    for _ in range(1 if not thorough else rnd.randint(2, 4)):
        k = rnd.randrange(nslots)
        r = rnd.random()
        if r < 0.4:
            ops.append(["M", str(k), dhex(rnd.choice([0.05, 0.3]))])
        elif r < 0.7:
            fl = rnd.randrange(4)
            ops += [["F", "0", str(fl)], ["F", "1", str(fl)], ["X", "0", "1", str(k)]]
        else:
            ops.append(["N", str(k)])
        ops.append(["C", str(k)])
    ops.append(["W", str(rnd.randrange(nslots))])
    hdr = ["I", str(rnd.randrange(1, 2**31)), str(R), str(patch), "1", str(nslots)]
    return {"hdr": hdr, "ncats": ncats, "syms": syms, "ops": ops, "family": "long-genomes"}


def witness_case():
    """the individual of Props/Refuted_C02.v (C02_cse_pinned_comparator_wf_refuted), built cell by cell with
    replace and put through cse(): the pinned comparator prints [2,1] G 2 (its own row), the repaired one G 3"""
    syms = [(0, "f", 1.0, [0, 0]), (0, "p", 1.0, []), (1, "f", 1.0, [0]), (1, "t", 1.0, [])]
    rows = [(("p", 0), "t"), (("p", 1), "t"), (("F", 5, 8), ("G", 3)), (("F", 5, 8), "t"), (("F", 6, 7), "t"),
            (("p", 5), "t"), (("p", 6), "t"), (("p", 7), "t"), (("p", 8), "t")]
    ops = [["N", "0"]]
    for r, (a, b) in enumerate(rows):
        if a[0] == "p":
            ops.append(["R", "0", str(r), "0", "1", dhex(float(a[1])), "0"])
        else:
            ops.append(["R", "0", str(r), "0", "0", dhex(0.0), "2", str(a[1]), str(a[2])])
        ops.append(["R", "0", str(r), "1", "3", dhex(0.0), "0"] if b == "t" else
                   ["R", "0", str(r), "1", "2", dhex(0.0), "1", str(b[1])])
    ops += [["B", "0", "2", "1"], ["C", "0"]]
    return {"hdr": ["I", "5", "9", "1", "1", "1"], "ncats": 2, "syms": syms, "ops": ops, "family": "refuted-witness"}


def case_line(case, nops=None):
    ops = case["ops"] if nops is None else case["ops"][:nops]
    t = case["hdr"] + sset_tokens(case["ncats"], case["syms"]) + ["O"]
    for o in ops:
        t += o
    return " ".join(t)


# ------------------------------------------------------------------ evaluation
OPNAME = {"N": "construction", "M": "mutation", "X": "crossover", "B": "get_block", "R": "replace",
          "D": "destroy_block", "C": "cse", "A": "inc_age", "F": "force_flavour", "W": "iterator_walk_and_blocks",
          "E": "problem_resized"}


def judge(case, hline, mline, crash=None):
    """compare one case.  returns (diffs, violations, stats) where
    diffs = [(op index, model, impl)], violations = [(key, what, op index)]"""
    diffs, viols, stats = [], [], {}
    ops = case["ops"]
    team = case["hdr"][0] == "T"
    R = int(case["hdr"][2])
    if hline is None or hline.startswith("CRASH") or hline.startswith("EXC") or hline.startswith("BAD"):
        if (hline or "").startswith("CRASH rc=-14"):
            viols.append(("hang", "the real operators do not terminate on this history (8 s limit per history)", len(ops) - 1))
        else:
            viols.append(("sanitizer" if (hline or "").startswith("CRASH") or hline is None else "harness-error",
                          "the real operators abort on this history: %s" % ((hline or "")[:80]), len(ops) - 1))
        return diffs, viols, stats
    hrec = hline.split(" ; ")
    mrec = (mline or "").split(" ; ")
    if len(hrec) != len(ops) + 1 or hrec[-1].startswith("BADOP"):
        viols.append(("harness-error", "harness answered %d records for %d operations" % (len(hrec) - 1, len(ops)), len(ops) - 1))
        return diffs, viols, stats
    if mline is None or len(mrec) != len(hrec):
        diffs.append((len(ops) - 1, (mline or "")[:200], "(model driver failed)"))
        return diffs, viols, stats
    if "wf_sset=1" not in mrec[0]:
        diffs.append((0, mrec[0], "symbol set rejected by wf_sset_b"))
    okslot = {}
    cur_R, size = R, {}
    for i, o in enumerate(ops):
        if o[0] == "E":                       # the problem's code / patch length changes: nothing to compare
            cur_R = int(o[1])
            stats["problem_resized"] = stats.get("problem_resized", 0) + 1
            continue
        if o[0] == "N":
            size[int(o[1])] = cur_R
        elif o[0] == "X":
            size[int(o[3])] = size.get(int(o[1]), cur_R)
        R = size.get(int(o[1]), cur_R)        # the size of the individual this operation works on
        if o[0] == "M" and R != cur_R:
            stats["mutation_under_other_code_length"] = stats.get("mutation_under_other_code_length", 0) + 1
        hd, hextra, hdump = hrec[i + 1].split(" # ")
        mf = mrec[i + 1].split(" # ")
        mdump, mcnt, mrest, flags = mf[0], mf[1], mf[2], mf[3] if len(mf) > 3 else ""
        fl = dict(x.split("=") for x in flags.split())
        name = OPNAME[o[0]]
        stats[name] = stats.get(name, 0) + 1
        if o[0] == "X":
            xt = hdump.split(" | ")[0].split()[5]
            key = "crossover_" + FLAVOURS[int(xt)]
            stats[key] = stats.get(key, 0) + 1
        # ---- the property, judged on the implementation's output; an operator is blamed
        #      only when what it was given was well-formed
        k = int(o[3]) if o[0] == "X" else int(o[1])
        inputs = [] if o[0] == "N" else ([int(o[1]), int(o[2])] if o[0] == "X" else [k])
        inputs_ok = all(okslot.get(x, True) for x in inputs)
        okslot[k] = fl.get("wf") == "1"
        if fl.get("wf") != "1" and inputs_ok:
            viols.append(("%s:ill-formed" % name,
                          "%s produced an individual that is not well-formed (ind_ok_b = false): %s" % (name, hdump[:300]), i))
        if fl.get("shape") != "1":
            viols.append(("%s:size-changed" % name, "%s changed the size of the individual: %s" % (name, hdump[:200]), i))
        if o[0] == "X" and fl.get("xok") != "1":
            viols.append(("crossover:provenance-or-age",
                          "crossover offspring has a gene neither parent has at that position, or not the age of the older parent: %s" % hdump[:300], i))
        if o[0] == "M" and int(o[2], 16) == 0 and (fl.get("same") != "1" or hextra != "0"):
            viols.append(("mutation:zero-probability-changes",
                          "mutation with probability zero changed the individual (count %s): %s" % (hextra, hdump[:200]), i))
        if o[0] == "W" and okslot.get(k, True):
            # the property's "begin()/end() walk of the result": never leaves the genome, strictly increasing
            try:
                w, nn, b = hextra.split("|")
                wl = [tuple(int(x) for x in t.split(".")) for t in w.split(",")[1:]]
                bl = [tuple(int(x) for x in t.split(".")) for t in b.split(",")[1:]]
                ncat = case["ncats"]
                good = (len(wl) >= 1 and all(0 <= a < R and 0 <= c < ncat for a, c in wl)
                        and all(x < y for x, y in zip(wl, wl[1:])) and int(nn[1:]) == len(wl)
                        and set(bl) <= set(wl))
            except ValueError:
                good = False
            if not good:
                viols.append(("walk:leaves-genome", "the begin()/end() walk of a well-formed individual leaves the genome "
                              "or is not strictly increasing: %s" % hextra[:300], i))
        # ---- correspondence
        if mdump == "NONE":
            diffs.append((i, "model: no result (the draw stream does not fit the model)", hdump[:300]))
            continue
        if o[0] == "X" and R == 2 and " i:1:1:" in (" " + hd):
            # one-point crossover on 2 rows: between(1,1), an empty range; the model accepts any size_t
            stats["one_point_size2_empty_range"] = stats.get("one_point_size2_empty_range", 0) + 1
        if mdump != hdump:
            diffs.append((i, mdump[:400], hdump[:400]))
        elif mrest != "0":
            diffs.append((i, "model left %s draws unconsumed" % mrest, hd[:200]))
        elif o[0] == "M" and mcnt != hextra:
            diffs.append((i, "mutation count %s" % mcnt, "mutation count %s" % hextra))
        elif o[0] == "W" and mcnt != hextra:
            diffs.append((i, "walk/active_symbols/blocks %s" % mcnt[:300], hextra[:300]))
    return diffs, viols, stats


def run_harness(exe, lines, max_restarts=25):
    """line-protocol runner: when the harness dies on a line (sanitizer abort, time limit) that line
    is marked CRASH and the harness is restarted on the rest; after max_restarts the remaining lines
    are left unanswered (SKIPPED) -- the run already has its failing inputs"""
    import subprocess
    out = [None] * len(lines)
    crashes = {}
    start, restarts = 0, 0
    env = vv.san_env()
    while start < len(lines):
        p = subprocess.run([exe], input="\n".join(lines[start:]) + "\n", env=env,
                           stdout=subprocess.PIPE, stderr=subprocess.PIPE, text=True, errors="replace")
        got = p.stdout.splitlines()
        n = min(len(got), len(lines) - start)
        for i in range(n):
            out[start + i] = got[i]
        if start + n >= len(lines):
            if p.returncode != 0:          # every line answered, report at exit (LeakSanitizer)
                crashes["exit"] = p.stderr
            break
        k = start + n
        out[k] = "CRASH rc=%d" % p.returncode
        crashes[k] = p.stderr
        start = k + 1
        restarts += 1
        if restarts >= max_restarts:
            for j in range(start, len(lines)):
                out[j] = "SKIPPED"
            break
    return out, crashes


def run_cases(harness, model, cases):
    hl = [case_line(c) for c in cases]
    hout, crashes = run_harness(harness, hl)
    ml = ["%s @@ %s" % (l, h) for l, h in zip(hl, hout) if h and not h.startswith("CRASH") and h != "SKIPPED"]
    rc, mo, merr = vv.run_lines_parallel(model, ml)
    if rc != 0:
        raise vv.BuildError("model driver failed: rc=%s %s" % (rc, merr[:500]))
    mout, j = [], 0
    for h in hout:
        if h and not h.startswith("CRASH") and h != "SKIPPED":
            mout.append(mo[j] if j < len(mo) else None)
            j += 1
        else:
            mout.append(None)
    return hout, mout, crashes


def shrink(harness, model, case, key):
    """smallest prefix / sub-history on which the same violation key still shows"""
    def bad(c):
        ho, mo, cr = run_cases(harness, model, [c])
        if key == "sanitizer" and "exit" in cr:
            return True
        d, v, s = judge(c, ho[0], mo[0])
        return any(k == key for k, _, _ in v)
    best = case
    if key in ("hang", "sanitizer", "harness-error"):
        # the process dies: only the shortest crashing prefix is searched (bisection)
        lo, hi = 1, len(case["ops"])
        while lo < hi:
            mid = (lo + hi) // 2
            if bad(dict(case, ops=case["ops"][:mid])):
                hi = mid
            else:
                lo = mid + 1
        return dict(case, ops=case["ops"][:lo])
    # prefix
    for n in range(1, len(case["ops"]) + 1):
        c = dict(case, ops=case["ops"][:n])
        if bad(c):
            best = c
            break
    # drop single operations (keep the constructions)
    changed = True
    rounds = 0
    while changed and rounds < 3:
        changed = False
        rounds += 1
        i = len(best["ops"]) - 2
        while i >= 0:
            if best["ops"][i][0] != "N" or i >= int(best["hdr"][5]):
                c = dict(best, ops=best["ops"][:i] + best["ops"][i + 1:])
                if bad(c):
                    best = c
                    changed = True
            i -= 1
    return best


def run(ck):
    L = vv.build_lib("asan")
    res = vv.prove("Properties_C02", vv.FLOCQ_AXIOMS)
    ck.add_proof(res)
    if os.path.exists(os.path.join(vv.COQ, "Props", "Refuted_C02.v")):
        ck.add_proof(vv.prove("Refuted_C02", vv.FLOCQ_AXIOMS))
    ck.trusted += ["extraction: ExtrOcamlBasic only, no Extract Constant; ocaml/mep_driver.ml + zutil.ml",
                   "harness/h_mep.cc (canonical dump, hook H1 draw log, hook H2 flavour); g++ 12 ASan/UBSan",
                   "coq/Mep/Genome.v (shared genome model)"]
    ck.assumptions += [
        "H_draws: random::between(lo,hi) needs lo < hi and returns lo <= v < hi; boolean(0) = false, boolean(1) = true "
        "(checked inside the model's draw primitives; streams that break it give no result)",
        "terminal::init() of a parametric terminal consumes exactly one draw and returns its value",
        "symbol identity is opcode identity (opcodes are primary keys)",
        "ephemeral constants are numbers: random::between<double> never returns a NaN (checked by init_par; part of ind_ok_b, "
        "not needed by cse any more: the current comparator orders the bytes of the parameter)",
        "one-point crossover on 2 rows calls between(1,1), an empty range outside the contract of std::uniform_int_distribution; "
        "modelled as libstdc++ behaves: any size_t may come back (between_or_any), rows cut..R-1 are copied",
        "Flocq/stdlib axioms appear only because gene parameters are binary64 values (Base/F64.v)"]

    harness = vv.build_harness("h_mep")
    model = vv.ocaml_model("Mep")

    rnd = ck.rng
    if ck.replay_path:
        rp = json.load(open(ck.replay_path))
        cases = [rp["case"]] if "case" in rp else rp.get("cases", [])
    else:
        n = 10000 if ck.thorough else 1500
        cases = [witness_case()]
        # boundaries of the proofs' case splits: 2 and 3 rows per flavour, patch = rows - 1, one category
        for fl in range(4):
            for R in (2, 3, 4):
                for nc in (1, 2):
                    for _ in range(6 if not ck.thorough else 60):
                        cases.append(gen_case(rnd, ck.thorough, {"rows": R, "ncats": nc, "flavour": fl, "team": False,
                                                                  "only": ["X", "X", "M", "C"], "short": False}))
        for _ in range(150 if not ck.thorough else 2500):
            cases.append(gen_case(rnd, ck.thorough, {"only": ["C", "C", "M", "X", "R"], "team": False,
                                                      "ncats": rnd.choice([2, 3, 4])}))
        for _ in range(70 if not ck.thorough else 800):
            cases.append(gen_near_case(rnd, ck.thorough))
        # one problem object reused across code / patch lengths: individuals (and teams) mutated through a
        # problem they were not created with
        nv = 150 if not ck.thorough else 2000
        for _ in range(nv):
            cases.append(gen_case(rnd, ck.thorough, {"vary": True, "team": rnd.random() < 0.25}))
        n += nv
        for _ in range(3 if not ck.thorough else 30):
            cases.append(gen_long_case(rnd, ck.thorough))
        n += len([c for c in cases if c.get("family")])
        while len(cases) < n:
            cases.append(gen_case(rnd, ck.thorough))

    hout, mout, crashes = run_cases(harness, model, cases)
    total = {}
    seen_v = set()
    if "exit" in crashes:
        # a sanitizer report at process exit (leak): bisect for the history that causes it
        lo, hi = 0, len(cases)
        while hi - lo > 1:
            mid = (lo + hi) // 2
            _, cr = run_harness(harness, [case_line(c) for c in cases[lo:mid]])
            if "exit" in cr:
                hi = mid
            else:
                lo = mid
        culprit = cases[lo]
        _, cr = run_harness(harness, [case_line(culprit)])
        if "exit" in cr:
            small = shrink(harness, model, culprit, "sanitizer")
            ho, mo, cr2 = run_cases(harness, model, [small])
            ck.add_violation("sanitizer", "the real operators leak or corrupt memory on this history (sanitizer report at exit)",
                             {"case": small, "case_line": case_line(small), "implementation": ho[0],
                              "sanitizer": (cr2.get("exit") or cr.get("exit") or "")[-2500:]})
        else:
            ck.add_violation("sanitizer", "sanitizer report at exit of the harness, not attributable to one history",
                             {"sanitizer": crashes["exit"][-2500:]})
    for k, c in enumerate(cases):
        if hout[k] == "SKIPPED":
            continue
        ck.count()
        diffs, viols, stats = judge(c, hout[k], mout[k])
        for a, b in stats.items():
            total[a] = total.get(a, 0) + b
        if c.get("family") == "near-equal-constants":
            total["cse_on_near_equal_constants"] = total.get("cse_on_near_equal_constants", 0) + stats.get("cse", 0)
        kinds = {o[0] for o in c["ops"]} - {"N", "F", "A"}
        if len(kinds) >= 2 and int(c["hdr"][2]) >= 3:
            ck.nontriv((c["hdr"][0], c["hdr"][2], c["hdr"][3], c["ncats"], len(c["syms"]),
                        " ".join(o[0] for o in c["ops"])))
        if k < 2 or k % (len(cases) // 4 + 1) == 0:
            ck.sample({"case": case_line(c)[:600], "impl_last": (hout[k] or "").split(" ; ")[-1][:300],
                       "model_last": (mout[k] or "").split(" ; ")[-1][:300]})
        for key, what, opi in viols:
            if key in seen_v:
                ck.add_violation(key, what, {})
                continue
            seen_v.add(key)
            small = c
            try:
                small = shrink(harness, model, dict(c, ops=c["ops"][:opi + 1]), key)
            except Exception as e:            # shrinking is best effort
                vv.log("shrink failed: %r" % e)
            ho, mo, cr = run_cases(harness, model, [small])
            ck.add_violation(key, what, {"case": small, "case_line": case_line(small),
                                         "implementation": ho[0], "model_and_oracle": mo[0],
                                         "sanitizer": (cr.get(0) or crashes.get(k) or "")[-1500:]})
        for opi, m, h in diffs[:1]:
            ck.add_diff({"case_line": case_line(c, opi + 1)[:1500], "op": c["ops"][opi]}, m, h)
    ck.coverage["operations"] = total
    return ck.finish(
        rule="seeded histories of 1..60 real operators (construction, mutation, 4 crossover flavours forced via H2, "
             "get_block, replace, destroy_block, cse, inc_age; team liftings) on 1..4-category strongly typed symbol "
             "sets with parametric terminals, 2..40 rows, patch 1..4, teams of 1..4, plus the 2/3/4-row boundary per "
             "flavour; every operation replayed in the model from the logged draws and compared cell by cell; "
             "non-trivial = at least two different operator kinds composed on >= 3 rows; distinct = distinct "
             "(shape, symbol-set size, operator sequence)")
