"""C10 -- Dataset import is memory-safe on malformed input.

proof:  coq/Props/Properties_C10.v: for ALL byte strings / DOM trees and parameters the checked
        model of the repaired readers never performs an out-of-bounds access, and Ok => is_valid
        and uniform input width (partial by nature: index arithmetic and control flow only).
        coq/Props/Refuted_C10.v: 2-line witnesses for the pinned tree.
tie:    correspondence of the same model with the real readers (harness/h_csv.cc, ASan+UBSan+LSan)
        on a malformed stream.
search: UB inside std::string / tinyxml2 / the allocator and leaks are outside the model: the
        malformed stream runs under the sanitizers (search, not proof); the oracle accepts
        {standard exception; XRFF return 0; frame with is_valid() and uniform input width}.
"""
import json

import vv
import csv_common as cc

# the witnesses of Props/Refuted_C10.v, replayed on the real code first
CORPUS = [
    ("csv", cc.csv_line("1,2\n3,4,5\n", 44, 0, False, 0)),
    ("csv", cc.csv_line("1,2,3\n4\n", 44, 0, False, 2)),
    ("xrff", "xrff fixed %s N" % cc.hx(
        '<dataset><header><attributes><attribute name="a" type="numeric"/><attribute name="b" type="numeric"/>'
        '</attributes></header><body><instances><instance><value>1</value></instance></instances></body></dataset>')),
    ("csv", cc.csv_line("a,b\n1,2\n3,4,5,6,7,8,9\n", 44, 1, False, 1)),
    ("csv", cc.csv_line("1,2\n3,4\n", 44, 0, False, 2 ** 64 - 1)),       # params().output(SIZE_MAX): a caller passing -1
    ("csv", cc.csv_line("1,2\n3,4\n", 44, 0, False, 2 ** 64 - 2)),
    ("csv", cc.csv_line("1,2\n3,4\n", 44, 1, True, 2 ** 32 - 1)),
    ("csv", cc.csv_line("1,2\n3,4\n", 0, -1, False, 2)),
    ("csv", cc.csv_line("", 44, 0, False, 0)),
    ("csv", cc.csv_line("\n\n  \n", 0, -1, False, 0)),
    ("csv", cc.csv_line('1,"2\n3,4\n', 44, 0, False, 0)),
    ("csv", cc.csv_line("1,2\n3,\n", 44, 0, False, 0)),
    ("csv", cc.csv_line("1,1e999\n2,3\n", 44, 0, False, 0)),
    ("csv", cc.csv_line("1,2\n", 44, 0, False, 0, "D:0")),
    ("csv", cc.csv_line("1\n2\n", 44, 0, False, 0, "D:0")),
    ("prob", "prob fixed %s 0" % cc.hx("1,2,,4\n5,6,,8\n")),
    ("prob", "prob fixed %s 0" % cc.hx("7\n8\n")),
]


def rand_cell(rng):
    r = rng.random()
    if r < 0.35:
        return cc.gen_number(rng)
    if r < 0.5:
        return rng.choice(["", " ", "abc", "A", "B", "x y", "1e999", "-1e999", "1e-999", "0x1p3", "nan", "inf", "12abc", "1_0",
                           "99999999999999999999999999999999", "2147483648", "-2147483649", "1.7976931348623159e308",
                           '"', '""', '"a', 'a"b', "\x00", "a\x00b", "\xff\xfe", "\x80", "\r", "\x0b"])
    if r < 0.8:
        return cc.gen_text(rng, 44)
    return "".join(chr(rng.randint(0, 255)) for _ in range(rng.randint(0, 6)))


def malformed_csv(rng):
    d = rng.choice(cc.DELIMS + [44, 44])
    nrows = rng.choice([0, 1, 2, 2, 3, 5, 9, 10, 11, 12, 25])
    base = rng.randint(1, 5)
    lines = []
    for _ in range(nrows):
        w = base if rng.random() < 0.6 else rng.randint(0, 8)
        cells = [rand_cell(rng) for _ in range(w)]
        if rng.random() < 0.5:
            line = chr(d).join(cc.rfc_field(c, d, rng.random() < 0.2) for c in cells)
        else:
            line = chr(d).join(cells)            # raw: unbalanced quotes, embedded delimiters
        lines.append(line)
    txt = rng.choice(["\n", "\n", "\r\n", "\n\n"]).join(lines)
    if rng.random() < 0.7:
        txt += "\n"
    if rng.random() < 0.1:
        k = rng.randint(0, len(txt))
        txt = txt[:k] + "".join(chr(rng.randint(0, 255)) for _ in range(rng.randint(1, 4))) + txt[k:]
    delim = rng.choice([d, d, 0, rng.choice(cc.DELIMS)])
    hdr = rng.choice([-1, 0, 1])
    out = rng.choice([-1, 0, 0, 1, 2, 3, 5, 9, base - 1, base, base + 1,
                      2 ** 31 - 1, 2 ** 31, 2 ** 32 - 1, 2 ** 32, 2 ** 63, 2 ** 64 - 2, 2 ** 64 - 1, 2 ** 64 - 1])
    out = max(out, -1)
    flt = rng.choice(["N", "N", "N", "D:0", "D:%d" % rng.randint(0, 3), "E:%d:%s" % (rng.randint(0, 2), cc.hx(rand_cell(rng)))])
    return cc.csv_line(txt, delim, hdr, rng.random() < 0.3, None if out < 0 else out, flt)


def malformed_xrff(rng):
    natt = rng.randint(0, 5)
    types = ["numeric", "real", "integer", "nominal", "string", "date", "", "NUMERIC"]
    attrs = []
    for i in range(natt):
        a = {"name": "a%d" % i, "type": rng.choice(types), "cls": rng.random() < 0.25}
        if rng.random() < 0.3:
            a["labels"] = [cc.gen_text(rng, 44, True) for _ in range(rng.randint(0, 3))]
        attrs.append(a)
    rows = []
    for _ in range(rng.randint(0, 6)):
        w = natt if rng.random() < 0.6 else rng.randint(0, 7)
        rows.append([rng.choice([cc.gen_number(rng, True), cc.gen_text(rng, 44, True), "", "1e999", "99999999999", "x"])
                     for _ in range(w)])
    xml = cc.render_xrff(attrs, rows)
    r = rng.random()
    if r < 0.15:
        xml = xml[:rng.randint(0, len(xml))]                      # truncated
    elif r < 0.3:
        k = rng.randint(0, len(xml) - 1)
        xml = xml[:k] + chr(rng.randint(0, 255)) + xml[k + 1:]      # one byte changed
    elif r < 0.4:
        xml = xml.replace(rng.choice(["<attributes>", "<instances>", "<header>", "<body>", "</instance>", "<value>"]),
                          rng.choice(["", "<x>"]), 1)
    elif r < 0.45:
        xml = rng.choice(["", "<", "<dataset/>", "<?xml", "\x00", "<dataset><header><attributes/></header></dataset>"])
    flt = rng.choice(["N", "N", "D:0", "E:0:%s" % cc.hx("x")])
    return "xrff fixed %s %s" % (cc.hx(xml), flt)


def long_xml(rng):
    """malformed XML whose error site carries a LONG token (1 KiB - 64 KiB): tinyxml2 formats the offending name /
    text into its error message"""
    n = rng.choice([900, 1000, 1024, 1500, 3000, 4096, 10000, 65536])
    name = "".join(rng.choice("abcdefghijklmnopqrstuvwxyz") for _ in range(16)) * (n // 16 + 1)
    name = name[:n]
    head = "<dataset><header><attributes>"
    kind = rng.randrange(12)
    if kind == 0:
        return "<%s></x>" % name                                         # mismatched end tag
    if kind == 1:
        return "<dataset><%s></dataset>" % name                          # mismatched, nested
    if kind == 2:
        return "<dataset><%s" % name                                     # unterminated tag
    if kind == 3:
        return '<dataset %s=></dataset>' % name                          # bad attribute
    if kind == 4:
        return '<dataset a="%s></dataset>' % name                        # unterminated attribute value
    if kind == 5:
        return "%s<dataset/>" % name                                     # text where an element is expected
    if kind == 6:
        return "<dataset><?xml %s?></dataset>" % name                    # declaration in the wrong place
    if kind == 7:
        return "<dataset><!-- %s </dataset>" % name                      # unterminated comment
    if kind == 8:
        return "<dataset><![CDATA[%s</dataset>" % name                   # unterminated CDATA
    if kind == 9:
        return head + '<attribute name="%s" type="numeric"/></attributes></header><body><instances><instance><value>%s' % (name, name)
    if kind == 10:
        return head + '<attribute name="a" type="%s"/><%s></attributes></header>' % (name, name)
    return "<%s><%s></%s></%s>" % (name, name, name[:-1], name)           # deep mismatch


XR_DOCS = [
    '<dataset><header><attributes><attribute name="a" type="numeric"/><attribute name="b" type="numeric"/></attributes>'
    '</header><body><instances><instance><value>1</value><value>2</value></instance><instance><value>3</value><value>4</value>'
    '</instance></instances></body></dataset>',
    # EMPTY attribute list with instances: on a frame that already has columns output_index = 0u - 1
    '<dataset><header><attributes></attributes></header><body><instances><instance><value>1</value><value>2</value></instance>'
    '<instance><value>3</value></instance></instances></body></dataset>',
    '<dataset><header><attributes/></header><body><instances><instance><value>1</value><value>2</value><value>3</value>'
    '</instance></instances></body></dataset>',
    '<dataset><header><attributes><attribute name="c" type="nominal" class="yes"/></attributes></header><body><instances>'
    '<instance><value>u</value><value>1</value><value>2</value></instance><instance><value>v</value><value>3</value><value>4</value>'
    '</instance></instances></body></dataset>',
    '<dataset><header><attributes><attribute name="z" type="string"/></attributes></header><body><instances><instance>'
    '<value>q</value></instance></instances></body></dataset>',
    '<dataset><header><attributes></attributes></header><body><instances></instances></body></dataset>',
    '<dataset><header></header></dataset>',
]
CSV_DOCS = ["1,2\n3,4\n", "1,2,3\n4,5,6\n7,8,9\n", "a,b\n1,2\n3,4\n", "x,1\ny,2\nx,3\n", "1\n2\n", "", "1,2\n3\n4,5,6\n"]


def gen_hist_cases(ck):
    """several reads on ONE dataframe object (clear() keeps columns and classes): csv then xrff, xrff twice, with empty /
    short attribute lists, extreme output indices"""
    rng = ck.rng
    n = 6 if ck.thorough else 1
    cases = []

    def step_csv():
        txt = rng.choice(CSV_DOCS)
        out = rng.choice([-1, 0, 0, 1, 2, 3, 2 ** 32 - 1, 2 ** 64 - 1])
        return "c/%s/%d/%d/%d/%d" % (cc.hx(txt), 44, rng.choice([0, 0, 1, -1]), rng.randint(0, 1), out)

    def step_xrff():
        if rng.random() < 0.25:
            return "x/%s" % malformed_xrff(rng).split(" ")[2]
        return "x/%s" % cc.hx(rng.choice(XR_DOCS))
    fixed = [["x/%s" % cc.hx(XR_DOCS[0]), "x/%s" % cc.hx(XR_DOCS[1])],
             ["c/%s/44/0/0/0" % cc.hx(CSV_DOCS[0]), "x/%s" % cc.hx(XR_DOCS[1])],
             ["x/%s" % cc.hx(XR_DOCS[3]), "x/%s" % cc.hx(XR_DOCS[2])],
             ["x/%s" % cc.hx(XR_DOCS[0]), "x/%s" % cc.hx(XR_DOCS[0])],
             ["c/%s/44/0/0/0" % cc.hx(CSV_DOCS[1]), "c/%s/44/0/0/1" % cc.hx(CSV_DOCS[0])],
             ["x/%s" % cc.hx(XR_DOCS[0]), "c/%s/44/0/0/0" % cc.hx(CSV_DOCS[0]), "x/%s" % cc.hx(XR_DOCS[5])]]
    for st in fixed:
        cases.append({"mode": "hist", "line": "hist fixed %d %s" % (len(st), " ".join(st))})
    for _ in range(200 * n):
        st = [rng.choice([step_csv, step_xrff])() for _ in range(rng.randint(2, 4))]
        cases.append({"mode": "hist", "line": "hist fixed %d %s" % (len(st), " ".join(st))})
    return cases


def hist_model_line(line, ho):
    """x steps of the model take the DOM the harness dumped for that step"""
    w = line.split(" ")
    doms = []
    for t in (ho or "").split(" "):
        if t.startswith("DOMS="):
            doms = cc.items(t[5:], "!")
    out, k = [], 0
    for st in w[3:]:
        if st.startswith("x/"):
            if k < len(doms):
                a, i = doms[k].split("|")
                out.append("x/%s/%s" % (a, i))
            else:
                out.append("x/ERR/ERR")
            k += 1
        else:
            out.append(st)
    return " ".join(w[:3] + out)


def hist_outcomes(o):
    for t in (o or "").split(" "):
        if t.startswith("S="):
            return cc.items(t[2:], ",")
    return None


def run_hist_batch(ck, harness, model):
    if ck.replay_path:
        rp = json.load(open(ck.replay_path))
        if rp.get("mode") != "hist":
            return
        cases = [{"mode": "hist", "line": rp["line"]}]
    else:
        cases = gen_hist_cases(ck)
    hl = [c["line"] for c in cases]
    hout, crashes = cc.run_resilient(harness, hl)
    ml = [hist_model_line(l, o) for l, o in zip(hl, hout)]
    rc, mout, merr = vv.run_lines(model, "\n".join(ml) + "\n")
    if rc != 0 or len(mout) != len(ml):
        raise vv.BuildError("model driver failed: rc=%s %s" % (rc, merr[:500]))
    hist = {}
    for k, c in enumerate(cases):
        ck.count()
        ck.nontriv(c["line"])
        ho, mo = hout[k], mout[k]
        if ho == "SKIPPED":
            continue
        atexit = ho is not None and ho.startswith("CRASH-AT-EXIT ")
        if atexit:
            ho = ho[len("CRASH-AT-EXIT "):]
        steps = c["line"].split(" ")[3:]
        texts = [cc.unhx(st.split("/")[1]).decode("latin1")[:300] for st in steps]
        replay = {"mode": "hist", "line": c["line"], "impl": ho, "model": mo, "steps": steps, "step_texts": texts}
        if ho is None or ho.startswith("CRASH"):
            ck.add_violation("hist:sanitizer:%s" % crash_site(crashes.get(k, "")),
                             "undefined behaviour in a sequence of reads on one dataframe object",
                             dict(replay, sanitizer=crashes.get(k, "")[-2500:]))
            continue
        if atexit:
            ck.add_violation("hist:leak", "the sanitizers report at exit after sequences of reads on one object",
                             dict(replay, sanitizer=crashes.get(k, "")[-2000:]))
        so, sm = hist_outcomes(ho), hist_outcomes(mo)
        hist[" ".join(x.split(":")[0].rstrip("0123456789") for x in (so or []))] = \
            hist.get(" ".join(x.split(":")[0].rstrip("0123456789") for x in (so or [])), 0) + 1
        if so is None or sm is None:
            ck.add_diff({"mode": "hist", "line": c["line"][:400]}, mo[:400], (ho or "")[:400])
            continue
        # the model follows the frame through failing reads too (Csv/StateDefs.v): every outcome and the final frame
        if so != sm:
            ck.add_diff({"mode": "hist", "line": c["line"][:400]}, mo[:400], (ho or "")[:400])
        fm = " ".join(t for t in mo.split(" ")[2:])
        fh = " ".join(t for t in ho.split(" ")[2:] if not t.startswith("DOMS="))
        if cc.canon("OK " + fh) != cc.canon("OK " + fm):
            ck.add_diff({"mode": "hist", "line": c["line"][:400]}, mo[:600], (ho or "")[:600], "final frames differ")
        # outcome oracle on the frame after the last read when that read returned normally
        if so and so[-1].startswith("ok"):
            got = cc.parse_out("OK " + fh)
            got["ret"] = int(so[-1][2:])
            v = judge("xrff" if steps[-1][0] == "x" else "csv", got)
            if v:
                ck.add_violation("hist:" + v[0], v[1], replay)
    ck.coverage["hist_outcomes"] = hist


def gen_probh_cases(ck):
    """histories on ONE src_problem object: construction from a stream, further reads into data() (also failing
    ones), setup_symbols() after successful and after failed reads"""
    rng = ck.rng
    n = 6 if ck.thorough else 1
    good = ["1,2,3\n4,5,6\n7,8,9\n", "y,a,b\n1,2,x\n3,4,z\n5,6,x\n", "1,2,,4\n5,6,,8\n", "u,1,2\nv,3,4\nu,5,6\n",
            "1;2\n3;4\n", "1,ab,cd\n2,ef,gh\n3,ij,kl\n",
            # repeated column names, a name colliding with a default one, primitive names
            "y,a,a,b\n1,2,3,4\n5,6,7,8\n", "y,,X1,c\n1,2,3,4\n5,6,7,8\n", "y,FADD,FADD\n1,2,3\n4,5,6\n"]
    bad = ["1,2\n3,x\n", "1\n2\n", "", "1,2,3\n4,5\n6\n", "1,2\n3,4,5,6\n", "1,,3\n4,5,6\n", "a,1\na,2\n", "1,2\n1e999,3\n"]

    def op_read():
        if rng.random() < 0.25:
            return "x/%s" % cc.hx(rng.choice(XR_DOCS))
        txt = rng.choice(good + bad)
        return "r/%s/%d/%d/0/%d" % (cc.hx(txt), rng.choice([0, 44, 44]), rng.choice([-1, 0, 1]), rng.choice([0, 0, 1, -1, 2 ** 64 - 1]))
    cases = []
    fixed = [["n/%s/0" % cc.hx(good[0]), "s/0"],
             ["n/%s/0" % cc.hx(good[2]), "s/0"],
             ["n/%s/0" % cc.hx(good[0]), "r/%s/44/0/0/0" % cc.hx(bad[0]), "s/0"],
             ["n/%s/0" % cc.hx(good[0]), "r/%s/44/0/0/0" % cc.hx(good[1]), "s/1"],
             ["n/%s/0" % cc.hx(good[1]), "x/%s" % cc.hx(XR_DOCS[1]), "s/0"],
             ["n/%s/0" % cc.hx(good[0]), "r/%s/44/0/0/0" % cc.hx(bad[1]), "s/0", "r/%s/44/0/0/0" % cc.hx(good[0]), "s/0"],
             ["n/%s/0" % cc.hx(bad[1]), "s/0"]]
    for ops in fixed:
        cases.append({"mode": "probh", "line": "probh fixed %d %s" % (len(ops), " ".join(ops))})
    for _ in range(150 * n):
        ops = ["n/%s/%d" % (cc.hx(rng.choice(good + good + bad)), rng.randint(0, 1))]
        for _ in range(rng.randint(1, 4)):
            ops.append(op_read() if rng.random() < 0.6 else "s/%d" % rng.randint(0, 1))
        if rng.random() < 0.5:
            ops.append("s/%d" % rng.randint(0, 1))
        cases.append({"mode": "probh", "line": "probh fixed %d %s" % (len(ops), " ".join(ops))})
    return cases


def run_probh_batch(ck, harness, model):
    if ck.replay_path:
        rp = json.load(open(ck.replay_path))
        if rp.get("mode") != "probh":
            return
        cases = [{"mode": "probh", "line": rp["line"]}]
    else:
        cases = gen_probh_cases(ck)
    hl = [c["line"] for c in cases]
    hout, crashes = cc.run_resilient(harness, hl)
    ml = [hist_model_line(l, o) for l, o in zip(hl, hout)]
    rc, mout, merr = vv.run_lines(model, "\n".join(ml) + "\n")
    if rc != 0 or len(mout) != len(ml):
        raise vv.BuildError("model driver failed: rc=%s %s" % (rc, merr[:500]))
    hist = {}
    for k, c in enumerate(cases):
        ck.count()
        ck.nontriv(c["line"])
        ho, mo = hout[k], mout[k]
        if ho == "SKIPPED":
            continue
        atexit = ho is not None and ho.startswith("CRASH-AT-EXIT ")
        if atexit:
            ho = ho[len("CRASH-AT-EXIT "):]
        ops = c["line"].split(" ")[3:]
        texts = [(cc.unhx(o.split("/")[1]).decode("latin1")[:200] if o[0] in "nrx" else o) for o in ops]
        replay = {"mode": "probh", "line": c["line"], "impl": ho, "model": mo, "ops": ops, "op_texts": texts}
        if ho is None or ho.startswith("CRASH"):
            ck.add_violation("probh:sanitizer:%s" % crash_site(crashes.get(k, "")),
                             "undefined behaviour in a history on one src_problem object",
                             dict(replay, sanitizer=crashes.get(k, "")[-2500:]))
            continue
        if atexit:
            ck.add_violation("probh:leak", "the sanitizers report at exit after histories on src_problem objects",
                             dict(replay, sanitizer=crashes.get(k, "")[-2000:]))
        fh = " ".join(t for t in ho.split(" ") if not t.startswith("DOMS="))
        if cc.canon(fh) != cc.canon(mo):
            ck.add_diff({"mode": "probh", "line": c["line"][:400]}, mo[:700], fh[:700])
        so = hist_outcomes(ho) or []
        key = " ".join(o[0] + ":" + x.split(":")[0].rstrip("0123456789") for o, x in zip(ops, so))
        hist[key] = hist.get(key, 0) + 1
        # the symbol set must match the frame whenever the last data operation succeeded and the symbols were set
        # up after it (construction, or setup_symbols): as many variables as inputs, ids 0..n-1, no variable out of range
        last_read = max([i for i, o in enumerate(ops) if o[0] in "nrx"], default=None)
        last_setup = max([i for i, o in enumerate(ops) if o[0] in "ns" and i < len(so) and so[i].startswith("ok")], default=None)
        if last_read is not None and last_setup is not None and last_setup >= last_read and last_read < len(so) \
                and so[last_read].startswith("ok") and " NONE" not in ho:
            toks = dict(t.split("=", 1) for t in ho.split(" ") if "=" in t)
            vs = cc.items(toks.get("VARS", ""), ";")
            ids = [int(v.split(":")[1]) for v in vs]
            nvar = int(toks.get("VARIABLES", "0"))
            nonempty = toks.get("EX", "") != ""
            if ids != list(range(len(ids))) or (nonempty and nvar != len(ids)) or "OOB" in toks.get("RUN", ""):
                ck.add_violation("probh:symbols-mismatch",
                                 "after a successful read and set-up the variables %s do not match the %d inputs of the examples"
                                 % (ids, nvar), replay)
    ck.coverage["probh_outcomes"] = dict(sorted(hist.items(), key=lambda x: -x[1])[:25])


def gen_cases(ck):
    rng = ck.rng
    n = 15 if ck.thorough else 1
    cases = [{"mode": m, "line": l, "corpus": True} for m, l in CORPUS]
    for _ in range(1500 * n):
        cases.append({"mode": "csv", "line": malformed_csv(rng)})
    for _ in range(500 * n):
        cases.append({"mode": "xrff", "line": malformed_xrff(rng)})
    for _ in range(40 * n):
        cases.append({"mode": "xrff", "line": "xrff fixed %s N" % cc.hx(long_xml(rng))})
    for _ in range(250 * n):
        l = malformed_csv(rng).split(" ")
        cases.append({"mode": "prob", "line": "prob fixed %s %d" % (l[2], rng.randint(0, 1))})
    return cases


def crash_site(san):
    """innermost frame of the FIRST stack of the sanitizer report that is one of the anchored functions"""
    import re
    frames = []
    for l in san.splitlines():
        m = re.match(r"\s*#(\d+) 0x[0-9a-f]+ in (.*)", l)
        if m:
            if m.group(1) == "0" and frames:
                break
            frames.append(m.group(2))
    names = ["fetch_var", "columns_info::build", "to_example", "read_record", "setup_terminals", "category_set",
             "parse_line", "get_input", "has_header", "guess_delimiter", "sniffer", "read_xrff", "read_csv", "is_valid",
             "tinyxml2::"]
    for k, f in enumerate(frames):
        if f.startswith("operator()") and k + 1 < len(frames) and "columns_info::build" in frames[k + 1]:
            return "columns_info::build"
        for n in names:
            if n in f.split("(")[0] or (n + "(") in f or (n + "[") in f:
                return n.rstrip(":")
    return "unknown"


def gen_path_cases(ck, scratch):
    """the same malformed (and some well-formed) inputs, read BY FILE NAME: dataframe::read(path),
    read_csv(path), read_xrff(path), src_problem(path)"""
    import os
    rng = ck.rng
    n = 6 if ck.thorough else 1
    texts = []
    good = ('<dataset><header><attributes><attribute name="a" type="numeric"/><attribute name="b" class="yes" '
            'type="numeric"/></attributes></header><body><instances><instance><value>1</value><value>2</value></instance>'
            '<instance><value>3</value><value>4</value></instance></instances></body></dataset>')
    fixed = [("xrff", "read", ""), ("xrff", "read", "<"), ("xml", "read", "<dataset>"), ("xrff", "read_xrff", "\x00"),
             ("xrff", "read", good), ("xml", "read_xrff", good), ("csv", "read", "1,2\n3,4\n"), ("csv", "read_csv", ""),
             ("csv", "prob", "1,2,,4\n5,6,,8\n"), ("csv", "read", "1,2\n3,4,5\n")]
    for ext, api, txt in fixed:
        texts.append((ext, api, txt.encode("latin1")))
    for _ in range(260 * n):
        l = malformed_xrff(rng).split(" ")
        texts.append((rng.choice(["xrff", "xml"]), rng.choice(["read", "read", "read_xrff"]), cc.unhx(l[2])))
    for _ in range(140 * n):
        l = malformed_csv(rng).split(" ")
        texts.append(("csv", rng.choice(["read", "read_csv", "prob"]), cc.unhx(l[2])))
    for _ in range(24 * n):
        texts.append((rng.choice(["xrff", "xml"]), rng.choice(["read", "read_xrff"]), long_xml(rng).encode("latin1")))
    cases = []
    for k, (ext, api, data) in enumerate(texts):
        fn = os.path.join(scratch, "f%05d.%s" % (k, ext))
        with open(fn, "wb") as f:
            f.write(data)
        cases.append({"mode": "path", "api": api, "ext": ext, "file": fn, "data": data,
                      "line": "path fixed %s %s" % (api, fn)})
    # a (very long) name of a file that does not exist: the name ends up in tinyxml2's error message
    for ln in (20, 200, 3000):
        fn = os.path.join(scratch, "missing", "m" * ln + ".xrff")
        cases.append({"mode": "path", "api": "read", "ext": "xrff", "file": fn, "data": b"", "missing": True,
                      "line": "path fixed read %s" % fn})
    return cases


def path_model_line(c, ho):
    """the model has no file system: it reads the same bytes through the stream entry points"""
    if c["ext"] == "csv":
        if c["api"] == "prob":
            return "prob fixed %s 0" % cc.hx(c["data"])
        return cc.csv_line(c["data"], 0, -1, False, 0)
    p = cc.parse_out(ho)
    if p.get("dom"):
        return "xrff fixed %s %s N" % p["dom"]
    return "xrff fixed ERR ERR N"


def run_path_batch(ck, harness, model):
    import os
    import shutil
    scratch = os.path.join(vv.BUILD, "private-csv", "scratch-%d" % os.getpid())
    shutil.rmtree(scratch, ignore_errors=True)
    os.makedirs(scratch)
    try:
        if ck.replay_path:
            rp = json.load(open(ck.replay_path))
            if rp.get("mode") != "path":
                return
            fn = os.path.join(scratch, "replay." + rp["ext"])
            data = bytes.fromhex(rp["file_content_hex"])
            with open(fn, "wb") as f:
                f.write(data)
            # a leak is a property of the process: repeat the read so that LeakSanitizer also sees it
            cases = [{"mode": "path", "api": rp["api"], "ext": rp["ext"], "file": fn, "data": data,
                      "line": "path fixed %s %s" % (rp["api"], fn)}] * 3
        else:
            cases = gen_path_cases(ck, scratch)
        hl = [c["line"] for c in cases]
        hout, crashes = cc.run_resilient(harness, hl)
        ml = [path_model_line(c, o) for c, o in zip(cases, hout)]
        rc, mout, merr = vv.run_lines(model, "\n".join(ml) + "\n")
        if rc != 0 or len(mout) != len(ml):
            raise vv.BuildError("model driver failed: rc=%s %s" % (rc, merr[:500]))
        hist = {}
        leaking = None
        for k, c in enumerate(cases):
            ck.count()
            ho, mo = hout[k], mout[k]
            if ho == "SKIPPED":
                continue
            atexit = ho is not None and ho.startswith("CRASH-AT-EXIT ")
            if atexit:
                ho = ho[len("CRASH-AT-EXIT "):]
            got = cc.parse_out(ho)
            mode = "xrff" if c["ext"] != "csv" else ("prob" if c["api"] == "prob" else "csv")
            outcome = got["kind"] + (":" + got["exn"] if got["kind"] == "EXN" else "")
            hist["%s.%s %s" % (c["api"], c["ext"], outcome)] = hist.get("%s.%s %s" % (c["api"], c["ext"], outcome), 0) + 1
            ck.nontriv("path " + c["api"] + " " + c["data"].hex())
            replay = {"mode": "path", "api": c["api"], "ext": c["ext"], "line": c["line"], "impl": ho, "model": mo,
                      "file_content": c["data"].decode("latin1")[:600], "file_content_hex": c["data"].hex()}
            if got.get("fdleak"):
                if leaking is None:
                    leaking = replay
                ck.add_violation("path:leak", "reading a file by name leaves %d descriptor(s) open (%s of a .%s file: %s)"
                                 % (got["fdleak"], c["api"], c["ext"], outcome), replay)
            if got["kind"] == "CRASH":
                ck.add_violation("path:sanitizer:%s" % crash_site(crashes.get(k, "")),
                                 "undefined behaviour while reading a file by name", dict(replay, sanitizer=crashes.get(k, "")[-2500:]))
                continue
            if atexit:
                san = crashes.get(k, "")
                rep = leaking or replay
                if leaking is None and not ck.replay_path:
                    ll, err = cc.find_leaking_lines(harness, hl)
                    if ll and len(ll) <= 3:
                        cl = next(x for x in cases if x["line"] == ll[0])
                        rep = {"mode": "path", "api": cl["api"], "ext": cl["ext"], "line": cl["line"],
                               "file_content": cl["data"].decode("latin1")[:600], "file_content_hex": cl["data"].hex()}
                        san = err
                ck.add_violation("path:leak", "LeakSanitizer reports leaked memory at exit after reading files by name",
                                 dict(rep, sanitizer=san[-2500:]))
            v = judge(mode, got)
            if v:
                ck.add_violation("path:" + v[0], v[1], replay)
            # by-name and stream reading of the same bytes must agree (modulo the descriptor report)
            if cc.canon(ho).replace(" FDLEAK=%s" % got.get("fdleak"), "") != cc.canon(mo):
                ck.add_diff({"mode": "path", "line": c["line"], "api": c["api"]}, mo[:600], (ho or "")[:600])
        ck.coverage["path_outcomes"] = hist
    finally:
        shutil.rmtree(scratch, ignore_errors=True)


STD_EXN = {"invalid_argument", "out_of_range", "insufficient_data", "data_format", "bad_variant_access", "bad_alloc"}


def judge(mode, got):
    """C10 oracle on the implementation's outcome"""
    if got["kind"] == "EXN":
        if got["exn"] in STD_EXN or got["exn"].startswith("other:"):
            return None
        return ("%s:non-standard-exception" % mode, "raised %s" % got["exn"])
    if got["kind"] != "OK":
        return ("%s:bad-output" % mode, "unexpected harness output %s" % got)
    if mode == "xrff" and got.get("ret") == 0:
        return None
    widths = {len(e[1]) for e in got.get("ex", [])}
    if got.get("valid") != "1":
        return ("%s:invalid-frame" % mode, "returned a frame that fails its own is_valid() (%s)" % got.get("valid"))
    if len(widths) > 1:
        return ("%s:ragged-frame" % mode, "returned examples with %s different input widths" % sorted(widths))
    if mode != "xrff" and not got.get("ex"):
        return ("%s:empty-frame" % mode, "returned normally with an empty frame")
    return None


# ------------------------------------------------------------------ libFuzzer (thorough tier; search only)
FZ_DELIMS = [44, 59, 9, 58, 124, 0]


def fz_encode(line):
    """a harness case line -> input of harness/h_csv_fuzz.cc (None when the case has no encoding)"""
    w = line.split(" ")
    if w[0] == "xrff":
        return bytes([2, 0, 0, 0, 0]) + cc.unhx(w[2])
    if w[0] == "prob":
        return bytes([3, 0, 0, 0, 0]) + cc.unhx(w[2])
    if w[0] != "csv":
        return None
    delim, hdr, trim, out, flt = int(w[3]), int(w[4]), int(w[5]), int(w[6]), w[7]
    if delim not in FZ_DELIMS or out > 9:
        return None
    f = {"N": 0, "D:0": 1, "D:1": 2}.get(flt)
    if f is None:
        return None
    return bytes([0, FZ_DELIMS.index(delim), hdr + 1, 255 if out < 0 else out, trim | (f << 1)]) + cc.unhx(w[2])


def fz_decode(data):
    """inverse of the decoding done by LLVMFuzzerTestOneInput: fuzzer input -> harness case (mode, line)"""
    if len(data) < 5:
        return None
    mode = data[0] % 4
    text = data[5:]
    if mode == 2:
        return "xrff", "xrff fixed %s N" % cc.hx(text)
    if mode == 3:
        return "prob", "prob fixed %s 0" % cc.hx(text)
    if mode == 1:
        delim, hdr = 0, -1
    else:
        delim, hdr = FZ_DELIMS[data[1] % 6], data[2] % 3 - 1
    out = None if data[3] >= 10 else data[3]
    f = (data[4] >> 1) & 3
    flt = {0: "N", 1: "D:0", 2: "D:1", 3: "N"}[f]
    return "csv", cc.csv_line(text, delim, hdr, bool(data[4] & 1), out, flt)


def build_fuzzer():
    """clang++ -fsanitize=fuzzer,address,undefined build of the library sources + harness/h_csv_fuzz.cc (cached by
    source hash in the private build directory)"""
    import glob
    import hashlib
    import os
    import shutil
    src = os.path.join(vv.REPO, "src")
    hh = hashlib.sha256(open(os.path.join(vv.VERIF, "harness", "h_csv_fuzz.cc"), "rb").read()).hexdigest()[:10]
    d = os.path.join(vv.BUILD, "private-csv", "fuzz-%s-%s" % (vv.src_hash(), hh))
    exe = os.path.join(d, "fz")
    if os.path.exists(exe):
        return exe
    for old in glob.glob(os.path.join(vv.BUILD, "private-csv", "fuzz-*")):
        shutil.rmtree(old, ignore_errors=True)
    snap = d + "-src"
    shutil.rmtree(snap, ignore_errors=True)
    os.makedirs(d)
    for sd in vv.SRC_DIRS:
        shutil.copytree(os.path.join(src, sd), os.path.join(snap, sd))
    flags = ["-std=c++17", "-O1", "-g", "-DNDEBUG", "-DVITA_VERIF", "-w", "-fno-sanitize-recover=all",
             "-I" + snap, "-isystem", os.path.join(snap, "third_party")]
    ccs = []
    for sd in vv.SRC_DIRS:
        for dp, dn, fn in os.walk(os.path.join(snap, sd)):
            for f in sorted(fn):
                if f.endswith(".cc") and "/test" not in dp and "/examples" not in dp:
                    ccs.append(os.path.join(dp, f))
    import concurrent.futures

    def comp(c):
        o = os.path.join(d, os.path.relpath(c, snap).replace("/", "_")[:-3] + ".o")
        rc, out = vv.sh(["clang++"] + flags + ["-fsanitize=fuzzer-no-link,address,undefined", "-c", c, "-o", o], timeout=600)
        return rc, out, o
    with concurrent.futures.ThreadPoolExecutor(vv.NPROC) as ex:
        res = list(ex.map(comp, ccs))
    bad = [out for rc, out, o in res if rc != 0]
    if bad:
        raise vv.BuildError("fuzz build: " + bad[0][-2000:])
    rc, out = vv.sh(["clang++"] + flags + ["-fsanitize=fuzzer,address,undefined",
                                            os.path.join(vv.VERIF, "harness", "h_csv_fuzz.cc")] + [o for _, _, o in res]
                    + ["-lpthread", "-o", exe], timeout=600)
    if rc != 0:
        raise vv.BuildError("fuzz link: " + out[-2000:])
    for _, _, o in res:
        os.remove(o)
    shutil.rmtree(snap, ignore_errors=True)
    return exe


def run_fuzzer(ck, harness, seed_lines, seconds):
    """bounded libFuzzer run over read_csv / read_xrff / src_problem, corpus seeded from the model's boundary cases
    (the corpus of this check).  SEARCH ONLY: a crash is confirmed on the ordinary harness and reported with a replay;
    the absence of crashes proves nothing and is not counted as proof."""
    import glob
    import os
    import shutil
    import time
    t0 = time.time()
    try:
        exe = build_fuzzer()
    except vv.BuildError as e:
        ck.notes.append("libFuzzer target not built (%s): fuzzing skipped" % str(e)[:200])
        return
    work = os.path.join(vv.BUILD, "private-csv", "fuzzrun-%d" % os.getpid())
    shutil.rmtree(work, ignore_errors=True)
    os.makedirs(os.path.join(work, "corpus"))
    os.makedirs(os.path.join(work, "art"))
    n = 0
    for l in seed_lines:
        b = fz_encode(l)
        if b is not None and len(b) < 4096:
            with open(os.path.join(work, "corpus", "s%05d" % n), "wb") as f:
                f.write(b)
            n += 1
    jobs = min(8, vv.NPROC)
    env = vv.san_env()
    env["ASAN_OPTIONS"] = "detect_leaks=1:allocator_may_return_null=1"
    rc, out = vv.sh([exe, "corpus", "-max_total_time=%d" % seconds, "-timeout=20", "-rss_limit_mb=4096", "-max_len=4096",
                     "-artifact_prefix=art/", "-jobs=%d" % jobs, "-workers=%d" % jobs, "-seed=%d" % ck.seed,
                     "-print_final_stats=1"], cwd=work, timeout=seconds + 300, env=env)
    execs = 0
    import re
    for lf in glob.glob(os.path.join(work, "fuzz-*.log")):
        with open(lf, errors="replace") as f:
            m = re.findall(r"stat::number_of_executed_units:\s*(\d+)", f.read())
        execs += sum(int(x) for x in m)
    arts = sorted(glob.glob(os.path.join(work, "art", "*")))
    ck.coverage["fuzz"] = {"seconds": seconds, "jobs": jobs, "seed_inputs": n, "executions": execs,
                           "artifacts": [os.path.basename(a) for a in arts][:20], "wall_s": round(time.time() - t0, 1),
                           "note": "search only, not counted as proof"}
    seen = set()
    for a in arts[:12]:
        data = open(a, "rb").read()
        dec = fz_decode(data)
        kind = os.path.basename(a).split("-")[0]
        if dec is None:
            continue
        mode, line = dec
        hout, crashes = cc.pc.run_harness_resilient(harness, [line])
        ho = hout[0]
        got = cc.parse_out(ho[len("CRASH-AT-EXIT "):] if ho and ho.startswith("CRASH-AT-EXIT ") else ho)
        replay = {"mode": mode, "line": line, "impl": ho, "fuzzer_artifact": os.path.basename(a), "artifact_hex": data.hex()[:4000],
                  "input_text": cc.unhx(line.split(" ")[2]).decode("latin1")[:400], "found_by": "libFuzzer (search)"}
        if got["kind"] == "CRASH":
            key = "fuzz:%s:sanitizer:%s" % (mode, crash_site(crashes.get(0, "")))
            what = "undefined behaviour while reading (found by the fuzzer, confirmed on the harness)"
            replay["sanitizer"] = crashes.get(0, "")[-2500:]
        elif ho and ho.startswith("CRASH-AT-EXIT "):
            key, what = "fuzz:%s:leak" % mode, "memory leaked while reading (found by the fuzzer, confirmed on the harness)"
            replay["sanitizer"] = crashes.get(0, "")[-2500:]
        else:
            v = judge(mode, got)
            if v:
                key, what = "fuzz:" + v[0], v[1]
            elif kind in ("timeout", "oom", "slow"):
                key, what = "fuzz:%s:%s" % (mode, kind), "the fuzzer reports %s on this input (not reproduced as a crash)" % kind
            else:
                key = "fuzz:%s:unconfirmed-%s" % (mode, kind)
                what = "the fuzzer target failed on this input (%s) but the harness handles it: %s" % (kind, (ho or "")[:100])
        if key not in seen:
            seen.add(key)
            ck.add_violation(key, what, replay)
    shutil.rmtree(work, ignore_errors=True)


def run(ck):
    res = vv.prove("Properties_C10", set())
    ck.add_proof(res)
    ck.add_proof(vv.prove("Refuted_C10", set()))
    ck.trusted += ["extraction: ExtrOcamlBasic only; ocaml/csv_driver.ml + zutil.ml (strtod/stod/stoi oracles realised with the C library)",
                   "harness/h_csv.cc; g++ 12 ASan/UBSan/LSan as the detector of executed UB and leaks",
                   "tinyxml2 as an oracle: the model of read_xrff runs on the DOM dumped by the harness"]
    ck.assumptions += [
        "PARTIAL BY NATURE: the theorems cover index arithmetic and control flow of read_csv/read_xrff/setup_terminals/"
        "fetch_var for all inputs; UB inside std::string, tinyxml2, the allocator, and leaks are outside the model and are "
        "searched for by the sanitised malformed stream (search, not proof)",
        "is_number/stod/stoi are universally quantified oracles; the filter hook is an arbitrary function",
        "XRFF outcomes accepted: exception, return 0, or n>0 with is_valid() and uniform width (DESIGN 5.10)"]
    harness, model = cc.build()
    if ck.replay_path:
        rp = json.load(open(ck.replay_path))
        cases = [{"mode": rp["mode"], "line": rp["line"]}] if rp.get("mode") != "path" else []
    else:
        cases = gen_cases(ck)
    hl = [c["line"] for c in cases]
    hout, crashes = cc.run_resilient(harness, hl)
    ml = list(hl)
    xi = [i for i, c in enumerate(cases) if c["mode"] == "xrff"]
    for i, l in zip(xi, cc.xrff_model_lines([hl[i] for i in xi], [hout[i] for i in xi])):
        ml[i] = l
    rc, mout, merr = vv.run_lines(model, "\n".join(ml) + "\n") if ml else (0, [], "")
    if rc != 0 or len(mout) != len(ml):
        raise vv.BuildError("model driver failed: rc=%s %s" % (rc, merr[:500]))
    hist = {}
    zero_returns = 0
    shrunk = {}
    for k, c in enumerate(cases):
        ck.count()
        ho, mo = hout[k], mout[k]
        if ho == "SKIPPED":
            continue
        atexit = ho is not None and ho.startswith("CRASH-AT-EXIT ")
        if atexit:
            ho = ho[len("CRASH-AT-EXIT "):]
        got = cc.parse_out(ho)
        outcome = got["kind"] + (":" + got["exn"] if got["kind"] == "EXN" else "")
        hist[c["mode"] + " " + outcome] = hist.get(c["mode"] + " " + outcome, 0) + 1
        if c["mode"] == "xrff" and got["kind"] == "OK" and got.get("ret") == 0:
            zero_returns += 1
        ck.nontriv(c["line"])
        if k < 3 or k % (len(cases) // 4 + 1) == 0:
            ck.sample({"mode": c["mode"], "line": c["line"][:160], "impl": (ho or "")[:160], "model": mo[:160]})
        replay = {"mode": c["mode"], "line": c["line"], "impl": ho, "model": mo,
                  "input_text": cc.unhx(c["line"].split(" ")[2]).decode("latin1")[:400]}
        if atexit:
            # LeakSanitizer speaks at exit: find the case(s) of this batch that leak
            ll, err = cc.find_leaking_lines(harness, hl) if not ck.replay_path else (None, "")
            if ll and len(ll) <= 3:
                w0 = ll[0].split(" ")
                ck.add_violation("%s:leak" % w0[0], "reading this input leaks memory (LeakSanitizer at exit)",
                                 {"mode": w0[0], "line": ll[0], "lines": ll,
                                  "input_text": cc.unhx(w0[2]).decode("latin1")[:400], "sanitizer": err[-2000:]})
            else:
                ck.add_violation("leak-or-error-at-exit", "the sanitizers report at process exit (leak) after the malformed stream",
                                 dict(replay, sanitizer=crashes.get(k, "")[-2000:]))
        if got["kind"] == "CRASH":
            san = crashes.get(k, "")
            where = crash_site(san)
            key = "%s:sanitizer:%s" % (c["mode"], where)
            if key not in shrunk and not ck.replay_path:
                small = cc.shrink_lines(harness, c["line"], lambda o: o is None or o.startswith("CRASH"))
                shrunk[key] = small
                replay = dict(replay, line=small, original_line=c["line"],
                              input_text=cc.unhx(small.split(" ")[2]).decode("latin1")[:400])
            ck.add_violation(key, "undefined behaviour while reading (sanitizer report in %s)" % where,
                             dict(replay, sanitizer=san[-2500:]))
            continue
        v = judge(c["mode"], got)
        if v:
            if v[0] not in shrunk and not ck.replay_path:
                small = cc.shrink_lines(harness, c["line"],
                                        lambda o, m=c["mode"], k=v[0]: (judge(m, cc.parse_out(o)) or ("",))[0] == k)
                shrunk[v[0]] = small
                replay = dict(replay, line=small, original_line=c["line"],
                              input_text=cc.unhx(small.split(" ")[2]).decode("latin1")[:400])
            ck.add_violation(v[0], v[1], replay)
        if cc.canon(ho) != cc.canon(mo):
            ck.add_diff({"mode": c["mode"], "line": c["line"][:400]}, mo[:600], (ho or "")[:600])
    ck.coverage["outcomes"] = hist
    ck.coverage["xrff_zero_returns"] = zero_returns
    run_path_batch(ck, harness, model)
    run_hist_batch(ck, harness, model)
    run_probh_batch(ck, harness, model)
    if ck.thorough and not ck.replay_path:
        run_fuzzer(ck, harness, [c["line"] for c in cases[:600]], 150)
    import os
    if os.environ.get("VV_DEBUG"):
        for d in ck.diffs[:int(os.environ["VV_DEBUG"])]:
            vv.log("DIFF", d["case"]["line"][:300], "\n   M:", d["model"][:400], "\n   H:", d["impl"][:400])
        for v in ck.violations[:int(os.environ["VV_DEBUG"])]:
            vv.log("VIOL", v["key"], v["what"][:300], v["replay"]["line"][:200])
    return ck.finish(
        rule="the 2-line witnesses of Refuted_C10.v and hand-made corner files first; then seeded malformed CSV (ragged rows, rows "
             "shorter than the output index, raw unbalanced quotes, empty files/lines, binary bytes, huge/denormal numbers, text in "
             "numeric columns, every delimiter/header/output-index/trim/filter setting incl. a record-shrinking filter), malformed "
             "XRFF (ragged instances, several/no class attributes, unknown types, truncated / corrupted / structurally damaged XML) "
             "and the same CSV through src_problem + the generated variables; then the same kinds of files written to a scratch directory and read BY FILE NAME (dataframe::read / read_csv(path) / read_xrff(path) / src_problem(path)) with the number of open descriptors compared before/after every call and LeakSanitizer at exit; every case is non-trivial; distinct = distinct input "
             "text and parameters")
