"""C18 -- Fitness comparison is a coherent order; dominance is a strict partial order.

proof:  coq/Props/Properties_C18.v about coq/Fitness/FitnessDefs.v (hand-written
        model of src/kernel/fitness.tcc and model_measurements.h); the order laws
        go through an order embedding of the non-NaN doubles into Z
        (coq/Fitness/F64Order.v).
tie:    correspondence: harness h_fitness (real operators, ASan/UBSan) against
        the extracted model on all ordered pairs of a pool of bit-pattern
        vectors (+-0, +-inf, denormals, equal prefixes, lengths 0..5) plus
        seeded random pairs; every output compared bit for bit.
search: the oracle restates the property and is evaluated on the
        implementation's answers only: python's own lexicographic comparison
        of float lists, the operator identities, trichotomy, transitivity over
        ALL triples of the pool, the dominance laws over each equal-length
        family plus the empty fitness, order-independence of the selected
        maximum, and the scalar IEEE definitions of the arithmetic.
"""
import itertools
import json
import math
import struct

import os
import sys

import vv
import prims_common as pc

sys.path.insert(0, os.path.join(vv.VERIF, "translate"))
import fitness_ops

NAN = "7ff8000000000000"
FIELDS = ["lt", "eq", "gt", "ge", "le", "ne", "dom", "mm", "nanA", "finA", "plus", "minus", "times",
          "divs", "muls", "abs", "sqrt", "round", "dist", "comb", "small", "nonneg", "ae", "aes"]


# ------------------------------------------------------------ doubles as bits
def d2h(x):
    if x != x:
        return NAN
    return "%016x" % struct.unpack(">Q", struct.pack(">d", x))[0]


def h2d(h):
    return struct.unpack(">d", struct.pack(">Q", int(h, 16)))[0]


def is_nan_h(h):
    v = int(h, 16)
    return (v >> 52) & 0x7ff == 0x7ff and v & ((1 << 52) - 1) != 0


P0, N0 = "0000000000000000", "8000000000000000"
PINF, NINF = "7ff0000000000000", "fff0000000000000"
DMIN, NDMIN = "0000000000000001", "8000000000000001"
DMAX = "000fffffffffffff"
NMIN, NNMIN = "0010000000000000", "8010000000000000"
ONE, NONE_ = "3ff0000000000000", "bff0000000000000"
ONEP, ONEM = "3ff0000000000001", "3fefffffffffffff"
TWO, NTWO = "4000000000000000", "c000000000000000"
FMAX, NFMAX = "7fefffffffffffff", "ffefffffffffffff"
EPS4 = "3f1a36e2eb1c432d"
HALF = "3fe0000000000000"
V25, NV25 = "4004000000000000", "c004000000000000"
THIRD = "3fd5555555555555"
TENK = "40c3880000000000"
BIG53 = "433fffffffffffff"
THREE, FOUR, FIVE, SIX = "4008000000000000", "4010000000000000", "4014000000000000", "4018000000000000"
ROUND_EDGE = ["3f0a36e2eb1c432d",      # 0.00005  (half of the rounding step)
              "3fdfffffffffffff",      # 0.49999999999999994
              "bfdfffffffffffff", "3f2a36e2eb1c432d", "bf1a36e2eb1c432d", "4059000000000001"]
SMALL_EDGE = ["3cc0000000000000", "3cbfffffffffffff", "bcc0000000000000", "3cb0000000000000",   # +-2^-51, below, 2^-52
              "3ff0000a7c5ac472", "3ff0000a7c5ac473",                                          # 1 + 1e-5, next
              "3ee4f8b588e368f1"]                                                                # 0.00001
SCALARS = SMALL_EDGE + [P0, N0, PINF, NINF, DMIN, NDMIN, DMAX, NMIN, NNMIN, ONE, NONE_, ONEP, ONEM, TWO, NTWO, FMAX, NFMAX,
           EPS4, HALF, V25, NV25, THIRD, TENK, BIG53, THREE, FOUR, FIVE] + ROUND_EDGE
ACCS = [NONE_, N0, P0, HALF, ONE, ONEM, "3fd0000000000000"]

FIXED_POOL = [
    [],
    [P0], [N0], [PINF], [NINF], [ONE], [NONE_], [DMIN], [NDMIN], [FMAX], [ONEP], [TWO],
    [ONE, TWO], [ONE, N0], [ONE, P0], [ONE, PINF], [ONE, NINF], [P0, ONE], [N0, ONE], [N0, N0], [P0, P0],
    [TWO, ONE], [ONE, ONE], [DMIN, P0], [ONEP, NINF], [P0, NDMIN], [TWO, TWO],
    [ONE, TWO, THREE], [ONE, TWO, P0], [ONE, TWO, N0], [ONE, TWO, FOUR], [P0, P0, P0], [N0, P0, N0],
    [ONE, THREE, P0], [TWO, TWO, TWO], [ONE, TWO, NINF], [PINF, NINF, P0], [TWO, TWO, THREE], [TWO, THREE, TWO],
    [ONE, TWO, THREE, FOUR], [ONE, TWO, THREE, FIVE], [ONE, TWO, THREE, N0], [N0, N0, N0, N0], [P0, P0, P0, P0],
    [ONE, TWO, THREE, FOUR, FIVE], [ONE, TWO, THREE, FOUR, SIX], [ONE, TWO, THREE, FOUR, NINF],
    [P0, P0, P0, P0, ONE], [N0, P0, N0, P0, ONE],
    ["3cc0000000000000"], ["3cbfffffffffffff"], ["3ff0000a7c5ac472"], ["3ff0000a7c5ac473"],
    [ONE, "3cbfffffffffffff"], ["3ff0000a7c5ac472", N0],
]


# ---- reductions (distance = left-to-right sum of |a_i - b_i|): vectors of 4..10 components whose differences have
# very different magnitudes, so that the left fold differs from every other association / order of the sum
U53, B53 = "3ca0000000000000", "4340000000000000"          # 2^-53, 2^53
REDUCTION_POOL = [
    [ONE, U53, U53, U53], [B53, ONE, ONE, ONE], [U53, U53, U53, U53, ONE], [P0, P0, P0, P0, P0],
    [ONE] + [U53] * 7, [P0] * 8, [B53, ONE, ONE, ONE, ONE, ONE, ONE, ONE],
]


def reduction_case(rng):
    n = rng.randint(4, 10)
    big = rng.choice([1.0, 2.0 ** 53, 1e16, 3.0, 2.0 ** 60, 0.1])
    ulp = big * 2.0 ** -53
    kind = rng.random()
    if kind < 0.35:        # one big term followed/preceded by half-ulps of it
        d = [big] + [ulp * rng.choice([1.0, 1.0, 0.5, 1.5])] * (n - 1)
    elif kind < 0.6:       # a big term at a random position among small ones
        d = [ulp * rng.choice([1.0, 0.75, 1.25]) for _ in range(n)]
        d[rng.randrange(n)] = big
    elif kind < 0.8:       # geometric magnitudes
        d = [big * 2.0 ** (-rng.randint(0, 60)) for _ in range(n)]
    else:                  # arbitrary positive doubles of mixed exponents
        d = [rng.random() * 2.0 ** rng.randint(-60, 60) for _ in range(n)]
    if rng.random() < 0.5:
        rng.shuffle(d)
    # a - b = +-d: choose b, then a = b + d when that is exact enough; the plain (d, 0) pair always is
    if rng.random() < 0.6:
        a = [x * rng.choice([1.0, -1.0]) for x in d]
        b = [0.0 * rng.choice([1.0, -1.0]) for _ in d]
    else:
        b = [rng.choice([0.0, 1.0, -2.0, big]) for _ in d]
        a = [y + x for x, y in zip(d, b)]
    if rng.random() < 0.5:
        a, b = b, a
    return [d2h(x) for x in a], [d2h(x) for x in b]


def sum_order_sensitive(c):
    """does some other order/grouping of the terms |a_i - b_i| give another double than the left fold?"""
    if len(c["a"]) != len(c["b"]) or len(c["a"]) < 3:
        return False
    t = [abs(h2d(x) - h2d(y)) for x, y in zip(c["a"], c["b"])]
    left = 0.0
    for x in t:
        left += x
    right = 0.0
    for x in reversed(t):
        right += x
    pair = 0.0
    i = 0
    while i + 3 < len(t):
        pair += (t[i] + t[i + 1]) + (t[i + 2] + t[i + 3])
        i += 4
    for x in t[i:]:
        pair += x
    return d2h(left) != d2h(right) or d2h(left) != d2h(pair)


def rand_scalar(rng):
    r = rng.random()
    if r < 0.7:
        return rng.choice(SCALARS)
    while True:
        h = "%016x" % rng.getrandbits(64)
        if not is_nan_h(h):
            return h


def rand_vec(rng, n=None):
    if n is None:
        n = rng.choice([0, 1, 1, 2, 2, 2, 3, 3, 4, 5])
    return [rand_scalar(rng) for _ in range(n)]


def mutate(rng, a):
    """a vector related to a: equal prefix, then a change"""
    b = list(a)
    r = rng.random()
    if r < 0.25 and b:
        i = rng.randrange(len(b))
        b[i] = rand_scalar(rng)
    elif r < 0.4 and b:
        i = rng.randrange(len(b))
        b[i] = {P0: N0, N0: P0}.get(b[i], b[i])
    elif r < 0.55 and b:
        b = b[:rng.randrange(len(b))]
    elif r < 0.7 and len(b) < 5:
        b = b + rand_vec(rng, rng.randint(1, 5 - len(b)))
    elif r < 0.78 and b:
        # relative nudge around the almost_equal tolerance (1e-5) / absolute around issmall (2^-51)
        i = rng.randrange(len(b))
        x = h2d(b[i])
        if math.isfinite(x):
            if rng.random() < 0.7:
                y = x * (1.0 + rng.choice([-1, 1]) * rng.choice([0.99999e-5, 1e-5, 1.00001e-5, 0.5e-5, 2e-5, 1e-9]))
            else:
                y = x + rng.choice([-1, 1]) * rng.choice([2.0 ** -51, 2.0 ** -51 * (1 - 2.0 ** -53), 2.0 ** -52, 2.0 ** -50])
            if y == y:
                b[i] = d2h(y)
    elif r < 0.85 and b:
        # neighbouring bit pattern
        i = rng.randrange(len(b))
        v = int(b[i], 16) + rng.choice([-1, 1])
        h = "%016x" % (v % (1 << 64))
        if not is_nan_h(h):
            b[i] = h
    return b


def show_vec(v):
    return ",".join(v) if v else "-"


def parse_vec(t):
    return [] if t == "-" else t.split(",")


def case_line(c):
    return "%s %s %s %s %s" % (show_vec(c["a"]), show_vec(c["b"]), c["s"], c["acca"], c["accb"])


def mk_case(rng, a, b):
    return {"a": a, "b": b, "s": rng.choice(SCALARS), "acca": rng.choice(ACCS), "accb": rng.choice(ACCS)}


def parse_out(line):
    if line is None:
        return None
    w = line.split()
    if len(w) != len(FIELDS):
        return None
    return dict(zip(FIELDS, w))


# ------------------------------------------------- scalar IEEE definitions
def f_div(x, y):
    try:
        return x / y
    except ZeroDivisionError:
        if x != x or x == 0.0:
            return float("nan")
        neg = (math.copysign(1.0, x) < 0) != (math.copysign(1.0, y) < 0)
        return -math.inf if neg else math.inf


def f_sqrt(x):
    if x != x or x < 0:
        return float("nan")
    return math.sqrt(x)          # sqrt(-0.0) = -0.0, sqrt(inf) = inf


def f_round(x):
    """C round(): to nearest integer, halfway cases away from zero"""
    if x != x or math.isinf(x) or abs(x) >= 2.0 ** 52:
        return x
    t = float(math.trunc(x))
    if abs(x - t) >= 0.5:        # exact: x - trunc(x) is representable
        t += math.copysign(1.0, x)
    return math.copysign(t, x)   # keeps the sign of zero


def f_round_to(x):
    return f_round(f_div(x, 0.0001)) * 0.0001


def f_issmall(x):
    return abs(x) < 2.0 ** -51


def f_almost_equal(v1, v2, e=0.00001):
    diff = abs(v1 - v2)
    if f_issmall(diff):
        return True
    a1, a2 = abs(v1), abs(v2)
    largest = a2 if a1 < a2 else a1          # std::max
    return diff <= largest * e


def vec_h(xs):
    return show_vec([d2h(x) for x in xs])


def pareto(a, b):
    """documented dominance for equal lengths / the empty fitness"""
    if not a:
        return False
    if not b:
        return True
    return all(x >= y for x, y in zip(a, b)) and any(x > y for x, y in zip(a, b))


def oracle_pair(c, o):
    """the property evaluated on the implementation's answers for one pair;
    returns [(key, what)]"""
    bad = []
    a = [h2d(h) for h in c["a"]]
    b = [h2d(h) for h in c["b"]]
    lt, eq, gt, ge, le, ne, dom = (o[k] == "1" for k in ("lt", "eq", "gt", "ge", "le", "ne", "dom"))

    def chk(cond, key, what):
        if not cond:
            bad.append((key, what))
    chk(lt == (a < b), "lt:not-lexicographic", "a<b is %s, lexicographic order says %s" % (lt, a < b))
    chk(gt == (a > b), "gt:not-lexicographic", "a>b is %s, lexicographic order says %s" % (gt, a > b))
    chk(eq == (a == b), "eq:wrong", "a==b is %s, component-wise equality says %s" % (eq, a == b))
    chk(lt + eq + gt == 1, "trichotomy", "not exactly one of a<b, a==b, a>b: %s %s %s" % (lt, eq, gt))
    chk(ge == (not lt), "ge:not-negation-of-lt", "a>=b is %s but a<b is %s" % (ge, lt))
    chk(le == (not gt), "le:not-negation-of-gt", "a<=b is %s but a>b is %s" % (le, gt))
    chk(ne == (not eq), "ne:not-negation-of-eq", "a!=b is %s but a==b is %s" % (ne, eq))
    if len(a) == len(b) or not a or not b:
        chk(dom == pareto(a, b), "dominating:not-pareto",
            "dominating(a,b) is %s, Pareto dominance says %s" % (dom, pareto(a, b)))
    chk(not dom or gt, "dominating:not-implies-gt", "dominating(a,b) holds but a>b does not")
    acca, accb = h2d(c["acca"]), h2d(c["accb"])
    if o["mm"] != "X":
        chk((o["mm"] == "1") == (dom and acca >= accb), "model_measurements:ge",
            "model_measurements >= is %s, dominating=%s accuracies %r %r" % (o["mm"], dom, acca, accb))
    chk(o["nanA"] == "0" and (o["finA"] == "1") == all(math.isfinite(x) for x in a), "isnan/isfinite",
        "isnan=%s isfinite=%s" % (o["nanA"], o["finA"]))
    s = h2d(c["s"])
    if len(a) <= len(b):
        chk(o["plus"] == vec_h([x + y for x, y in zip(a, b)]), "plus:not-elementwise", "a+b = %s" % o["plus"])
        chk(o["minus"] == vec_h([x - y for x, y in zip(a, b)]), "minus:not-elementwise", "a-b = %s" % o["minus"])
        chk(o["times"] == vec_h([x * y for x, y in zip(a, b)]), "times:not-elementwise", "a*b = %s" % o["times"])
    chk(o["divs"] == vec_h([f_div(x, s) for x in a]), "div_scalar:not-elementwise", "a/s = %s" % o["divs"])
    chk(o["muls"] == vec_h([x * s for x in a]), "mul_scalar:not-elementwise", "a*s = %s" % o["muls"])
    chk(o["abs"] == vec_h([abs(x) for x in a]), "abs:not-elementwise", "abs(a) = %s" % o["abs"])
    chk(o["sqrt"] == vec_h([f_sqrt(x) for x in a]), "sqrt:not-elementwise", "sqrt(a) = %s" % o["sqrt"])
    chk(o["round"] == vec_h([f_round_to(x) for x in a]), "round_to:not-elementwise", "round_to(a) = %s" % o["round"])
    if len(a) == len(b):
        d = 0.0
        for x, y in zip(a, b):
            d = d + abs(x - y)
        chk(o["dist"] == d2h(d), "distance:not-sum-of-abs", "distance(a,b) = %s, sum |a_i-b_i| = %s" % (o["dist"], d2h(d)))
    chk(o["comb"] == show_vec(c["a"] + c["b"]), "combine:not-concatenation", "combine(a,b) = %s" % o["comb"])
    chk((o["small"] == "1") == all(f_issmall(x) for x in a), "issmall:not-elementwise", "issmall(a) = %s" % o["small"])
    chk((o["nonneg"] == "1") == all(x >= 0 for x in a), "isnonnegative:not-elementwise",
        "isnonnegative(a) = %s" % o["nonneg"])
    if len(a) == len(b):
        want = all(f_almost_equal(x, y) for x, y in zip(a, b))
        chk((o["ae"] == "1") == want, "almost_equal:not-elementwise",
            "almost_equal(a,b) = %s, scalar definition on every component says %s" % (o["ae"], want))
        want = all(f_almost_equal(x, y, s) for x, y in zip(a, b))
        chk((o["aes"] == "1") == want, "almost_equal:not-elementwise",
            "almost_equal(a,b,s) = %s, scalar definition on every component says %s" % (o["aes"], want))
    return bad


def oracle_table(pool, T, rng):
    """order laws over all pairs/triples of the pool, on the implementation's
    answers T[i][j] (dict of booleans).  returns [(key, what, vectors)]"""
    bad = []
    n = len(pool)
    R = range(n)
    for i in R:
        if T[i][i]["lt"]:
            bad.append(("lt:reflexive", "a<a holds", [pool[i]]))
        if not T[i][i]["eq"]:
            bad.append(("eq:not-reflexive", "a==a fails", [pool[i]]))
        if T[i][i]["dom"]:
            bad.append(("dominating:reflexive", "dominating(a,a) holds", [pool[i]]))
    for i in R:
        for j in R:
            if T[i][j]["gt"] != T[j][i]["lt"]:
                bad.append(("gt:not-flipped-lt", "a>b differs from b<a", [pool[i], pool[j]]))
            if T[i][j]["eq"] != T[j][i]["eq"]:
                bad.append(("eq:not-symmetric", "a==b differs from b==a", [pool[i], pool[j]]))
            if T[i][j]["dom"] and T[j][i]["dom"]:
                bad.append(("dominating:not-asymmetric", "a dominates b and b dominates a", [pool[i], pool[j]]))
            if pool[i] and not pool[j] and not T[i][j]["dom"]:
                bad.append(("dominating:empty", "a non-empty fitness does not dominate the empty one", [pool[i], pool[j]]))
    lt = [[T[i][j]["lt"] for j in R] for i in R]
    eq = [[T[i][j]["eq"] for j in R] for i in R]
    dom = [[T[i][j]["dom"] for j in R] for i in R]
    ln = [len(v) for v in pool]
    for i in R:
        for j in R:
            lij, eij, dij = lt[i][j], eq[i][j], dom[i][j]
            if not (lij or eij or dij):
                continue
            for k in R:
                if lij and lt[j][k] and not lt[i][k]:
                    bad.append(("lt:not-transitive", "a<b, b<c but not a<c", [pool[i], pool[j], pool[k]]))
                if eij and eq[j][k] and not eq[i][k]:
                    bad.append(("eq:not-transitive", "a==b, b==c but not a==c", [pool[i], pool[j], pool[k]]))
                if eij and lt[i][k] != lt[j][k]:
                    bad.append(("lt:not-compatible-with-eq", "a==b but a<c differs from b<c", [pool[i], pool[j], pool[k]]))
                if dij and dom[j][k] and not dom[i][k]:
                    fam = {x for x in (ln[i], ln[j], ln[k]) if x}
                    if len(fam) <= 1:
                        bad.append(("dominating:not-transitive", "a dom b, b dom c but not a dom c",
                                    [pool[i], pool[j], pool[k]]))
    # order independence of the selected maximum, using the implementation's >
    for _ in range(200):
        k = rng.randint(1, min(8, n))
        idx = [rng.randrange(n) for _ in range(k)]
        perm = list(idx)
        rng.shuffle(perm)

        def best(seq):
            m = seq[0]
            for y in seq[1:]:
                if T[y][m]["gt"]:
                    m = y
            return m
        m1, m2 = best(idx), best(perm)
        if not T[m1][m2]["eq"]:
            bad.append(("max:depends-on-order", "selection of the best yields different winners for two orders",
                        [pool[i] for i in idx]))
    return bad


# ---- the witnesses of coq/Props/Refuted_C18.v, replayed on the implementation:
# (a, b, {field: value the theorem states})
M_ONE, D5 = "bff0000000000000", "4014000000000000"
Y1, Z1 = "3ff0000a7c5ac472", "3ff00014f8b588e3"      # 1.00001, 1.00002
WITNESSES = [
    ("trichotomy_with_nan", [NAN], [ONE], {"lt": "0", "eq": "0", "gt": "0", "ge": "1", "le": "1"}),
    ("eq_reflexive_with_nan", [ONE, NAN], [ONE, NAN], {"eq": "0", "ne": "1"}),
    ("lt_trans_with_nan/ab", [ONE, P0], [NAN, ONE], {"lt": "1"}),
    ("lt_trans_with_nan/bc", [NAN, ONE], [P0, TWO], {"lt": "1"}),
    ("lt_trans_with_nan/ac", [ONE, P0], [P0, TWO], {"lt": "0"}),
    ("max_order_with_nan/1", [NAN], [ONE], {"gt": "0", "eq": "0"}),
    ("max_order_with_nan/2", [ONE], [NAN], {"gt": "0", "eq": "0"}),
    ("dom_trans_with_nan/ab", [ONE, ONE], [NAN, P0], {"dom": "1"}),
    ("dom_trans_with_nan/bc", [NAN, P0], [D5, M_ONE], {"dom": "1"}),
    ("dom_trans_with_nan/ac", [ONE, ONE], [D5, M_ONE], {"dom": "0"}),
    ("dom_trans_mixed_lengths/ab", [TWO, P0], [ONE], {"dom": "1"}),
    ("dom_trans_mixed_lengths/bc", [ONE], [P0, THREE], {"dom": "1"}),
    ("dom_trans_mixed_lengths/ac", [TWO, P0], [P0, THREE], {"dom": "0"}),
    ("almost_equal_trans/xy", [ONE], [Y1], {"ae": "1"}),
    ("almost_equal_trans/yz", [Y1], [Z1], {"ae": "1"}),
    ("almost_equal_trans/xz", [ONE], [Z1], {"ae": "0"}),
    ("almost_equal_refl_infinity", [PINF], [PINF], {"ae": "0"}),
]


def replay_witnesses(ck, harness, model):
    """every witness of Refuted_C18.v on the real operators: full-line correspondence with the model (these are
    the only cases with NaN inputs) and the value each theorem states"""
    cases = [{"a": a, "b": b, "s": ONE, "acca": P0, "accb": P0} for _, a, b, _ in WITNESSES]
    hout, mout, _ = run_cases(harness, model, cases)
    ok = 0
    for (name, a, b, want), c, ho, mo in zip(WITNESSES, cases, hout, mout):
        ck.count()
        o = parse_out(ho)
        if o is None:
            ck.add_violation("fitness:undefined-behaviour", "witness %s aborts" % name, {"cases": [c], "impl": ho})
            continue
        if ho != mo:
            ck.add_diff({"witness": name, "case": case_line(c), "fields": FIELDS}, mo, ho)
        if all(o[k] == v for k, v in want.items()):
            ok += 1
        else:
            ck.notes.append("witness %s of Refuted_C18.v does not reproduce on the implementation: %s" % (name, ho))
    ck.coverage["refuted_witnesses_reproduced_on_implementation"] = "%d/%d" % (ok, len(WITNESSES))


# --------------------------------------------------------------- running
def run_cases(harness, model, cases):
    lines = [case_line(c) for c in cases]
    hout, crashes = pc.run_harness_resilient(harness, lines)
    rc, mout, merr = vv.run_lines(model, "\n".join(lines) + "\n")
    if rc != 0 or len(mout) != len(cases):
        raise vv.BuildError("model driver failed: rc=%s %s" % (rc, merr[:500]))
    return hout, mout, crashes


def shrink(harness, c, key):
    """drop components while the same oracle key keeps failing on the implementation"""
    cur = c
    for _ in range(12):
        cands = []
        la, lb = len(cur["a"]), len(cur["b"])
        for i in range(max(la, lb)):
            a2 = cur["a"][:i] + cur["a"][i + 1:]
            b2 = cur["b"][:i] + cur["b"][i + 1:]
            cands.append(dict(cur, a=a2, b=b2))
        for cand in cands:
            out, _ = pc.run_harness_resilient(harness, [case_line(cand)])
            o = parse_out(out[0])
            if o and any(k == key for k, _ in oracle_pair(cand, o)):
                cur = cand
                break
        else:
            break
    return cur


def _build(fn, *a):
    """the source snapshots under .build are garbage-collected (keep=3) by concurrently running checks of
    other worktrees; a snapshot vanishing mid-compile shows up as a missing header.
    Retry that (and only that) case; a header really missing from the tree fails again and propagates."""
    for attempt in range(3):
        try:
            return fn(*a)
        except vv.BuildError as e:
            if attempt == 2 or "No such file or directory" not in str(e):
                raise
            vv.log("snapshot vanished during the build (concurrent gc); retrying")


def regen(snap):
    """coq/Gen/FitnessOps.v from the snapshot's fitness.tcc / model_measurements.h / utility.h"""
    text, problems = fitness_ops.generate(snap)
    if problems:
        # outside the recognised subset: the last good description (checked in as gen/c18_FitnessOps.fallback.v)
        # serves as a hand-written model; never keep a file regenerated from some other tree
        with open(os.path.join(vv.VERIF, "gen", "c18_FitnessOps.fallback.v")) as f:
            fb = f.read()
        with vv.Lock("coq"):
            vv.write_if_changed(os.path.join(vv.COQ, "Gen", "FitnessOps.v"), fb)
        return False, problems
    with vv.Lock("coq"):
        vv.write_if_changed(os.path.join(vv.COQ, "Gen", "FitnessOps.v"), text)
    return True, []


def run(ck):
    L = _build(vv.build_lib, "asan")
    ok, problems = regen(L["snap"])
    ck.tie = "regenerated+correspondence" if ok else "correspondence"
    if not ok:
        ck.notes.append("translator: " + "; ".join(problems)[:600] +
                        " -- checked-in Gen/FitnessOps.v kept, tie = correspondence only")
    res = vv.prove("Properties_C18", vv.FLOCQ_AXIOMS)
    ck.add_proof(res)
    ck.add_proof(vv.prove("Refuted_C18", vv.FLOCQ_AXIOMS))
    if ck.thorough and not ck.replay_path:
        for pf in ("Properties_C18", "Refuted_C18"):
            ok_chk, axioms, tail = vv.coqchk(pf)
            ck.coverage.setdefault("coqchk", {})[pf] = {"ok": ok_chk, "axioms": axioms}
            if not ok_chk:
                ck.add_unshown("coqchk", pf, tail)
    ck.trusted += ["translate/fitness_ops.py (how fitness.tcc / model_measurements.h / utility.h derive each relational operator, "
                   "dominating, model_measurements >=, and which loop applies which per-element expression in the "
                   "arithmetic, lifts, distance, combine, scalar round_to) and coq/Fitness/FitnessSrc.v as the meaning of its output",
                   "coq/Base/F64.v: Flocq 4.1 BinarySingleNaN (prec 53, emax 1024, RNE) as the meaning of double; "
                   "std::round = Bnearbyint mode_NA, std::sqrt = Bsqrt, std::fabs/abs = Babs",
                   "hand-written model coq/Fitness/FitnessDefs.v (tied by correspondence only)",
                   "extraction: ExtrOcamlBasic only, no Extract Constant; ocaml/fitness_driver.ml + zutil.ml",
                   "harness/h_fitness.cc canonical printing (all NaNs print alike); g++ 12 ASan/UBSan",
                   "python float arithmetic (hardware binary64) in the oracle of the element-wise operations"]
    ck.assumptions += ["components are not NaN (vita::isnan(f) is false): the order laws are stated, proved and checked "
                       "for non-NaN vectors only, as in the property",
                       "Expects contracts: operator+=,-=,*= need rhs at least as long as lhs, distance equal sizes, "
                       "model_measurements accuracy <= 1; outside them the model returns None and the harness does not call"]
    harness = _build(vv.build_harness, "h_fitness")
    model = vv.ocaml_model("Fitness")
    rng = ck.rng

    if not ck.replay_path:
        replay_witnesses(ck, harness, model)

    pool = None
    if ck.replay_path:
        rp = json.load(open(ck.replay_path))
        cases = list(rp.get("cases", []))
        if rp.get("vectors"):
            pool = [list(v) for v in rp["vectors"]]
    else:
        pool = [list(v) for v in FIXED_POOL]
        target = 120 if ck.thorough else 60
        seen = {tuple(v) for v in pool}
        while len(pool) < target:
            v = mutate(rng, rng.choice(pool)) if rng.random() < 0.6 else rand_vec(rng)
            if tuple(v) not in seen and len(v) <= 5:
                seen.add(tuple(v))
                pool.append(v)
        cases = []
    npair = 0
    if pool is not None:
        for a in pool:
            for b in pool:
                cases.append(mk_case(rng, a, b))
        npair = len(pool) ** 2
    nsens = 0
    if not ck.replay_path:
        # the reductions: fixed magnitude patterns (all ordered pairs of equal length) + seeded ones
        for a in REDUCTION_POOL:
            for b in REDUCTION_POOL:
                if len(a) == len(b):
                    cases.append(mk_case(rng, a, b))
        for _ in range(8000 if ck.thorough else 800):
            a, b = reduction_case(rng)
            cases.append(mk_case(rng, a, b))
    if not ck.replay_path:
        nrand = 60000 if ck.thorough else 4000
        for _ in range(nrand):
            a = rand_vec(rng)
            b = mutate(rng, a) if rng.random() < 0.6 else rand_vec(rng)
            if rng.random() < 0.5:
                a, b = b, a
            cases.append(mk_case(rng, a, b))

    hout, mout, crashes = run_cases(harness, model, cases)
    hist = {}
    parsed = []
    shrunk_keys = set()
    for k, c in enumerate(cases):
        ck.count()
        shape = "%d/%d" % (len(c["a"]), len(c["b"]))
        hist[shape] = hist.get(shape, 0) + 1
        ho, mo = hout[k], mout[k]
        special = any(h in (P0, N0, PINF, NINF) or int(h, 16) & 0x7ff0000000000000 == 0 for h in c["a"] + c["b"])
        common = 0
        for x, y in zip(c["a"], c["b"]):
            if h2d(x) != h2d(y):
                break
            common += 1
        if special or common > 0 or len(c["a"]) != len(c["b"]):
            ck.nontriv((tuple(c["a"]), tuple(c["b"])))
        if len(c["a"]) >= 4 and sum_order_sensitive(c):
            nsens += 1
            ck.nontriv((tuple(c["a"]), tuple(c["b"])))
        if k < 2 or k % (len(cases) // 4 + 1) == 0:
            ck.sample({"case": case_line(c), "impl": ho, "model": mo})
        o = parse_out(ho)
        parsed.append(o)
        if ho is None or ho.startswith("CRASH") or o is None:
            ck.add_violation("fitness:undefined-behaviour",
                             "fitness operators on (%s ; %s) abort (sanitizer report / crash)" % (show_vec(c["a"]), show_vec(c["b"])),
                             {"cases": [c], "impl": ho, "model": mo, "sanitizer": crashes.get(k, "")[-1500:]})
            continue
        for key, what in oracle_pair(c, o):
            if key in shrunk_keys:
                continue            # one minimal replay per failing law
            shrunk_keys.add(key)
            small = shrink(harness, c, key)
            ck.add_violation(key, "a=(%s) b=(%s): %s" % (show_vec(small["a"]), show_vec(small["b"]), what),
                             {"cases": [small], "original": c, "impl": ho, "model": mo, "oracle": what})
        if ho != mo:
            ck.add_diff({"case": case_line(c), "fields": FIELDS}, mo, ho)

    if pool is not None and all(o is not None for o in parsed[:npair]):
        n = len(pool)
        T = [[{f: parsed[i * n + j][f] == "1" for f in ("lt", "eq", "gt", "dom")} for j in range(n)] for i in range(n)]
        seen_keys = set()
        for key, what, vecs in oracle_table(pool, T, rng):
            if key in seen_keys:
                continue
            seen_keys.add(key)
            ck.add_violation(key, "%s for %s" % (what, " ; ".join("(%s)" % show_vec(v) for v in vecs)),
                             {"vectors": vecs, "oracle": what})
        ck.coverage["pool_vectors"] = n
        ck.coverage["pool_pairs_exhaustive"] = n * n
        ck.coverage["pool_triples_judged"] = n ** 3
        ck.coverage["pool_by_length"] = {str(l): sum(1 for v in pool if len(v) == l) for l in range(6)}
    ck.coverage["shape_histogram(len a/len b)"] = hist
    ck.coverage["distance_cases_sensitive_to_summation_order"] = nsens
    return ck.finish(
        rule="all ordered pairs of a pool of bit-pattern vectors (fixed part: +-0, +-inf, denormals, extremes, equal "
             "prefixes, lengths 0..5; the rest seeded mutations) run through the real operators and the extracted model, "
             "all triples of the pool judged by the oracle on the implementation's answers, plus seeded random pairs "
             "(60% related by a mutation: changed component, +-0 swap, proper prefix, extension, neighbouring bit pattern); "
             "non-trivial = a pair with a zero/infinity/denormal component, a common prefix or different lengths; "
             "distinct = distinct (a, b); plus a reduction stream: vectors of 4..10 components whose differences have very "
             "different magnitudes (a big term among half-ulps of it, geometric magnitudes, mixed exponents), counted "
             "non-trivial when another order or grouping of the sum of |a_i-b_i| gives another double than the left fold")
