"""C07 -- Same seed, same run.

proof:  coq/Props/Properties_C07.v (+ Refuted_C07.v) about coq/Rng/RngDefs.v, the
        hand-written model of src/utility/xoshiro256ss.{h,cc} and
        vita::random::seed: splitmix64, seeding, xoshiro256** operator(), the
        decimal text codec and operator<< / operator>> of the engine.
tie:    correspondence -- harness h_rng (real engine, ASan/UBSan) vs the
        extracted model, bit-exact output streams for boundary and random
        seeds/states, save/load at random points, malformed streams.
oracle: (judges the implementation's outputs, never the model's)
        * reloaded engine continues with the same sequence as the original,
          text after the state is left in the stream;
        * load(save(s)) = s; save(s) is the four decimal numbers;
        * the same seed gives the same outputs whatever the engine did before;
        * sanitizer reports.
testing (labelled, NOT proof): whole-run determinism -- the same search is
        executed twice in separate processes with different environment size,
        MALLOC_PERTURB_ / ASan malloc fill pattern and ASLR; the transcripts
        (every H1 draw, every after_generation population dump, best,
        summary without wall-clock fields) must be byte-identical.  Two more
        legs: TIMING (the same run held up for 2.3 s of wall-clock must not
        change anything) and IN-PROCESS (the same seed executed repeatedly in
        one process with the problem / symbol set built afresh, also after
        unrelated symbols were created: hidden static state).
"""
import json
import os
import re
import subprocess

import vv
import prims_common as pc

M64 = 2 ** 64
DEF_SEED = 0xcced1fc561884152


def h(x):
    return "%016x" % x


def hx(b):
    return b.hex() if b else "-"


def unhx(s):
    return b"" if s == "-" else bytes.fromhex(s)


# ----------------------------------------------------------------- generators
def boundary_words(rng, n):
    vs = [0, 1, 2, 9, 10, 11, 99, 100, 2 ** 31, 2 ** 32 - 1, 2 ** 32, 2 ** 63 - 1, 2 ** 63, M64 - 2, M64 - 1,
          10 ** 19, 10 ** 19 - 1, 10 ** 18, DEF_SEED, 0x61C8864680B583EB]
    vs += [1 << k for k in range(0, 64, 7)]
    while len(vs) < n:
        r = rng.random()
        if r < 0.5:
            vs.append(rng.getrandbits(64))
        elif r < 0.75:
            vs.append(rng.getrandbits(rng.randint(1, 64)))
        else:
            vs.append(10 ** rng.randint(0, 19) + rng.randint(-1, 1))
    return [v % M64 for v in vs[:n]]


def rand_state(rng):
    r = rng.random()
    if r < 0.1:
        return [rng.choice([0, 1, M64 - 1, 2 ** 63]) for _ in range(4)]
    if r < 0.2:
        return [rng.getrandbits(rng.randint(1, 64)) for _ in range(4)]
    return [rng.getrandbits(64) for _ in range(4)]


RESTS_OK = [b"", b"\n", b" ", b" x", b",7", b"a1", b"\n12 13", b"-5", b"+", b"\t\n", b".5", b"\x00", b"\xff9"]


def gen_cases(ck):
    rng = ck.rng
    T = 6 if ck.thorough else 1
    cases = []      # (line, meta)
    seeds = [0, 1, 2, 2 ** 32 - 1, 2 ** 32, M64 - 1, DEF_SEED, 0x61C8864680B583EB] + \
            [rng.getrandbits(64) for _ in range(12 * T)] + [rng.getrandbits(32) for _ in range(6 * T)]
    # A. output streams from seeds
    for s in seeds:
        for n in (0, 1, 5, rng.randint(6, 80)):
            cases.append(("seq %s %d" % (h(s), n), {"t": "seq", "seed": s, "n": n}))
    cases.append(("seq %s %d" % (h(1), 3000 * T), {"t": "seq", "seed": 1, "n": 3000 * T}))
    # B. arbitrary states (the theorems hold for every 64-bit state)
    sts = [[0, 0, 0, 0], [M64 - 1] * 4, [1, 0, 0, 0], [0, 1, 0, 0], [0, 0, 1, 0], [0, 0, 0, 1],
           [0, 0, 0, M64 - 1], [2 ** 63, 2 ** 63, 2 ** 63, 2 ** 63]] + [rand_state(rng) for _ in range(40 * T)]
    for st in sts:
        n = rng.choice([1, 2, 4, 7, 33])
        cases.append(("st %s %d" % (" ".join(map(h, st)), n), {"t": "st", "state": st, "n": n}))
    # C. vita::random::seed forgets the history: pairs with the same seed
    for s in [0, 1, 2 ** 32 - 1, 12345] + [rng.getrandbits(32) for _ in range(10 * T)]:
        n = rng.randint(3, 12)
        grp = "rseed-%d-%d" % (s, n)
        for _ in range(2):
            old, k = rng.getrandbits(64), rng.randint(0, 50)
            cases.append(("rseed %s %d %s %d" % (h(old), k, h(s), n), {"t": "rseed", "group": grp, "seed": s, "n": n}))
    # D. operator<<
    for st in sts:
        cases.append(("save " + " ".join(map(h, st)), {"t": "save", "state": st}))
    # E. operator>> on canonical text (decimal, any white space, leading zeros, '+') and on malformed streams
    for st in sts:
        old = rand_state(rng)
        sep = [rng.choice([b" ", b"\n", b"\t", b"  ", b" \r\n", b"\x0b", b"\x0c"]) for _ in range(3)]
        def num(v):
            r = rng.random()
            s = str(v).encode()
            if r < 0.1:
                return b"+" + s
            if r < 0.2:
                return b"00" + s
            return s
        lead = rng.choice([b"", b"", b" ", b"\n\n"])
        rest = rng.choice(RESTS_OK)
        txt = lead + num(st[0]) + sep[0] + num(st[1]) + sep[1] + num(st[2]) + sep[2] + num(st[3]) + rest
        cases.append(("load %s %s" % (" ".join(map(h, old)), hx(txt)),
                      {"t": "loadcanon", "state": st, "rest": rest, "text": txt.decode("latin1")}))
        # malformed variants of the same text
        for _ in range(2):
            b = bytearray(txt)
            r = rng.random()
            if r < 0.3 and len(b) > 1:
                b = b[:rng.randint(0, len(b) - 1)]
            elif r < 0.6 and b:
                b[rng.randrange(len(b))] = rng.choice(b"xX-+., \n9e")
            elif r < 0.8:
                p = rng.randrange(len(b) + 1)
                b[p:p] = rng.choice([b"-", b"18446744073709551616", b"99999999999999999999999", b"--", b"+-", b"0x10",
                                     b"-18446744073709551615", b"-0", b" - 1"])
            else:
                b = bytearray(rng.choice([b"", b" ", b"-", b"+", b"1", b"1 2", b"1 2 3", b"1 2 3 ", b"a", b"1 2 3 x",
                                          b"1 -2 3 4", b"1 2 3 -", b"18446744073709551616 2 3 4",
                                          b"1 2 3 18446744073709551616", b"1 2 3 18446744073709551615"]))
            cases.append(("load %s %s" % (" ".join(map(h, old)), hx(bytes(b))), {"t": "loadmal"}))
    # F. save at a random point, load into another engine, continue
    for i in range(60 * T):
        seed = rng.choice(seeds)
        k = rng.choice([0, 0, 1, 2, 3, 17, rng.randint(4, 400)])
        other = rng.choice(seeds)
        n = rng.choice([4, 5, 8, 16, 40])
        rest = rng.choice(RESTS_OK)
        cases.append(("reload %s %d %s %d %s" % (h(seed), k, h(other), n, hx(rest)),
                      {"t": "reload", "seed": seed, "k": k, "other": other, "n": n, "rest": rest}))
    # the same through one stream whose locale groups digits (writer and reader see the same stream settings)
    for i in range(12 * T):
        cases.append(("reloadfmt %s %d %s %d %d" % (h(rng.choice(seeds)), rng.choice([0, 1, 5, 100]), h(rng.choice(seeds)),
                                                    rng.choice([4, 8, 16]), i % 3), {"t": "reloadfmt"}))
    # negative control: a digit glued to the saved text (hypothesis of the theorem not met): model == impl only
    for i in range(4):
        cases.append(("reload %s %d %s 4 %s" % (h(rng.getrandbits(64)), i, h(5), hx(b"7")), {"t": "reload-glued"}))
    # G. the decimal codec alone
    for v in boundary_words(rng, 60 * T):
        cases.append(("showu " + h(v), {"t": "showu", "v": v}))
        cases.append(("readu " + hx(str(v).encode() + rng.choice(RESTS_OK)), {"t": "readu"}))
    for t in [b"", b" ", b"-", b"+", b"-1", b"-0", b"+0", b"18446744073709551615", b"18446744073709551616",
              b"-18446744073709551615", b"-18446744073709551616", b"000000000000000000000000000001", b"\t\n\x0b\x0c\r 5",
              b"\x1f5", b"99999999999999999999", b"1e5", b"0x1f", b"12 34", b"1,000", b"+ 1", b"- 1", b"\xd9\xa3",
              b"184467440737095516150", b"0", b"00", b"-00x"]:
        cases.append(("readu " + hx(t), {"t": "readu"}))
    # H. the distributions on top of the engine: vita::random::between / boolean predicted from the seed
    import struct

    def dhx(x):
        return "%016x" % struct.unpack("<Q", struct.pack("<d", x))[0]

    def sh(v):
        return ("-%x" % -v) if v < 0 else "%x" % v

    def rand_req():
        r = rng.random()
        if r < 0.55:
            k = rng.random()
            if k < 0.25:
                w = rng.choice([1, 2, 3, 5, 100, 256, 257, 1000])
            elif k < 0.5:
                w = 2 ** rng.randint(1, 63) + rng.randint(-1, 1)
            elif k < 0.7:
                w = rng.randint(2 ** 63, 2 ** 64 - 2)           # more than half of the generator's range: frequent rejections
            elif k < 0.8:
                w = rng.choice([2 ** 64 - 1, 2 ** 64 - 2, 2 ** 32 - 1, 2 ** 32, 2 ** 32 + 1, 2 ** 31 - 1])
            else:
                w = rng.randint(1, 2 ** rng.randint(1, 64) - 1)
            kind = rng.random()
            if w <= 2 ** 32 - 2 and kind < 0.4:
                lo = rng.randint(-2 ** 31, 2 ** 31 - 1 - w)       # int
            elif w <= 2 ** 63 and kind < 0.7:
                lo = rng.randint(-2 ** 63, 2 ** 63 - 1 - w)       # long long (hi <= 2^63 - 1)
            else:
                lo = rng.randint(0, 2 ** 64 - 1 - w)              # unsigned / size_t
            return "i:%s:%s" % (sh(lo), sh(lo + w))
        if r < 0.8:
            lo, hi = rng.choice([(-5.12, 5.12), (0.0, 1.0), (0.5, 1.0), (-1e308, 1e308), (0.0, 5e-324), (1e300, 1.5e300),
                                 (-1.0, 1e-20), (123.456, 123.45600000000002), (-1e-310, 1e-310),
                                 (rng.uniform(-100, 0), rng.uniform(0.001, 100))])
            return "r:%s:%s" % (dhx(lo), dhx(hi))
        if r < 0.97:
            return "b:" + dhx(rng.choice([0.0, 1.0, 0.5, 0.1, 0.04, 0.9, 0.9999999999999999, 5e-324, rng.random()]))
        if r < 0.99:
            n = rng.choice([2, 2, 3, 4, 7])
            ws = [rng.choice([1, 1, 5, 20, 100, 1000, rng.randint(1, 60)]) for _ in range(n)]
            if rng.random() < 0.2:
                ws[rng.randrange(n)] = 0            # an empty layer (the sum stays positive)
                if not any(ws):
                    ws[0] = 3
            return "d:" + ",".join(map(str, ws))
        return "s"
    for i in range(30 * T):
        seed = rng.choice([0, 1, 2 ** 32 - 1]) if i < 3 else rng.getrandbits(32)
        reqs = [rand_req() for _ in range(rng.choice([1, 10, 100, 300]))]
        cases.append(("draws %s %s" % (h(seed), " ".join(reqs)), {"t": "draws", "seed": seed, "n": len(reqs)}))
    # determinism inside the harness process: the same seq lines again, last
    dup = [c for c in cases if c[1]["t"] == "seq"][:10]
    for line, meta in reversed(dup):
        cases.append((line, dict(meta)))
    return cases


# ----------------------------------------------------------------- oracle
def judge(ck, cases, hout, mout, crashes):
    """the property evaluated on the implementation's outputs"""
    seen_seq = {}
    groups = {}
    hist = {}
    for k, (line, meta) in enumerate(cases):
        ck.count()
        t = meta["t"]
        hist[t] = hist.get(t, 0) + 1
        ho, mo = hout[k], mout[k]
        if k < 2 or (t in ("reload", "loadcanon") and hist[t] == 1):
            ck.sample({"case": line[:200], "impl": (ho or "")[:300], "model": (mo or "")[:300]})
        if ho is not None and ho.startswith("CRASH (too many restarts)"):
            hist["not-run-after-too-many-aborts"] = hist.get("not-run-after-too-many-aborts", 0) + 1
            continue
        if ho is None or ho.startswith("CRASH"):
            san = crashes.get(k, "")
            m = re.search(r"runtime error: [^\n]*|ERROR: AddressSanitizer: [^\n]*", san)
            ck.add_violation("%s:undefined-behaviour" % ("operator>>" if t.startswith(("load", "reload")) else t),
                             "%s executes undefined behaviour: %s" % (line.split()[0], m.group(0) if m else "sanitizer abort"),
                             {"cases": [line], "impl": ho, "model": mo, "sanitizer": san[-1500:]})
            continue
        if t == "reloadfmt":       # implementation only (the codec model has no digit grouping): judged by the oracle
            parts = ho.split(" | ")
            ck.nontriv(("reloadfmt", line))
            if not (ho.startswith("OK ") and len(parts) == 3 and parts[0][3:] == parts[1]):
                txt = bytes.fromhex(parts[2]).decode("latin1") if len(parts) == 3 and parts[2] != "-" else ""
                ck.add_violation("reload:stream-locale",
                                 "a state written to a stream whose locale groups digits (text %r) and read back from the SAME "
                                 "stream %s" % (txt, "fails to load" if ho.startswith("FAIL") else "continues with a different sequence"),
                                 {"cases": [line], "impl": ho[:600], "text": txt})
            continue
        if ho != mo:
            ck.add_diff({"line": line}, mo, ho)
        if t == "seq":
            ck.nontriv(("seq", meta["seed"], meta["n"]))
            prev = seen_seq.get(line)
            if prev is not None and prev != ho:
                ck.add_violation("seq:same-seed-different-outputs",
                                 "engine(%s) gave two different output sequences in the same process" % h(meta["seed"]),
                                 {"cases": [line, line], "first": prev, "second": ho})
            seen_seq[line] = ho
        elif t == "draws":
            ck.nontriv(("draws", meta["seed"], meta["n"]))
            ck.coverage["predicted_draws_unit"] = ck.coverage.get("predicted_draws_unit", 0) + meta["n"]
            for rq, an in zip(line.split()[2:], ho.split()):
                if rq.startswith("i:"):
                    lo, hi = [int(x, 16) for x in rq.split(":")[1:]]
                    v = int(an.split(":")[1], 16) if an.startswith("i:") else None
                    if v is None or not lo <= v < hi:
                        ck.add_violation("random::between:out-of-range",
                                         "vita::random::between(%d, %d) after seed %d returned %s" % (lo, hi, meta["seed"], an),
                                         {"cases": [line], "impl": ho[:400], "model": (mo or "")[:400]})
                        break
        elif t == "rseed":
            g = groups.setdefault(meta["group"], (line, ho))
            if g[1] != ho:
                ck.add_violation("random::seed:depends-on-history",
                                 "vita::random::seed(%d) followed by %d draws depends on what the engine did before"
                                 % (meta["seed"], meta["n"]),
                                 {"cases": [g[0], line], "first": g[1], "second": ho})
            ck.nontriv(("rseed", line))
        elif t == "st":
            ck.nontriv(("st", line))
        elif t == "save":
            want = hx(" ".join(str(v) for v in meta["state"]).encode())
            if ho != want:
                ck.add_violation("operator<<:wrong-text", "operator<< does not print the four state words in decimal",
                                 {"cases": [line], "impl": ho, "expected": want})
        elif t == "loadcanon":
            want = "OK %s %s" % (" ".join(map(h, meta["state"])), hx(meta["rest"]))
            ck.nontriv(("load", line))
            if ho != want:
                bad = [i for i in range(4) if ho.split()[1:5][i:i + 1] != [h(meta["state"][i])]]
                ck.add_violation("operator>>:state-not-restored",
                                 "operator>> on the text of a saved state does not restore state%s (or eats the text after it)" % bad,
                                 {"cases": [line], "text": meta["text"], "impl": ho, "expected": want, "model": mo})
        elif t == "reload":
            ck.nontriv(("reload", meta["seed"], meta["k"], meta["n"]))
            parts = ho.split(" | ")
            ok = ho.startswith("OK ") and len(parts) == 3 and parts[0][3:] == parts[1] and parts[2] == hx(meta["rest"])
            if not ok:
                fd = None
                if len(parts) == 3:
                    a, b = parts[0][3:].split(), parts[1].split()
                    fd = next((i for i in range(min(len(a), len(b))) if a[i] != b[i]), None)
                ck.add_violation("reload:sequence-differs",
                                 "engine(seed %s) saved after %d draws and loaded back %s" %
                                 (h(meta["seed"]), meta["k"],
                                  "continues with a different sequence from output #%s on" % fd if fd is not None
                                  else "fails to load / leaves a different rest"),
                                 {"cases": [line], "impl": ho, "model": mo, "first_differing_output": fd})
    return hist


def shrink_reload(ck, harness):
    """replace the first reload violation by the smallest failing (seed, k, n) found"""
    v = next((v for v in ck.violations if v["key"] == "reload:sequence-differs"), None)
    if v is None:
        return
    cands = ["reload %s %d %s %d -" % (h(1), k, h(2), n) for k in (0, 1, 2) for n in (1, 2, 3, 4, 5, 8)]
    out, _ = pc.run_harness_resilient(harness, cands)
    for line, ho in zip(cands, out):
        parts = (ho or "").split(" | ")
        if not ((ho or "").startswith("OK ") and len(parts) == 3 and parts[0][3:] == parts[1] and parts[2] == "-"):
            v["replay"]["found_with"] = v["replay"]["cases"]
            v["replay"]["cases"] = [line]
            v["replay"]["impl"] = ho
            v["what"] += "; minimal: engine(1) saved after %s draws, loaded into engine(2), %s outputs compared" % (
                line.split()[2], line.split()[4])
            return


# ----------------------------------------------------------------- whole-run testing
RUN_KINDS = ["ga", "de", "sr_std", "sr_alps", "sr_mse", "sr_count", "class_std", "class_alps"]


def run_configs(ck):
    rng = ck.rng
    # tournament >= 2: with tournament_size 1 recombination reads parent[1] of a one-element vector (a C06 matter,
    # reported to the orchestrator; an abort is not what C07 is about)
    cfgs = []
    for kind in RUN_KINDS:
        nset = 3 if ck.thorough else 1
        for j in range(nset + 1):
            if j == 0:
                par = {"gen": 5, "pop": 24}
            else:
                par = {"gen": rng.randint(3, 12 if ck.thorough else 6), "pop": rng.choice([8, 16, 30, 50]),
                       "pcross": rng.choice([0, 0.3, 0.9, 1]), "pmut": rng.choice([0, 0.04, 0.3, 1]),
                       "tour": rng.choice([2, 3, 5]), "brood": rng.choice([1, 1, 3])}
                if "alps" in kind:
                    par["layers"] = rng.choice([1, 2, 4])
                    par["gen"] = rng.randint(8, 20)
                if kind.startswith(("sr", "class")):
                    par["code"] = rng.choice([10, 30, 60])
                    par["runs"] = rng.choice([1, 2])
                par["pop"] = max(par["pop"], par["tour"] + 1)
            cfgs.append((kind, rng.choice([0, 1, 7, rng.getrandbits(32)]), par))
    return cfgs


def transcript(exe, kind, seed, par, variant):
    env = vv.san_env()
    env.pop("MALLOC_PERTURB_", None)
    if variant == 0:
        env["MALLOC_PERTURB_"] = "85"
        env["ASAN_OPTIONS"] += ":malloc_fill_byte=190:max_malloc_fill_size=4096"
    else:
        env["MALLOC_PERTURB_"] = "170"
        env["ASAN_OPTIONS"] += ":malloc_fill_byte=51:max_malloc_fill_size=1048576"
        env["VV_C07_PADDING"] = "x" * (4096 * variant + 123)
        env["VV_C07_MORE"] = "y" * 777
        # plain (glibc malloc) build: every allocation becomes its own mmap, which are handed out top-down, so the
        # relative order of heap addresses is REVERSED with respect to run 0 (address-dependent ordering shows up)
        env["MALLOC_MMAP_THRESHOLD_"] = "0"
        env["MALLOC_TOP_PAD_"] = "0"
        # locale / threading environment: nothing in kernel/ or utility/ reads std::locale, setlocale, getenv,
        # std::thread or hardware_concurrency (see environment_lint), so these must make no difference
        env["LANG"] = "de_DE.UTF-8"
        env["LC_ALL"] = "de_DE.UTF-8"
        env["LC_NUMERIC"] = "de_DE.UTF-8"
        env["OMP_NUM_THREADS"] = "3"
        env["TZ"] = "Pacific/Kiritimati"
    args = [exe, kind, str(seed)] + ["%s=%s" % kv for kv in sorted(par.items())] + ["drawfmt=1"]
    p = subprocess.run(args, env=env, stdout=subprocess.PIPE, stderr=subprocess.PIPE, timeout=600)
    return p.returncode, p.stdout, p.stderr.decode(errors="replace"), args


def predict_run_draws(ck, model, cmd, seed, transcript_bytes, limit):
    """the H1 log of a real search (kind, lo, hi, value) against the model's prediction from the seed alone"""
    def sh(v):
        return ("-%x" % -v) if v < 0 else "%x" % v
    reqs, exp = [], []
    for l in transcript_bytes.split(b"\n"):
        if not l.startswith(b"D "):
            continue
        f = l[2:].decode().split(":")
        if f[0] == "i":
            lo, hi, v = int(f[1]), int(f[2]), int(f[3])
            if not lo <= v < hi:
                ck.add_violation("random::between:out-of-range", "`%s`: draw #%d between(%d,%d) = %d" % (cmd, len(reqs), lo, hi, v),
                                 {"run": cmd, "draw": l.decode()})
            reqs.append("i:%s:%s" % (sh(lo), sh(hi))); exp.append("i:" + sh(v))
        elif f[0] == "r":
            reqs.append("r:%s:%s" % (f[1], f[2])); exp.append("r:" + f[3])
        elif f[0] == "b":
            reqs.append("b:" + f[1]); exp.append("b:" + f[2])
        elif f[0] == "d" and len(f) == 4:
            n, v = int(f[1]), int(f[2])
            if not 0 <= v < n:
                ck.add_violation("pickup:layer-out-of-range", "`%s`: discrete draw %d for %d layers" % (cmd, v, n),
                                 {"run": cmd, "draw": l.decode()})
            reqs.append("d:" + f[3]); exp.append("d:" + sh(v))   # std::discrete_distribution over the logged layer sizes
        elif f[0] == "d":
            reqs.append("s"); exp.append("s")       # one engine output, value depends on weights that are not logged
        else:
            break                                   # 'n' (normal distribution): not modelled, prediction stops here
        if len(reqs) >= limit:
            break
    if not reqs:
        return 0
    rc, mo, merr = vv.run_lines(model, "draws %016x %s\n" % (seed % 2 ** 32, " ".join(reqs)))
    got = mo[0].split() if rc == 0 and mo else []
    ck.count()
    if got != exp:
        i = next((i for i in range(min(len(got), len(exp))) if got[i] != exp[i]), min(len(got), len(exp)))
        ck.add_diff({"run": cmd, "draw_index": i, "request": reqs[i] if i < len(reqs) else None},
                    got[i] if i < len(got) else None, exp[i] if i < len(exp) else None,
                    what="the H1 draw log of the run differs from the model's prediction from the seed")
    else:
        ck.nontriv(("predicted", cmd))
    return len(reqs)


def double_runs(ck, exes, cfgs, model=None):
    total = 0
    predicted = 0
    for kind, seed, par in cfgs:
        for exe_name, exe in exes:
            rc0, a, e0, args = transcript(exe, kind, seed, par, 0)
            rc1, b, e1, _ = transcript(exe, kind, seed, par, 1)
            total += 1
            ck.count()
            cmd = " ".join(args[1:])
            if rc0 != 0 or rc1 != 0:
                ck.add_violation("double-run:%s:abort" % kind,
                                 "search `%s` aborts (rc %d/%d): %s" % (cmd, rc0, rc1, (e0 + e1)[-300:].strip()),
                                 {"run": {"kind": kind, "seed": seed, "par": par, "build": exe_name},
                                  "stderr": (e0 or e1)[-1500:]})
                continue
            ndraw = a.count(b"\nD ") + (1 if a.startswith(b"D ") else 0)
            ngen = a.count(b"\nG ")
            ck.coverage.setdefault("double_run", []).append(
                {"cmd": cmd, "build": exe_name, "draws": ndraw, "generations": ngen, "bytes": len(a)})
            if ngen > 0 and ndraw > 0:
                ck.nontriv(("run", exe_name, cmd))
            if model and exe_name == "asan" and (ck.thorough or par == {"gen": 5, "pop": 24}):
                predicted += predict_run_draws(ck, model, cmd, seed, a, 200000 if ck.thorough else 8000)
            if a != b:
                la, lb = a.split(b"\n"), b.split(b"\n")
                i = next((i for i in range(min(len(la), len(lb))) if la[i] != lb[i]), min(len(la), len(lb)))
                ck.add_violation("double-run:%s:transcripts-differ" % kind,
                                 "two executions of `%s` (same seed, different environment size / malloc fill) "
                                 "differ from transcript line %d on" % (cmd, i),
                                 {"run": {"kind": kind, "seed": seed, "par": par, "build": exe_name},
                                  "line": i, "first": la[i].decode(errors="replace")[:300] if i < len(la) else None,
                                  "second": lb[i].decode(errors="replace")[:300] if i < len(lb) else None})
    ck.coverage["run_draws_predicted_from_seed"] = predicted
    return total


# ---- timing leg: the same run with the process held up for > 2 s (the evolution loop has a "more than two seconds
# since the last message" branch; a loaded machine / slow evaluator takes it, a fast test run never does)
def timing_configs(ck):
    rng = ck.rng
    cfgs = [("ga", rng.choice([1, 7]), {"gen": 14, "pop": 30, "sleepeval": 100, "sleepms": 2300}),
            ("sr_alps", rng.choice([1, 3]), {"gen": 70, "pop": 20, "layers": 4, "code": 20, "sleepgen": 1, "sleepms": 2300}),
            ("sr_std", rng.choice([1, 5]), {"gen": 14, "pop": 30, "code": 20, "sleepgen": 1, "sleepms": 2300})]
    if ck.thorough:
        cfgs += [("de", 3, {"gen": 14, "pop": 30, "sleepeval": 200, "sleepms": 2300}),
                 ("class_alps", 2, {"gen": 40, "pop": 20, "layers": 3, "code": 20, "sleepgen": 2, "sleepms": 2300}),
                 ("sr_mse", 4, {"gen": 10, "pop": 40, "sleepgen": 0, "sleepms": 4500})]
    return cfgs


def first_diff(a, b):
    la, lb = a.split(b"\n"), b.split(b"\n")
    i = next((i for i in range(min(len(la), len(lb))) if la[i] != lb[i]), min(len(la), len(lb)))
    return i, (la[i].decode(errors="replace")[:300] if i < len(la) else None), \
        (lb[i].decode(errors="replace")[:300] if i < len(lb) else None), \
        next((l.decode(errors="replace")[:60] for l in reversed(la[:i + 1]) if l.startswith(b"G ")), None)


def timing_runs(ck, exe, cfgs):
    import concurrent.futures

    def one(cfg):
        kind, seed, par = cfg
        base = {k: v for k, v in par.items() if not k.startswith("sleep")}
        return cfg, transcript(exe, kind, seed, base, 0), transcript(exe, kind, seed, par, 0)
    with concurrent.futures.ThreadPoolExecutor(max(1, len(cfgs))) as ex:
        results = list(ex.map(one, cfgs))
    for (kind, seed, par), (rc0, a, e0, args0), (rc1, b, e1, args1) in results:
        ck.count()
        cmd = " ".join(args1[1:])
        if rc0 != 0 or rc1 != 0:
            ck.add_violation("timing-run:%s:abort" % kind, "search `%s` aborts (rc %d/%d)" % (cmd, rc0, rc1),
                             {"timing_run": {"kind": kind, "seed": seed, "par": par}, "stderr": (e0 or e1)[-1500:]})
            continue
        ck.coverage.setdefault("timing_run", []).append({"cmd": cmd, "generations": a.count(b"\nG "), "bytes": len(a)})
        ck.nontriv(("timing", cmd))
        if a != b:
            i, x, y, g = first_diff(a, b)
            ck.add_violation("timing-run:%s:transcripts-differ" % kind,
                             "`%s`: the same seeded run held up for %s ms (wall-clock only) differs from the undisturbed run "
                             "from transcript line %d on (%s)" % (cmd, par["sleepms"], i, g),
                             {"timing_run": {"kind": kind, "seed": seed, "par": par}, "line": i, "undisturbed": x, "held_up": y,
                              "generation_block": g})


# ---- in-process leg: the same seeded execution several times in ONE process, problem / symbol set built afresh
INPROC_KINDS = ["inproc_mep_fixed", "inproc_mep_distinct", "inproc_mep_random", "inproc_ga", "inproc_de", "inproc_sr",
                "inproc_sr_alps"]


def inproc_configs(ck):
    rng = ck.rng
    out = []
    for kind in INPROC_KINDS:
        for j in range(3 if ck.thorough else 1):
            par = {"gen": 6 + 2 * j, "pop": rng.choice([20, 30, 40]), "code": rng.choice([12, 20])}
            out.append((kind, rng.choice([1, 2, rng.getrandbits(31)]), par))
    return out


def inproc_runs(ck, exe, cfgs):
    for kind, seed, par in cfgs:
        rc, out, err, args = transcript(exe, kind, seed, par, 0)
        ck.count()
        cmd = " ".join(args[1:])
        if rc != 0:
            ck.add_violation("in-process:%s:abort" % kind, "`%s` aborts (rc %d)" % (cmd, rc),
                             {"inproc_run": {"kind": kind, "seed": seed, "par": par}, "stderr": err[-1500:]})
            continue
        secs = out.split(b"=== ")[1:]
        labels = [s.split(b"\n", 1)[0].decode() for s in secs]
        bodies = [s.split(b"\n", 1)[1] if b"\n" in s else b"" for s in secs]
        ck.coverage.setdefault("in_process_run", []).append({"cmd": cmd, "executions": labels, "bytes": len(out)})
        if len(bodies) >= 2 and bodies[0].count(b"\nG ") > 0:
            ck.nontriv(("inproc", cmd))
        for lab, b in zip(labels[1:], bodies[1:]):
            if b != bodies[0]:
                i, x, y, g = first_diff(bodies[0], b)
                ck.add_violation("in-process:%s:executions-differ" % kind,
                                 "`%s`: two executions with the same seed in one process differ (%s vs. %s) from transcript "
                                 "line %d on (%s)" % (cmd, labels[0], lab, i, g),
                                 {"inproc_run": {"kind": kind, "seed": seed, "par": par}, "execution": lab, "line": i,
                                  "first": x, "other": y, "generation_block": g})
                break


# ----------------------------------------------------------------- randomness sources lint
ALLOWED_SOURCES = {
    ("kernel/random.cc", "std::random_device"),          # randomize(): explicitly non-deterministic by contract
    ("kernel/evaluator.tcc", "static random::engine_t"),  # test_evaluator: private engine re-seeded from its argument
}


def randomness_lint(snap):
    pat = re.compile(r"std::random_device|mt19937|default_random_engine|minstd_rand|\b(?:std::)?rand\s*\(\s*\)|\bsrand\s*\(|std::time\s*\(|"
                     r"static\s+random::engine_t|random_shuffle|std::shuffle|std::sample")
    found = set()
    for sd in ("kernel", "utility"):
        for dp, dn, fn in os.walk(os.path.join(snap, sd)):
            if "/test" in dp:
                continue
            for f in fn:
                if not f.endswith((".h", ".cc", ".tcc")):
                    continue
                p = os.path.join(dp, f)
                for l in open(p, errors="replace"):
                    s = l.strip()
                    if s.startswith(("//", "*", "/*")):
                        continue
                    m = pat.search(s)
                    if m:
                        found.add((os.path.relpath(p, snap), re.sub(r"\s+", " ", m.group(0)).rstrip("( ")))
    return sorted(found - ALLOWED_SOURCES), sorted(found)


def retry_build(fn, *a, **kw):
    """vv's snapshot / library cache is shared by all checks running at the same time and garbage-collected by
    count; when another check evicts our snapshot in the middle of a compile the build fails with a missing file.
    That is not a property of the tree: build again (a genuine compile error fails every time and is re-raised)."""
    for attempt in range(4):
        try:
            return fn(*a, **kw)
        except vv.BuildError as e:
            if attempt == 3 or not re.search(r"No such file or directory|cannot find|file not recognized", str(e)):
                raise
            vv.log("build raced with the cache garbage collector, retrying")


def environment_lint(snap):
    """library code that reads the process environment (locale, threads, environment variables, clocks used as data)"""
    pat = re.compile(r"std::locale|setlocale|\.imbue\(|std::thread|hardware_concurrency|std::async|#pragma omp|getenv")
    found = set()
    for sd in ("kernel", "utility"):
        for dp, dn, fn in os.walk(os.path.join(snap, sd)):
            if "/test" in dp:
                continue
            for f in fn:
                if f.endswith((".h", ".cc", ".tcc")):
                    p = os.path.join(dp, f)
                    for l in open(p, errors="replace"):
                        s = l.strip()
                        if s.startswith(("//", "*", "/*")):
                            continue
                        m = pat.search(s)
                        if m:
                            found.add("%s: %s" % (os.path.relpath(p, snap), m.group(0)))
    return sorted(found)


# ----------------------------------------------------------------- run
def run(ck):
    L = retry_build(vv.build_lib, "asan")
    res = vv.prove("Properties_C07", set())
    ck.add_proof(res)
    res2 = vv.prove("Refuted_C07", set())
    ck.add_proof(res2)
    ck.add_proof(vv.prove("Dist_C07", vv.FLOCQ_AXIOMS))
    ck.trusted += ["coq/Rng/RngDefs.v is a hand-written model of xoshiro256ss.{h,cc} and random::seed (tie: correspondence only)",
                   "the decimal codec models libstdc++ operator<< / operator>> for unsigned long in the C locale",
                   "extraction: ExtrOcamlBasic only, no Extract Constant; ocaml/rng_driver.ml + zutil.ml",
                   "harness/h_rng.cc (reads the private state through `#define private public`), harness/h_rng_run.cc",
                   "g++ 12 ASan/UBSan as the detector of executed undefined behaviour"]
    ck.assumptions += [
        "theorem hypothesis: the text following a saved state does not start with a decimal digit (C07_rest_condition_needed "
        "shows it is necessary)",
        "PARTIAL: whole-run determinism (libstdc++ distributions, evolution, evaluators, containers, no uninitialised or "
        "address-dependent behaviour) is not a theorem; it is TESTED by the double-run comparison "
        "(separate processes, different environment size, MALLOC_PERTURB_/ASan malloc fill, reversed heap order, ASLR), a timing leg "
        "(run held up > 2 s) and an in-process leg (repeated executions with fresh problems in one process) on a finite set of "
        "configurations",
    ]
    harness = retry_build(vv.build_harness, "h_rng")
    model = vv.ocaml_model("Rng")
    runner = retry_build(vv.build_harness, "h_rng_run")
    exes = [("asan", runner), ("plain", retry_build(vv.build_harness, "h_rng_run", san="plain"))]

    rp = json.load(open(ck.replay_path)) if ck.replay_path else None
    tcfgs, icfgs = [], []
    if rp and rp.get("cases"):
        cases = [(l, {"t": "replay"}) for l in rp["cases"]]
        # a replayed line is judged by the same oracles: rebuild its meta
        cases = [(l, remeta(l)) for l, _ in cases]
        cfgs = []
    elif rp and rp.get("run"):
        cases = []
        cfgs = [(rp["run"]["kind"], rp["run"]["seed"], rp["run"]["par"])]
    elif rp and rp.get("timing_run"):
        cases, cfgs = [], []
        tcfgs = [(rp["timing_run"]["kind"], rp["timing_run"]["seed"], rp["timing_run"]["par"])]
    elif rp and rp.get("pickup_seq"):
        cases, cfgs = [], []
        rc0, a, e0, args = transcript(runner, "pickup_seq", rp["pickup_seq"]["seed"], rp["pickup_seq"]["par"], 0)
        for sec in a.split(b"=== ")[1:]:
            label, _, body = sec.partition(b"\n")
            nd = len(ck.diffs)
            predict_run_draws(ck, model, "pickup_seq replay [" + label.decode() + "]", rp["pickup_seq"]["seed"], body, 100000)
            if len(ck.diffs) > nd:
                ck.add_violation("pickup:draw-not-from-live-layer-sizes", "replay: " + label.decode() + ": a draw differs from "
                                 "std::discrete_distribution over the live layer sizes", {"pickup_seq": rp["pickup_seq"]})
    elif rp and rp.get("inproc_run"):
        cases, cfgs = [], []
        icfgs = [(rp["inproc_run"]["kind"], rp["inproc_run"]["seed"], rp["inproc_run"]["par"])]
    else:
        cases = gen_cases(ck)
        cfgs = run_configs(ck)
        tcfgs = timing_configs(ck)
        icfgs = inproc_configs(ck)

    lines = [c[0] for c in cases]
    # operator>> cases run in their own harness processes: when that operator executes undefined behaviour every such
    # line aborts the harness, and the restart budget must not be spent on the unrelated lines
    hout, crashes = [None] * len(lines), {}
    for sel in (lambda l: not l.startswith(("load", "reload")), lambda l: l.startswith(("load", "reload"))):
        idx = [i for i, l in enumerate(lines) if sel(l)]
        if idx:
            o, c = pc.run_harness_resilient(harness, [lines[i] for i in idx])
            for j, i in enumerate(idx):
                hout[i] = o[j]
            for j, s in c.items():
                crashes[idx[j]] = s
    rc, mout, merr = vv.run_lines(model, "\n".join(lines) + "\n") if lines else (0, [], "")
    if rc != 0 or len(mout) != len(lines):
        raise vv.BuildError("model driver failed: rc=%s %s" % (rc, merr[:500]))
    hist = judge(ck, cases, hout, mout, crashes)
    shrink_reload(ck, harness)
    ck.coverage["per_case_kind"] = hist

    nruns = double_runs(ck, exes, cfgs, model)
    ck.coverage["double_run_pairs"] = nruns
    if not rp:
        npick = 0
        for sizes in [[5, 3, 9, 1], [10, 10], [1, 1, 1, 1, 1, 1, 1], [1000, 1], [3, 0, 4], [7, 20, 50, 2, 9], [30, 10], [10, 30],
                      [20, 15, 5], [5, 15, 20]] + \
                     [[ck.rng.randint(1, 40) for _ in range(ck.rng.randint(2, 6))] for _ in range(6 if ck.thorough else 2)]:
            par = {"calls": 400 if ck.thorough else 120}
            par.update({"s%d" % i: s for i, s in enumerate(sizes)})
            seed = ck.rng.getrandbits(32)
            rc0, a, e0, args = transcript(runner, "pickup", seed, par, 0)
            cmd = " ".join(args[1:])
            if rc0 != 0:
                ck.add_violation("pickup:abort", "`%s` aborts (rc %d)" % (cmd, rc0), {"run": cmd, "stderr": e0[-1500:]})
                continue
            npick += predict_run_draws(ck, model, cmd, seed, a, 100000)
        # in-process sequences: populations built one after the other at the same address, same seed each time;
        # (a) experiments with the same sizes give the same draws, (b) every draw is the model's prediction from the
        # LIVE layer sizes (hidden state between populations / a split that is not refreshed)
        seqs = [[([30, 10], None), ([5, 5, 30], None), ([10, 30], None), ([30, 10], None)],
                [([20, 20], [35, 5]), ([35, 5], None), ([20, 20], [35, 5])],
                [([1, 2, 3], None), ([3, 2, 1], None), ([2, 2, 2], [1, 4, 1]), ([1, 2, 3], None)]]
        if ck.thorough:
            for _ in range(6):
                tot = ck.rng.randint(6, 60)
                def split(k):
                    cuts = sorted(ck.rng.sample(range(1, tot), k - 1))
                    return [b - a for a, b in zip([0] + cuts, cuts + [tot])]
                k = ck.rng.choice([2, 3, 4])
                a, b = split(k), split(k)
                seqs.append([(a, None), (b, None), (a, b), (a, None)])
        for exps in seqs:
            par = {"calls": 200 if ck.thorough else 80}
            for e, (s, later) in enumerate(exps):
                par.update({"e%ds%d" % (e, l): v for l, v in enumerate(s)})
                if later:
                    par.update({"e%dt%d" % (e, l): v for l, v in enumerate(later)})
            seed = ck.rng.getrandbits(32)
            rc0, a, e0, args = transcript(runner, "pickup_seq", seed, par, 0)
            cmd = " ".join(args[1:])
            if rc0 != 0:
                ck.add_violation("pickup:abort", "`%s` aborts (rc %d)" % (cmd, rc0), {"pickup_seq": {"seed": seed, "par": par}, "stderr": e0[-1500:]})
                continue
            secs = a.split(b"=== ")[1:]
            bodies = {}
            for e, sec in enumerate(secs):
                label, _, body = sec.partition(b"\n")
                key = (tuple(exps[e][0]), tuple(exps[e][1] or ()))
                # (b) against the model, draw by draw, from the sizes that were live at each draw
                ndiff = len(ck.diffs)
                npick += predict_run_draws(ck, model, cmd + " [" + label.decode() + "]", seed, body, 100000)
                if len(ck.diffs) > ndiff:
                    d = ck.diffs[-1]
                    ck.add_violation("pickup:draw-not-from-live-layer-sizes",
                                     "`%s`, %s: draw #%s (%s) is %s, std::discrete_distribution over the live layer sizes gives %s "
                                     "(same seed; the populations before it in this process were %s)"
                                     % (cmd, label.decode(), d["case"].get("draw_index"), d["case"].get("request"), d["impl"], d["model"],
                                        [x[0] for x in exps[:e]]),
                                     {"pickup_seq": {"seed": seed, "par": par}, "experiment": e, "draw_index": d["case"].get("draw_index"),
                                      "impl": d["impl"], "model": d["model"]})
                # (a) same sizes, same seed, same process => same draws
                if key in bodies and bodies[key][1] != body:
                    i, x, y, _ = first_diff(bodies[key][1], body)
                    ck.add_violation("pickup:depends-on-process-history",
                                     "`%s`: experiments %d and %d use the same layer sizes %s and the same seed but differ from line %d on"
                                     % (cmd, bodies[key][0], e, list(key[0]), i),
                                     {"pickup_seq": {"seed": seed, "par": par}, "first": x, "other": y})
                bodies.setdefault(key, (e, body))
        ck.coverage["pickup_draws_predicted_from_seed"] = npick
    if not rp:
        # persistent evaluation cache: execution 1 without the file (it writes it on close), execution 2 finds it
        import tempfile
        for kind, seed in [("sr_small", 3), ("sr_small_mse", 5), ("sr_std", 7)]:
            par = {"gen": 6, "pop": 24, "code": 16}
            with tempfile.TemporaryDirectory() as td:
                os.environ["VV_C07_SERFILE"] = os.path.join(td, "cache.txt")
                try:
                    rc0, a, e0, args = transcript(runner, kind, seed, par, 0)
                    had = os.path.exists(os.environ["VV_C07_SERFILE"]) and os.path.getsize(os.environ["VV_C07_SERFILE"]) > 0
                    rc1, b, e1, _ = transcript(runner, kind, seed, par, 0)
                finally:
                    del os.environ["VV_C07_SERFILE"]
            ck.count()
            cmd = " ".join(args[1:])
            if rc0 != 0 or rc1 != 0:
                ck.add_violation("cache-file-run:%s:abort" % kind, "`%s` with a serialization file aborts (rc %d/%d)" % (cmd, rc0, rc1),
                                 {"serfile_run": {"kind": kind, "seed": seed, "par": par}, "stderr": (e0 or e1)[-1500:]})
                continue
            ck.coverage.setdefault("cache_file_run", []).append({"cmd": cmd, "file_written": had})
            if had:
                ck.nontriv(("serfile", cmd))
            if a != b:
                i, x, y, g = first_diff(a, b)
                ck.add_violation("cache-file-run:%s:transcripts-differ" % kind,
                                 "`%s` with env.misc.serialization_file set: the execution that finds the evaluation cache saved by an "
                                 "identical first execution differs from it from transcript line %d on (%s)" % (cmd, i, g),
                                 {"serfile_run": {"kind": kind, "seed": seed, "par": par}, "line": i, "first": x, "second": y})
    timing_runs(ck, runner, tcfgs)
    inproc_runs(ck, runner, icfgs)
    ck.coverage["double_run_label"] = "TESTING (not proof): whole-run determinism on the listed configurations only"

    envuse = environment_lint(L["snap"])
    ck.coverage["library_reads_locale_threads_environment"] = envuse or ["nothing in kernel/ and utility/ (std::locale, setlocale, "
                                                                        "imbue, std::thread, hardware_concurrency, std::async, "
                                                                        "OpenMP, getenv): the double run nevertheless changes "
                                                                        "LANG/LC_ALL/LC_NUMERIC/OMP_NUM_THREADS/TZ in its second leg"]
    for u in envuse:
        ck.notes.append("library code reads the process environment: " + u)
    unexpected, found = randomness_lint(L["snap"])
    ck.coverage["randomness_sources_outside_random_engine"] = ["%s: %s" % x for x in found]
    for f, what in unexpected:
        ck.add_unshown("lint", "randomness-source",
                       "%s uses `%s`: a source of randomness that does not go through vita::random::engine "
                       "(not covered by the seed; the double run found no difference)" % (f, what))
    return ck.finish(
        rule="engine cases: seeds {0,1,2^32-1,2^32,2^64-1,default,random} x draw counts, boundary/random 64-bit states, "
             "save/load at random points with varied white space and trailing text, malformed streams, the decimal codec on "
             "0, 10^k+-1, 2^64-1, 2^64, signs; non-trivial = distinct stream/reload/load/seed case that produces outputs "
             "(a reload case needs >= 4 outputs so that state[3] matters). Run cases (TESTING): one double run per "
             "(search kind, seed, parameter set); a timing leg (same run held up > 2 s of wall-clock inside a callback / a fitness "
             "evaluation, std and multi-layer ALPS strategies); an in-process leg (same seed executed several times in one "
             "process with the problem and symbol set built afresh, test_evaluator kinds fixed/distinct/random, ga, de, symbolic "
             "regression); non-trivial = a run with draws and generations",
        explanation="proof for the generator and its text codec; whole-run determinism is partial (tested, not proved)")


def remeta(line):
    w = line.split()
    t = w[0]
    if t == "seq":
        return {"t": "seq", "seed": int(w[1], 16), "n": int(w[2])}
    if t == "reload":
        rest = unhx(w[5])
        if rest[:1].isdigit():
            return {"t": "reload-glued"}
        return {"t": "reload", "seed": int(w[1], 16), "k": int(w[2]), "other": int(w[3], 16), "n": int(w[4]), "rest": rest}
    if t == "rseed":
        return {"t": "rseed", "group": "rseed-%s-%s" % (w[3], w[4]), "seed": int(w[3], 16), "n": int(w[4])}
    if t == "save":
        return {"t": "save", "state": [int(x, 16) for x in w[1:5]]}
    if t == "load":
        txt = unhx(w[5])
        m = re.fullmatch(rb"\s*\+?(\d+)\s+\+?(\d+)\s+\+?(\d+)\s+\+?(\d+)((?:\D.*)?)", txt, re.S)
        if m and all(int(m.group(i)) < M64 for i in range(1, 5)):
            return {"t": "loadcanon", "state": [int(m.group(i)) for i in range(1, 5)], "rest": m.group(5),
                    "text": txt.decode("latin1")}
        return {"t": "loadmal"}
    return {"t": t}
