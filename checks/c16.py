"""C16 -- Validation strategies only move examples between the two sets.

proof:  coq/Props/Properties_C16.v about coq/Valid/ValidDefs.v (hand-written,
        function-by-function model of holdout_validation.cc, dss.cc and of the
        validation slice of src_search::tune_parameters).
tie:    correspondence.  harness/h_valid.cc drives the REAL init/shake/close
        directly and through src_search::run under ASan/UBSan, logs the random
        draws through hook H1 and dumps both dataframes after every call; the
        extracted model replays the same draws and must produce the same
        dataframes, return values and clear() counts, call by call.
oracle: the property itself (conservation, hold-out share, idempotence after
        run 0, both sets non-empty / counters reset / report-and-clear after a
        reshuffle, single set after close, open parameters filled by tuning)
        evaluated on the implementation's dumps.
"""
import json

import os
import sys

import vv
import prims_common as pc

sys.path.insert(0, os.path.join(vv.VERIF, "translate"))
import valid_facts

SENT = 4294967295
M64 = (1 << 64) - 1
DFLT_PERC, DFLT_DSS = 20, 1


# ------------------------------------------------------------------ helpers
def mix(uid, seed):
    z = (uid * 0x9E3779B97F4A7C15 + seed * 0xBF58476D1CE4E5B9 + 1) & M64
    z ^= z >> 31
    z = (z * 0x94D049BB133111EB) & M64
    z ^= z >> 29
    return z


def parse_set(s):
    """'-' or 'uid:diff:age:hash,...' -> list of (uid, diff, age, hash)"""
    if s == "-":
        return []
    out = []
    for t in s.split(","):
        u, d, a, h = t.split(":")
        out.append((int(u), int(d), int(a), h))
    return out


def idents(T, V):
    return sorted((e[0], e[3]) for e in T + V)


def target_double(s):
    """the expression of dss::shake_impl in binary64 (python floats are C doubles)"""
    s = float(s)
    ratio = min(0.6, 0.2 + 100.0 / (s + 100.0))
    return max(1.0, s * ratio)


def target_q(s):
    return max(1, min(3 * s // 5, (s * s + 600 * s) // (5 * (s + 100))))


def weight(e):
    return (e[1] + e[2] * e[2] * e[2]) & M64


def partition_visit_order(n, bools):
    """indices examined by libstdc++'s bidirectional std::partition, in order,
    when the k-th predicate call returns `not bools[k]`"""
    order = []
    first, last, k = 0, n, 0

    def pred(i):
        nonlocal k
        order.append(i)
        b = bools[k] if k < len(bools) else 0
        k += 1
        return not b
    while True:
        while True:
            if first == last:
                return order
            if pred(first):
                first += 1
            else:
                break
        last -= 1
        while True:
            if first == last:
                return order
            if not pred(last):
                last -= 1
            else:
                break
        first += 1


# --------------------------------------------------------------- generators
SIZES = [2, 3, 4, 5, 6, 7, 9, 10, 20, 50, 99, 100, 101, 149, 150, 151, 200, 299, 300]
PERCS = [0, 1, 2, 10, 20, 33, 49, 50, 51, 75, 98, 99]
MODS = [1, 2, 10, 1000, 1 << 20, 1 << 40, 1 << 63]


def gen_direct(rng, k):
    r = rng.random()
    n = rng.choice(SIZES) if r < 0.45 else (rng.randint(2, 12) if r < 0.75 else rng.randint(2, 300))
    perc = rng.choice(PERCS) if rng.random() < 0.5 else rng.randint(0, 99)
    gap = rng.randint(1, 7)
    seed = rng.randint(1, 2**31 - 1)
    ops = []
    style = k % 4

    def ev():
        return "ev:%d:%d:%s" % (rng.randint(0, 10**6), rng.choice(MODS), rng.choice("tvb"))
    if style == 0:                       # hold-out over several runs
        for run in range(rng.randint(1, 4)):
            ops.append("hi:%d" % run)
            if rng.random() < 0.5:
                ops.append(ev())
    elif style in (1, 2):                # dss as search::run drives it
        for run in range(rng.randint(1, 3)):
            ops.append("di:%d" % run)
            for g in range(0, rng.randint(1, 3 * gap + 2)):
                if g != 0 and g % gap == 0 and rng.random() < 0.2:
                    # weights that sum to 0 / a small value / 2^64 - 1 modulo 2^64 at the coming reshuffle
                    ops.append("sz:%d" % rng.choice([0, 0, 1, 5, M64]))
                elif rng.random() < 0.8:
                    ops.append(ev())
                ops.append("ds:%d" % g)
            ops.append("dc:%d" % run)
    else:                                # arbitrary interleavings (every call stays within its contract)
        maybe_empty = False
        for _ in range(rng.randint(2, 12)):
            c = rng.random()
            if c < 0.15 and not maybe_empty:
                ops.append("hi:%d" % rng.choice([0, 0, 1, 2]))
            elif c < 0.35:
                ops.append("di:%d" % rng.randint(0, 3))
                maybe_empty = False
            elif c < 0.65:
                g = rng.choice([0, gap, 2 * gap, 3 * gap, rng.randint(0, 30)])
                ops.append("ds:%d" % g)
                if g != 0 and g % gap == 0:
                    maybe_empty = False
            elif c < 0.8:
                ops.append("dc:%d" % rng.randint(0, 3))
                maybe_empty = True
            else:
                ops.append(ev())
    ds = ""
    if rng.random() < 0.3:               # classification data: 2..5 classes, round-robin or singleton classes
        ds = "/%d/%s" % (rng.randint(2, 5), rng.choice("ms"))
        if rng.random() < 0.7:
            n = rng.randint(2, 12)
    return {"mode": "D", "n": n, "ds": ds, "perc": perc, "gap": gap, "seed": seed, "ops": ops}


def boundary_direct(rng):
    """cases aimed at the boundaries: weight sums that wrap to 0 / small values, tiny classification sets"""
    out = []
    for n in (2, 3, 5, 50):
        for t in (0, 1, M64):
            out.append({"mode": "D", "n": n, "ds": "", "perc": 20, "gap": 1, "seed": rng.randint(1, 2**31 - 1),
                        "ops": ["di:0", "sz:%d" % t, "ds:1", "ev:7:10:b", "sz:%d" % t, "ds:2", "dc:0"]})
    for n, kc, pat in ((2, 2, "m"), (3, 2, "m"), (3, 3, "s"), (4, 2, "s"), (5, 4, "s"), (7, 3, "m"), (12, 5, "s")):
        for _ in range(3):
            out.append({"mode": "D", "n": n, "ds": "/%d/%s" % (kc, pat), "perc": 30, "gap": 1,
                        "seed": rng.randint(1, 2**31 - 1),
                        "ops": ["hi:0", "di:0", "ev:3:100:b", "ds:1", "ev:4:100:t", "ds:2", "ds:3", "dc:0"]})
    return out


def share_boundaries(rng, thorough):
    """hold-out setup on every (size, percentage) pair whose documented share n*(100-p)/100 is an exact
    integer: the places where any other way of computing the share (rounding, floating point, the complement
    taken on the validation side) lands on the wrong side"""
    sizes = range(2, 301) if thorough else list(range(2, 65)) + [75, 100, 125, 150, 200, 250, 300]
    out = []
    for n in sizes:
        for p in range(0, 100):
            if n * (100 - p) % 100 == 0:
                out.append({"mode": "D", "n": n, "ds": "", "perc": p, "gap": 1, "seed": rng.randint(1, 2**31 - 1),
                            "ops": ["hi:0", "hi:1"]})
    return out


def boundary_search(rng):
    """parameters explicitly SET by the user at the ends of their ranges; classification data"""
    out = []

    def case(strat, n, perc, gap, ds="", cache=0, runs=1, gens=2):
        out.append({"mode": "S", "strategy": strat, "n": n, "ds": ds, "perc": perc, "gap": gap,
                    "seed": rng.randint(1, 2**31 - 1), "runs": runs, "gens": gens, "cache": cache})
    for perc in (0, 1, 99):
        case("h", 20, perc, 2, runs=2)
    case("h", 100, 0, 2)
    case("h", 130, 99, 2)
    case("d", 20, 20, 1, gens=3)
    case("d", 20, 20, 2, gens=4, cache=8)
    case("d", 2, 20, 1, ds="/2/m", gens=3)
    case("d", 6, 20, 1, ds="/3/s", gens=3)
    case("d", 12, 20, 2, ds="/5/s", gens=4, runs=2)
    case("h", 12, 33, 2, ds="/2/m")
    return out


def gen_search(rng, k, thorough):
    strat = "hd"[k % 2]
    n = rng.choice([8, 20, 40, 100, 130] if not thorough else [8, 20, 40, 100, 130, 220, 300])
    open_par = (k % 6) in (0, 1)
    perc = "-" if (strat == "h" and open_par) else rng.choice(PERCS)
    gap = "-" if (strat == "d" and open_par) else rng.randint(1, 4)
    if strat == "d" and n > 150:
        n = 100
    c = {"mode": "S", "strategy": strat, "n": n, "ds": "", "perc": perc, "gap": gap, "seed": rng.randint(1, 2**31 - 1),
         "runs": rng.randint(1, 3), "gens": rng.randint(1, 5)}
    if k % 5 == 4:                       # classification data
        c["ds"] = "/%d/%s" % (rng.randint(2, 5), rng.choice("ms"))
        c["n"] = rng.randint(2, 12)
    # dss: half of the runs go through the real caching proxy (evaluator_proxy) around the training evaluator
    c["cache"] = rng.choice([7, 8, 10]) if (strat == "d" and (k // 2) % 2 == 1) else 0
    if c["cache"]:
        c["gens"] = rng.randint(3, 7)
    return c


def harness_line(c):
    if c["mode"] == "D":
        return "D %d%s %s %s %d %s" % (c["n"], c.get("ds", ""), c["perc"], c["gap"], c["seed"], " ".join(c["ops"]))
    return "S %s %d%s %s %s %d %d %d %d" % (c["strategy"], c["n"], c.get("ds", ""), c["perc"], c["gap"], c["seed"],
                                           c["runs"], c["gens"], c.get("cache", 0))


# ------------------------------------------------------------------ oracle
class Judge:
    """evaluates the property on what the implementation did; `bad(key, what)` on failure"""

    def __init__(self, bad):
        self.bad = bad

    def conservation(self, where, ids0, T, V):
        if idents(T, V) != ids0:
            self.bad("conservation", "%s: training+validation no longer hold exactly the loaded examples "
                     "(lost, duplicated or altered)" % where)

    def holdout(self, where, run, p, before, after):
        (T0, V0), (T1, V1) = before, after
        if run > 0:
            if [e[0] for e in T0] != [e[0] for e in T1] or [e[0] for e in V0] != [e[0] for e in V1]:
                self.bad("holdout:later-run-changes-split", "%s: init(%d) changed the split" % (where, run))
            return
        want = max(1, len(T0) * (100 - p) // 100)
        if len(T1) != want or not T1:
            self.bad("holdout:share", "%s: %d%% of %d examples held out leaves %d in training, documented %d"
                     % (where, p, len(T0), len(T1), want))

    def reshuffle(self, where, after):
        T1, V1 = after
        if not T1 or not V1:
            self.bad("dss:empty-set", "%s: reshuffle leaves training %d / validation %d" % (where, len(T1), len(V1)))
        if any(e[1] != 0 or e[2] != 1 for e in T1):
            self.bad("dss:counters-not-reset", "%s: a selected example keeps difficulty/age" % where)

    def clears(self, where, due, c0, c1):
        want = (c0[0] + 1, c0[1] + 1) if due else c0
        if c1 != want:
            self.bad("dss:evaluators-not-cleared", "%s: clear() counts %s -> %s, expected %s" % (where, c0, c1, want))

    def close(self, where, after):
        T1, V1 = after
        if T1:
            self.bad("dss:close-leaves-two-sets", "%s: %d examples still in training after close" % (where, len(T1)))


# ------------------------------------------------------- direct-mode replay
def split_obs(out):
    """'OK I T V # op ret ct cv draws T V # ...' -> (T0, V0, [obs])"""
    parts = [p.split() for p in out.split(" # ")]
    head = parts[0]
    if len(head) != 4 or head[0] != "OK":
        return None
    return head[2], head[3], parts[1:]


def ev_incs(op, T, V):
    _, seed, mod, which = op.split(":")
    seed, mod = int(seed), int(mod)
    inc = {}
    if which in "tb":
        for e in T:
            inc[e[0]] = mix(e[0], seed) % mod
    if which in "vb":
        for e in V:
            inc[e[0]] = mix(e[0], seed + 1) % mod
    return inc


def ev_token(inc):
    items = ["%d=%d" % (u, x) for u, x in sorted(inc.items()) if x]
    return "ev:" + (",".join(items) if items else "-")


def check_draw_probabilities(ck, case, where, pre_T, pre_V, kind, draws):
    """the probabilities handed to random::boolean must be those of the weights
    difficulty + age^3 in libstdc++'s visiting order (model of weight/partition)"""
    if draws == "-":
        return
    if kind == "di":
        arr = [(e[0], 0, 1, e[3]) for e in pre_V + pre_T]
    else:
        arr = [(e[0], e[1], (e[2] + 1) & 0xffffffff, e[3]) for e in pre_V + pre_T]
    ds = [d.split("/") for d in draws.split(",")]
    if any(d[0] != "b" for d in ds) or len(ds) != len(arr):
        ck.add_diff({"case": case, "at": where}, "%d boolean draws" % len(arr), "%d draws" % len(ds),
                    what="number/kind of draws of the partition")
        return
    ws = [weight(e) for e in arr]
    wsum = sum(ws) & M64
    if wsum == 0:
        return
    k = target_double(len(arr)) / float(wsum)
    order = partition_visit_order(len(arr), [int(d[1]) for d in ds])
    ck.coverage["boolean_draw_probabilities_compared"] = ck.coverage.get("boolean_draw_probabilities_compared", 0) + len(order)
    import struct
    for j, i in enumerate(order):
        p = min(float(ws[i]) * k, 1.0)
        bits = "%016x" % struct.unpack("<Q", struct.pack("<d", p))[0]
        if bits != ds[j][2]:
            ck.add_diff({"case": case, "at": where, "draw": j}, bits, ds[j][2],
                        what="probability of the %d-th boolean draw (weights / visiting order)" % j)
            return


def run_direct(ck, cases, houts, crashes, model, base):
    """returns nothing; records diffs and violations"""
    mlines, metas = [], []
    for idx, (c, out) in enumerate(zip(cases, houts)):
        ck.count()

        pos = [len(c["ops"])]

        def bad(key, what, c=c, out=out, pos=pos):
            # shrunk replay: the history is cut after the failing call
            ck.add_violation(key, what, {"cases": [dict(c, ops=c["ops"][:pos[0]])], "impl": (out or "")[:4000]})
        if out is None or out.startswith("CRASH"):
            bad("direct:sanitizer", "sanitizer report / abort while driving %s" % harness_line(c)[:200])
            ck.violations[-1]["replay"]["sanitizer"] = crashes.get(base + idx, "")[-2000:]
            metas.append(None)
            continue
        so = split_obs(out)
        if so is None or len(so[2]) != len(c["ops"]):
            ck.add_diff(c, "one observation per call", (out or "")[:300], what="harness output malformed")
            metas.append(None)
            continue
        T0s, V0s, obs = so
        J = Judge(bad)
        ids0 = idents(parse_set(T0s), parse_set(V0s))
        cur = (parse_set(T0s), parse_set(V0s))
        clr = (0, 0)
        toks = []
        moved = False
        for k_op, o in enumerate(obs):
            op, ret, ct, cv, draws, Ts, Vs = o
            pos[0] = k_op + 1
            T1, V1 = parse_set(Ts), parse_set(Vs)
            where = "%s after %s" % (harness_line(c)[:60], op)
            kind, arg = op[:2], op.split(":")[1]
            c1 = (int(ct), int(cv))
            J.conservation(where, ids0, T1, V1)
            if kind == "ev":
                toks.append(ev_token(ev_incs(op, cur[0], cur[1])))
            elif kind == "sz":
                before = {e[0]: e[1] for e in cur[0] + cur[1]}
                toks.append(ev_token({e[0]: (e[1] - before.get(e[0], 0)) & M64 for e in T1 + V1}))
            else:
                toks.append("%s:%s:%s" % (kind, arg, draws))
            if kind == "hi":
                J.holdout(where, int(arg), c["perc"], cur, (T1, V1))
                J.clears(where, False, clr, c1)
            elif kind == "di":
                J.reshuffle(where, (T1, V1))
                J.clears(where, True, clr, c1)
                check_draw_probabilities(ck, c, where, cur[0], cur[1], "di", draws)
            elif kind == "ds":
                g = int(arg)
                due = g != 0 and g % c["gap"] == 0
                if ret != ("1" if due else "0"):
                    bad("dss:shake-report", "%s: shake(%d) returned %s with period %d" % (where, g, ret, c["gap"]))
                J.clears(where, due, clr, c1)
                if due:
                    J.reshuffle(where, (T1, V1))
                    check_draw_probabilities(ck, c, where, cur[0], cur[1], "ds", draws)
                elif (T1, V1) != cur:
                    bad("dss:shake-report", "%s: shake(%d) returned false but changed the sets" % (where, g))
            elif kind == "dc":
                J.close(where, (T1, V1))
                J.clears(where, True, clr, c1)
            if [e[0] for e in T1] != [e[0] for e in cur[0]]:
                moved = True
            cur, clr = (T1, V1), c1
        pos[0] = len(c["ops"])
        if moved:
            ck.nontriv(harness_line(c))
        mlines.append("M %d %d %s %s %s" % (c["perc"], c["gap"], T0s, V0s, " ".join(toks)))
        metas.append((c, obs))
    if not mlines:
        return
    rc, mout, merr = vv.run_lines(model, "\n".join(mlines) + "\n")
    if rc != 0 or len(mout) != len(mlines):
        raise vv.BuildError("model driver failed: rc=%s %s" % (rc, merr[:500]))
    j = 0
    for meta in metas:
        if meta is None:
            continue
        c, obs = meta
        mo = mout[j]
        j += 1
        mobs = [p.split() for p in mo.split(" # ")][1:]
        for k, o in enumerate(obs):
            op, ret, ct, cv, draws, Ts, Vs = o
            name = "ev" if op[:2] in ("ev", "sz") else ":".join(op.split(":")[:2])
            want = [name, ret, ct, cv, "0", Ts, Vs]
            got = mobs[k] if k < len(mobs) else ["(missing)"]
            if got != want:
                ck.add_diff({"case": c, "call": k, "op": op}, " ".join(got)[:600], " ".join(want)[:600])
                break
        if len(ck.samples) < 3:
            ck.sample({"case": harness_line(c)[:200], "impl": " # ".join(" ".join(o) for o in obs)[:400],
                       "model": mo[:400]})


# ------------------------------------------------------- search-mode replay
def run_search(ck, cases, houts, crashes, model, base):
    mlines, metas = [], []
    for idx, (c, out) in enumerate(zip(cases, houts)):
        ck.count()
        strat = c["strategy"]
        opened = (c["perc"] == "-") if strat == "h" else (c["gap"] == "-")

        def bad(key, what, c=c, out=out):
            ck.add_violation(key, what, {"cases": [c], "impl": (out or "")[:4000]})
        if out is None or out.startswith("CRASH") or out.startswith("EXC"):
            key = "src_search:%s:parameter-left-open" % ("holdout" if strat == "h" else "dss") if opened \
                else "src_search:sanitizer"
            bad(key, "src_search::run with %s (%s rows, percentage %s, period %s): sanitizer report / abort%s"
                % ("hold-out" if strat == "h" else "dss", c["n"], c["perc"], c["gap"],
                   " -- the open parameter is never given its default" if opened else ""))
            ck.violations[-1]["replay"]["sanitizer"] = crashes.get(base + idx, "")[-2000:]
            metas.append(None)
            continue
        parts = [p.split() for p in out.split(" # ")]
        head, evs = parts[0], parts[1:]
        T0s, V0s = head[2], head[3]
        ids0 = idents(parse_set(T0s), parse_set(V0s))
        J = Judge(bad)
        end = evs[-1]
        eperc, edss = end[1], end[2]
        perc = DFLT_PERC if c["perc"] == "-" else c["perc"]
        gap = DFLT_DSS if c["gap"] == "-" else c["gap"]
        if (c["perc"] != "-" and strat == "h" and eperc != str(c["perc"])) or \
           (c["gap"] != "-" and strat == "d" and edss != str(c["gap"])):
            bad("src_search:tune-overrides-user-setting",
                "src_search::run (%s, %d rows): the user set validation_percentage=%s / dss=%s, after tune_parameters "
                "the environment holds %s / %s" % ("hold-out" if strat == "h" else "dss", c["n"], c["perc"], c["gap"],
                                                   eperc, edss))
        if strat == "h" and eperc == "-":
            bad("src_search:holdout:parameter-left-open",
                "src_search::run with hold-out and validation_percentage left open: the parameter is still "
                "undefined after tune_parameters (%d rows)" % c["n"])
        if strat == "d" and edss == "-":
            bad("src_search:dss:parameter-left-open",
                "src_search::run with dss and the period left open: env.dss is still undefined after "
                "tune_parameters (%d rows)" % c["n"])
        # through the real cache proxy: a fitness obtained after a reshuffle must be the one of the new training set
        for e in evs:
            if e[0] == "G" and len(e) > 6:
                ck.coverage["proxy_fitness_compared"] = ck.coverage.get("proxy_fitness_compared", 0) + 1
                if e[6] == "F0":
                    bad("dss:stale-cached-fitness",
                        "src_search dss n=%d period=%s cache 2^%s: at the end of generation %s of run %s the caching "
                        "evaluator answers with a fitness that is not the one of the current training set (cached "
                        "values were not dropped at a reshuffle)" % (c["n"], c["gap"], c.get("cache"), e[2], e[1]))
                    break
        # rebuild the history of calls from the events
        toks = []           # model ops
        expect = []         # (index of model observation, T string, V string, clr_t, clr_v) to compare
        cur_T, cur_V = parse_set(T0s), parse_set(V0s)
        last = {e[0]: e[1] for e in cur_T + cur_V}          # difficulties the model has
        clr = (0, 0)
        moved = False

        def eval_to(Ts, Vs):
            nonlocal last
            now = {e[0]: e[1] for e in parse_set(Ts) + parse_set(Vs)}
            inc = {u: (now[u] - last.get(u, 0)) & M64 for u in now}
            toks.append(ev_token(inc))
            last = now
        if strat == "h":
            run_seen = -1
            for e in evs:
                if e[0] == "G":
                    run, gen, draws, Ts, Vs = int(e[1]), int(e[2]), e[3], e[4], e[5]
                    where = "src_search hold-out n=%d perc=%s run %d generation %d" % (c["n"], c["perc"], run, gen)
                    if run != run_seen:
                        before = (cur_T, cur_V)
                        toks.append("hi:%d:%s" % (run, draws))
                        run_seen = run
                        J.holdout(where, run, perc, before, (parse_set(Ts), parse_set(Vs)))
                        if run == 0 and parse_set(Vs):
                            moved = True
                    eval_to(Ts, Vs)
                    expect.append((len(toks) - 1, Ts, Vs, 0, 0))
                    cur_T, cur_V = parse_set(Ts), parse_set(Vs)
                    J.conservation(where, ids0, cur_T, cur_V)
                elif e[0] == "E":
                    Ts, Vs = e[3], e[4]
                    eval_to(Ts, Vs)
                    expect.append((len(toks) - 1, Ts, Vs, 0, 0))
                    J.conservation("src_search hold-out end", ids0, parse_set(Ts), parse_set(Vs))
        else:
            # clear() pairs delimit the calls: the first of a run is init, one that follows generation g-1 and
            # precedes generation g is shake(g), the one after the last generation of a run is close
            run, lastgen, pend = 0, None, None
            latest = (T0s, V0s)
            k = 0
            shakes_seen = []
            while k < len(evs):
                e = evs[k]
                if e[0] == "G":
                    lastgen = int(e[2])
                    latest = (e[4], e[5])
                    J.conservation("src_search dss generation %s" % e[2], ids0, parse_set(e[4]), parse_set(e[5]))
                elif e[0] == "C" and e[1] == "t":
                    ev = evs[k + 1] if k + 1 < len(evs) else None
                    if ev is None or ev[0] != "C" or ev[1] != "v":
                        bad("dss:evaluators-not-cleared", "src_search dss: training evaluator cleared without the "
                            "validation evaluator")
                        break
                    draws, Ts, Vs = e[4], ev[5], ev[6]
                    T1, V1 = parse_set(Ts), parse_set(Vs)
                    nxt = evs[k + 2] if k + 2 < len(evs) else None
                    if lastgen is None:
                        kind, arg = "di", run
                    elif nxt is not None and nxt[0] == "G" and int(nxt[2]) == lastgen + 1:
                        kind, arg = "ds", lastgen + 1
                    else:
                        kind, arg = "dc", run
                    where = "src_search dss n=%d period=%s run %d %s(%d)" % (c["n"], c["gap"], run, kind, arg)
                    eval_to(*latest)
                    pre_T, pre_V = parse_set(latest[0]), parse_set(latest[1])
                    if kind == "dc":
                        toks.append("dc:%d:-" % arg)
                        J.close(where, (T1, V1))
                        run, lastgen = run + 1, None
                    else:
                        toks.append("%s:%d:%s" % (kind, arg, draws))
                        J.reshuffle(where, (T1, V1))
                        check_draw_probabilities(ck, c, where, pre_T, pre_V, kind, draws)
                        if kind == "ds":
                            shakes_seen.append((run, arg))
                            if arg % gap != 0:
                                bad("dss:shake-report", "%s: reshuffle at a generation that is not a multiple of the "
                                    "period" % where)
                        moved = True
                    J.conservation(where, ids0, T1, V1)
                    clr = (int(ev[2]), int(ev[3]))
                    expect.append((len(toks) - 1, Ts, Vs, clr[0], clr[1]))
                    latest = (Ts, Vs)
                    last = {x[0]: x[1] for x in T1 + V1}
                    k += 1
                elif e[0] == "E":
                    pass
                k += 1
            # every generation that is a positive multiple of the period must have reshuffled
            gens_by_run = {}
            r = -1
            for e in evs:
                if e[0] == "G":
                    if int(e[2]) == 0:
                        r += 1
                    gens_by_run.setdefault(r, []).append(int(e[2]))
            for r, gl in gens_by_run.items():
                for g in gl:
                    if g != 0 and g % gap == 0 and (r, g) not in shakes_seen:
                        bad("src_search:dss:parameter-left-open" if opened else "dss:shake-report",
                            "src_search dss n=%d period=%s: generation %d of run %d is a multiple of the period (%d) "
                            "but the sets were not reshuffled / the evaluators not cleared" % (c["n"], c["gap"], g, r, gap))
                        break
        if moved:
            ck.nontriv(harness_line(c))
        mperc = perc if strat == "h" else SENT
        mlines.append("M %d %d %s %s %s" % (mperc, gap if strat == "d" else SENT, T0s, V0s, " ".join(toks)))
        metas.append((c, expect, out))
    if not mlines:
        return
    rc, mout, merr = vv.run_lines(model, "\n".join(mlines) + "\n")
    if rc != 0 or len(mout) != len(mlines):
        raise vv.BuildError("model driver failed: rc=%s %s" % (rc, merr[:500]))
    j = 0
    for meta in metas:
        if meta is None:
            continue
        c, expect, out = meta
        mobs = [p.split() for p in mout[j].split(" # ")][1:]
        j += 1
        for (k, Ts, Vs, ct, cv) in expect:
            got = mobs[k] if k < len(mobs) else ["(missing)"]
            if len(got) < 7 or got[5:7] != [Ts, Vs] or got[4] != "0" or got[2:4] != [str(ct), str(cv)]:
                ck.add_diff({"case": c, "model_call": k}, " ".join(got)[:600],
                            "%d %d 0 %s %s" % (ct, cv, Ts[:250], Vs[:250]))
                break
        if len(ck.samples) < 5:
            ck.sample({"case": harness_line(c), "impl": out[:300], "model": mout[j - 1][:300]})


# --------------------------------------------------------------------- main
def build_tree():
    """library + harness from the current tree.  The snapshot/library caches under .build are shared by all
    checks and garbage-collected by whichever check runs: when the snapshot this run uses disappears under
    our feet (a source file of the tree is missing from the snapshot) the build is simply repeated; a real
    build failure of the tree is re-raised."""
    import os
    import time
    for attempt in range(4):
        try:
            L = vv.build_lib("asan")
            if os.path.getsize(L["lib"]) < 100000:
                raise vv.BuildError("empty library (snapshot vanished)")
            return vv.build_harness("h_valid")
        except vv.BuildError:
            snap = os.path.join(vv.BUILD, "src-" + vv.src_hash())
            intact = all(os.path.exists(os.path.join(snap, os.path.relpath(f, os.path.join(vv.REPO, "src"))))
                         for f in vv._src_files())
            lib = os.path.join(vv.BUILD, "lib-%s-asan" % vv.src_hash(), "libvita.a")
            empty = os.path.exists(lib) and os.path.getsize(lib) < 100000
            if (intact and not empty) or attempt == 3:
                raise
            if empty:
                import shutil
                shutil.rmtree(os.path.dirname(lib), ignore_errors=True)
            time.sleep(1 + attempt)


def run(ck):
    harness = build_tree()
    # regenerate the facts the model interprets (Gen/ValidFacts.v) from the tree under test
    text, problems = valid_facts.generate(vv.snapshot()[0])
    if problems:
        ck.notes.append("translator: " + "; ".join(problems)[:500] +
                        " -- Gen/ValidFacts.v kept as hand-written model, tie = correspondence only")
        # the working copy may hold the facts of another tree: go back to the checked-in ones
        rc, good = vv.sh(["git", "-C", vv.VERIF, "show", "HEAD:coq/Gen/ValidFacts.v"])
        if rc == 0 and "gen_weight" in good:
            with vv.Lock("coq"):
                vv.write_if_changed(os.path.join(vv.COQ, "Gen", "ValidFacts.v"), good)
    else:
        with vv.Lock("coq"):
            vv.write_if_changed(os.path.join(vv.COQ, "Gen", "ValidFacts.v"), text)
        ck.tie = "regenerated+correspondence"
    # the binary64 expressions of ratio / target_size (Gen/ValidTargetFacts.v), subject of the Flocq proof
    text, problems = valid_facts.generate_target(vv.snapshot()[0])
    if problems:
        ck.notes.append("translator (target_size): " + "; ".join(problems)[:400] + " -- checked-in expressions kept")
        rc, good = vv.sh(["git", "-C", vv.VERIF, "show", "HEAD:coq/Gen/ValidTargetFacts.v"])
        if rc == 0 and "gen_ratio" in good:
            with vv.Lock("coq"):
                vv.write_if_changed(os.path.join(vv.COQ, "Gen", "ValidTargetFacts.v"), good)
    else:
        with vv.Lock("coq"):
            vv.write_if_changed(os.path.join(vv.COQ, "Gen", "ValidTargetFacts.v"), text)
    res = vv.prove("Properties_C16", vv.FLOCQ_AXIOMS)
    ck.add_proof(res)
    # what is false of the pinned tree's model (the typeid finding), kept as machine-checked witnesses
    ck.add_proof(vv.prove("Refuted_C16", set()))
    ck.trusted += ["translate/valid_facts.py (expressions / call sequences of holdout_validation.cc and dss.cc -> "
                   "Gen/ValidFacts.v) and the interpreter of those facts in coq/Valid/ValidDefs.v",
                   "extraction: ExtrOcamlBasic only, no Extract Constant; ocaml/valid_driver.ml + zutil.ml",
                   "harness/h_valid.cc (dump format, attribution of logged draws to calls); hook H1 (draw sink)",
                   "g++ 12 ASan/UBSan as the detector of executed undefined behaviour"]
    ck.assumptions += [
        "H_draws: random::sup(k) returns 0 <= r < k (a draw outside the range is an error outcome of the model, "
        "the theorems' progress parts assume it); boolean draws are unconstrained (the theorems hold for every "
        "outcome, whatever the probability)",
        "H_target (1 <= static_cast<ptrdiff_t>(target_size) < n) is no longer a hypothesis for the code's arithmetic: "
        "C16_target_size_binary64 proves it with Flocq for the binary64 evaluation of the expressions regenerated "
        "from dss.cc, for every 2 <= n < 2^53 (static_cast<double>(n) exact); the generic theorems keep it as the "
        "premise target_ok so that they also cover the exact rational value (proved for all n)",
        "the four Flocq/stdlib axioms are printed only by the three ..._binary64 theorems; all others are "
        "closed under the global context",
        "evaluators are abstracted to counters of clear() calls; examples to (uid, opaque payload, difficulty, age)"]

    model = vv.ocaml_model("Valid")

    rng = ck.rng
    if ck.replay_path:
        rp = json.load(open(ck.replay_path))
        cases = rp.get("cases", [])
        dcases = [c for c in cases if c.get("mode") == "D"]
        scases = [c for c in cases if c.get("mode") == "S"]
        tsizes = []
    else:
        nd = 6000 if ck.thorough else 420
        ns = 240 if ck.thorough else 36
        dcases = [gen_direct(rng, k) for k in range(nd)] + boundary_direct(rng) + share_boundaries(rng, ck.thorough)
        scases = [gen_search(rng, k, ck.thorough) for k in range(ns)] + boundary_search(rng)
        tsizes = list(range(0, 2000)) + [rng.randint(2000, 10**7) for _ in range(2000)]

    lines = [harness_line(c) for c in dcases + scases] + ["T %d" % s for s in tsizes]
    hout, crashes = pc.run_harness_resilient(harness, lines)
    nd_, ns_ = len(dcases), len(scases)
    run_direct(ck, dcases, hout[:nd_], crashes, model, 0)
    run_search(ck, scases, hout[nd_:nd_ + ns_], crashes, model, nd_)

    # target_size: binary64 (real code's expression, python) against the exact rational model
    if tsizes:
        rc, mq, _ = vv.run_lines(model, "\n".join("Q %d" % s for s in tsizes) + "\n")
        for s, ho, mo in zip(tsizes, hout[nd_ + ns_:], mq):
            ck.count()
            want = "OK %d" % int(target_double(s))
            wantm = "OK %d %d" % (target_q(s), int(target_double(s)))
            if ho != want or (s >= 1 and mo != wantm):
                ck.add_diff({"target_size_of": s}, mo, ho, what="static_cast<ptrdiff_t>(target_size)")
            if s >= 2 and ho is not None and ho.startswith("OK") and not (1 <= int(ho.split()[1]) < s):
                ck.add_violation("dss:target-size", "target_size for %d examples is %s: the fallback split leaves a set "
                                 "empty" % (s, ho), {"target_size_of": s, "impl": ho})
        if not ck.thorough:
            bad_s = next((s for s in range(2, 200000) if int(target_double(s)) != target_q(s)), None)
        else:
            bad_s = next((s for s in range(2, 3000000) if int(target_double(s)) != target_q(s)), None)
        if bad_s is not None:
            ck.add_diff({"target_size_of": bad_s}, str(target_q(bad_s)), str(int(target_double(bad_s))),
                        what="binary64 target_size differs from the exact rational value")
    ck.coverage["direct_histories"] = nd_
    ck.coverage["src_search_runs"] = ns_
    ck.coverage["target_sizes_checked"] = len(tsizes)
    return ck.finish(
        rule="seeded histories of init/shake/close calls on the real objects (sizes 2..300, percentages 0..99, periods "
             "1..7, several runs, random difficulty increments up to 2^63 between calls; protocol order and arbitrary "
             "interleavings) plus whole src_search::run executions with hold-out / dss (parameter given or left "
             "open); every call is one comparison point (both dataframes, return value, clear counts); non-trivial "
             "= a history in which at least one call moved examples between the sets; distinct = distinct "
             "(size, percentage, period, seed, calls)")
