#!/usr/bin/env python3
"""Regenerate coq/Gen/Prims.v from the primitive headers of a source tree.

usage: gen_prims.py <src-root> <out.v>
Prints one line per class:  OK <ident>  |  PROBLEM <text>.
Returns the list of idents in the order of prims_all (used by the checks to
address a primitive by index).  If any class falls outside the subset the
output file is NOT overwritten (the caller falls back to the checked-in file
as a hand-written model).
"""
import os
import sys

sys.path.insert(0, os.path.dirname(os.path.abspath(__file__)))
import cxx_mini

HEADERS = [("int", "int"), ("real", "real"), ("bool", "bool"), ("string", "string")]


def generate(src_root):
    infos, problems = [], []
    for h, p in HEADERS:
        path = os.path.join(src_root, "kernel/gp/src/primitive/%s.h" % h)
        try:
            i, pr = cxx_mini.translate_header(path, p, os.path.join(src_root, "utility/utility.h"),
                                                  os.path.join(src_root, "kernel/value.h"))
        except (cxx_mini.OutsideSubset, OSError, ValueError) as e:
            i, pr = [], ["%s.h: %s" % (h, e)]
        infos += i
        problems += pr
    text = cxx_mini.emit(infos, "src/kernel/gp/src/primitive/{int,real,bool,string}.h", "prims")
    return infos, problems, text


if __name__ == "__main__":
    infos, problems, text = generate(sys.argv[1])
    for i in infos:
        print("OK", i["ident"])
    for p in problems:
        print("PROBLEM", p)
    if not problems:
        with open(sys.argv[2], "w") as f:
            f.write(text)
