"""C15 -- translator: src/kernel/cache.cc -> coq/Gen/CacheProto.v

For every cache:: method it extracts, from the text of the definition,
  * the lock the method constructs FIRST (std::shared_lock -> Shared,
    std::unique_lock / lock_guard / scoped_lock -> Exclusive, none -> NoLock)
    and whether any shared field is touched outside its protection (before
    that statement, or anywhere once the body calls unlock()/release());
  * the shared fields it reads and the shared fields it writes
    (seal_, and hash / fitness / seal of the table_ slots);
  * how the result leaves the function (ByValue / ByRef / NoResult), from the
    declared return type.
The output only contains definitions; the theorems of Props/Properties_C15.v
are stated about them, so a change of the lock protocol in the source changes
what is proved.

generate(snapshot_dir) -> (text, problems).  When something falls outside the
recognised subset, problems is non-empty and the caller keeps the checked-in
file (tie = correspondence only)."""
import os
import re

METHODS = ["find", "insert", "clear", "clear_one", "load", "save"]


def strip_comments(src):
    src = re.sub(r"/\*.*?\*/", " ", src, flags=re.S)
    src = re.sub(r"//[^\n]*", " ", src)
    return src


def strip_preprocessor_hooks(src):
    """drop #if defined(VITA_VERIF) ... #endif blocks (the H3 hook) and other directives"""
    out = []
    skip = 0
    for l in src.splitlines():
        s = l.strip()
        if s.startswith("#if"):
            skip += 1 if "VITA_VERIF" in s or skip else 0
            if skip:
                continue
        if skip and s.startswith("#endif"):
            skip -= 1
            continue
        if skip:
            continue
        if s.startswith("#"):
            continue
        out.append(l)
    return "\n".join(out)


def method_defs(src):
    """[(name, return type text, parameter text, body)] of the cache:: member definitions"""
    res = []
    for m in re.finditer(r"([A-Za-z_:<>\s&\*]*?)\bcache::(\w+)\s*\(([^)]*)\)\s*(const)?\s*(?::[^{]*)?\{", src):
        ret, name, params = m.group(1).strip(), m.group(2), m.group(3)
        i = m.end()
        depth = 1
        while i < len(src) and depth:
            depth += {"{": 1, "}": -1}.get(src[i], 0)
            i += 1
        res.append((name, ret, params, src[m.end():i - 1]))
    return res


LOCKS = [(r"std::shared_lock\b", "Shared"), (r"std::(unique_lock|lock_guard|scoped_lock)\b", "Exclusive")]


def analyse(name, ret, params, body):
    problems = []
    # ---- first lock
    first = None
    for pat, kind in LOCKS:
        for m in re.finditer(pat + r"[^;]*\bmutex_\b[^;]*;", body):
            if first is None or m.start() < first[0]:
                first = (m.start(), m.end(), kind)
    lock = first[2] if first else "NoLock"
    before = body[:first[0]] if first else ""
    after = body[first[1]:] if first else body
    shared_re = r"\b(seal_|table_)\b"
    touched_before = bool(re.search(shared_re, before))
    # an explicit unlock()/release() ends the protection before the end of the
    # scope: whatever follows counts as touched outside the lock
    if re.search(r"\.\s*(unlock|release)\s*\(", after):
        touched_before = True
    # ---- slot aliases: `slot &s(table_[..])`, `const slot &s(table_[..])`, `for (auto &s : table_)`
    aliases = {}
    for m in re.finditer(r"(const\s+)?(?:slot|auto)\s*&\s*(\w+)\s*(?:\(|=|:)\s*table_", after):
        aliases[m.group(2)] = bool(m.group(1))
    reads, writes = set(), set()
    # seal_
    if re.search(r"(\+\+|--)\s*seal_\b|\bseal_\s*(\+\+|--|[-+*/|&^]?=(?!=))", after):
        writes.add("FSeal")
    if re.search(r"\bseal_\b(?!\s*(=(?!=)|\+\+|--))", re.sub(r"(\+\+|--)\s*seal_\b", " ", after)):
        reads.add("FSeal")
    # whole-slot assignment  table_[..] = s;
    if re.search(r"\btable_\s*\[[^\]]*\]\s*=(?!=)", after):
        writes.update(["FSlotHash", "FSlotFitness", "FSlotSeal"])
    fld = {"hash": "FSlotHash", "fitness": "FSlotFitness", "seal": "FSlotSeal"}
    # table_[..].f = / table_[..].f
    for m in re.finditer(r"\btable_\s*\[[^\]]*\]\s*\.\s*(\w+)\s*(=(?!=))?", after):
        f = fld.get(m.group(1))
        if f is None:
            problems.append("%s: unknown slot member %s" % (name, m.group(1)))
        elif m.group(2):
            writes.add(f)
        else:
            reads.add(f)
    for a, is_const in aliases.items():
        for m in re.finditer(r"\b%s\s*\.\s*(\w+)\s*(\.\s*\w+\s*\()?\s*(=(?!=))?" % re.escape(a), after):
            f = fld.get(m.group(1))
            if f is None:
                problems.append("%s: unknown slot member %s.%s" % (name, a, m.group(1)))
                continue
            if m.group(3) and not m.group(2):
                if is_const:
                    problems.append("%s: assignment through const alias %s" % (name, a))
                writes.add(f)
            elif m.group(2) and re.match(r"\.\s*load\s*\(", m.group(2)):
                writes.add(f)          # s.hash.load(in) / s.fitness.load(in)
            else:
                reads.add(f)
    # a local `slot s;` filled and then assigned as a whole is not shared: drop
    # reads/writes that only come from such a local
    for m in re.finditer(r"(?<![&\w])slot\s+(\w+)\s*;", after):
        loc = m.group(1)
        aliases.pop(loc, None)
    # ---- result
    r = " ".join(ret.split())
    if r in ("void", "", "bool", "inline std::size_t", "std::size_t"):
        result = "NoResult"
    elif "&" in r:
        result = "ByRef"
    elif "fitness_t" in r:
        result = "ByValue"
    else:
        result = "NoResult"
        problems.append("%s: unrecognised return type %r" % (name, r))
    return {"name": name, "lock": lock, "touched_before_lock": touched_before,
            "reads": sorted(reads), "writes": sorted(writes), "result": result}, problems


def generate(snap):
    path = os.path.join(snap, "kernel", "cache.cc")
    with open(path) as f:
        src = strip_comments(strip_preprocessor_hooks(f.read()))
    problems = []
    infos = {}
    for name, ret, params, body in method_defs(src):
        key = name
        if name == "clear":
            key = "clear_one" if params.strip() else "clear"
        if key not in METHODS:
            continue
        info, pr = analyse(key, ret, params, body)
        problems += pr
        if key in infos:
            problems.append("two definitions of cache::%s" % key)
        infos[key] = info
    for m in METHODS:
        if m not in infos:
            problems.append("cache::%s not found" % m)
    if problems:
        return None, problems, infos
    lines = ["(* GENERATED by translate/cache_proto.py from src/kernel/cache.cc -- do not edit.",
             "   Per cache:: method: the lock constructed first, whether a shared field is",
             "   touched before it, the shared fields read / written, how the result leaves. *)",
             "From Coq Require Import List.",
             "From VV Require Import Conc.ProtoTypes.",
             "Import ListNotations.",
             ""]
    for m in METHODS:
        i = infos[m]
        lines.append("Definition %s_proto : proto :=" % m)
        lines.append("  mkproto %s %s [%s] [%s] %s." % (
            i["lock"], "true" if i["touched_before_lock"] else "false",
            "; ".join(i["reads"]), "; ".join(i["writes"]), i["result"]))
        lines.append("")
    lines.append("Definition gen_protos : protos :=")
    lines.append("  mkprotos %s." % " ".join(m + "_proto" for m in METHODS))
    return "\n".join(lines) + "\n", [], infos


# =====================================================================
# C04 -- table-level facts: cache.cc / cache.h / cache_hash.h -> coq/Gen/CacheTable.v
# =====================================================================
def _norm(x):
    return " ".join(x.split())


def _conjuncts(e):
    """split a && b && c at top level"""
    out, depth, cur = [], 0, ""
    i = 0
    while i < len(e):
        c = e[i]
        if c in "([":
            depth += 1
        elif c in ")]":
            depth -= 1
        if depth == 0 and e.startswith("&&", i):
            out.append(cur.strip())
            cur = ""
            i += 2
            continue
        cur += c
        i += 1
    out.append(cur.strip())
    return [x for x in out if x]


def _eq_sides(c):
    m = re.fullmatch(r"(.+?)\s*==\s*(.+)", c)
    return (m.group(1).strip(), m.group(2).strip()) if m else None


def table_facts(snap):
    """returns (facts dict, problems)"""
    pr = []
    f = {}
    with open(os.path.join(snap, "kernel", "cache.cc")) as fh:
        cc = strip_comments(strip_preprocessor_hooks(fh.read()))
    with open(os.path.join(snap, "kernel", "cache_hash.h")) as fh:
        hh = strip_comments(fh.read())
    # ---- hash_t::operator== and empty()
    m = re.search(r"bool\s+operator==\s*\(\s*hash_t\s+(\w+)\s*\)\s*const\s*\{\s*return\s+(.*?);\s*\}", hh, re.S)
    f["eq_half0"] = f["eq_half1"] = False
    if not m:
        pr.append("hash_t::operator== not found")
    else:
        o = m.group(1)
        for c in _conjuncts(_norm(m.group(2))):
            sd = _eq_sides(c)
            ok = False
            for i in (0, 1):
                if sd and set(sd) == {"data[%d]" % i, "%s.data[%d]" % (o, i)}:
                    f["eq_half%d" % i] = True
                    ok = True
            if not ok:
                pr.append("hash_t::operator==: conjunct %r outside subset" % c)
    m = re.search(r"bool\s+empty\s*\(\s*\)\s*const\s*\{\s*return\s+(.*?);\s*\}", hh, re.S)
    f["empty_half0"] = f["empty_half1"] = False
    if not m:
        pr.append("hash_t::empty not found")
    else:
        for c in _conjuncts(_norm(m.group(1))):
            mm = re.fullmatch(r"!\s*data\[(\d)\]|data\[(\d)\]\s*==\s*0", c)
            if mm:
                f["empty_half%s" % (mm.group(1) or mm.group(2))] = True
            else:
                pr.append("hash_t::empty: conjunct %r outside subset" % c)
    # ---- method bodies
    bodies = {}
    for name, ret, params, body in method_defs(cc):
        key = name
        if name == "clear":
            key = "clear_one" if params.strip() else "clear"
        bodies[key] = (_norm(body), _norm(params))
    # constructor
    m = re.search(r"cache::cache\s*\(\s*unsigned\s+(\w+)\s*\)\s*:(.*?)\{", cc, re.S)
    init = _norm(m.group(2)) if m else ""
    b = m.group(1) if m else "bits"
    f["ctor_seal_one"] = bool(re.search(r"k_mask\(\(1ull << %s\) - 1\)" % b, init) and
                              re.search(r"table_\(1ull << %s\)" % b, init) and re.search(r"seal_\(1\)", init))
    if not f["ctor_seal_one"]:
        pr.append("constructor initialisers outside subset: %r" % init)
    # index
    body = bodies.get("index", ("", ""))[0]
    m = re.fullmatch(r"return (\w+)\.data\[(\d)\]( & k_mask)?;", body)
    if not m:
        pr.append("index(): %r outside subset" % body)
        f["index_half"], f["index_mask"] = 0, True
    else:
        f["index_half"], f["index_mask"] = int(m.group(2)), bool(m.group(3))
    lockre = r"^std::\w+ lock\(mutex_\); ?"
    # find
    body = re.sub(lockre, "", bodies.get("find", ("", ""))[0])
    m = re.fullmatch(r"const slot &(\w+)\(table_\[index\((\w+)\)\]\); const bool (\w+)\((.*)\); "
                     r"if \(\3\) return \1\.fitness; return \{\};", body)
    f["find_seal"], f["find_key"] = False, []
    if not m:
        pr.append("find(): body outside subset: %r" % body[:200])
    else:
        sv, hv = m.group(1), m.group(2)
        for c in _conjuncts(m.group(4)):
            sd = _eq_sides(c)
            if sd and set(sd) == {"seal_", sv + ".seal"}:
                f["find_seal"] = True
            elif sd and set(sd) == {hv, sv + ".hash"}:
                f["find_key"].append("KEq")
            elif sd and set(sd) == {hv + ".data[0]", sv + ".hash.data[0]"}:
                f["find_key"].append("KHalf0")
            elif sd and set(sd) == {hv + ".data[1]", sv + ".hash.data[1]"}:
                f["find_key"].append("KHalf1")
            elif re.fullmatch(r"!\(\((%s\.data\[0\] \^ %s\.hash\.data\[0\]|%s\.hash\.data\[0\] \^ %s\.data\[0\])\) & ~k_mask\)"
                              % (hv, sv, sv, hv), c):
                f["find_key"].append("KHigh0")
            else:
                pr.append("find(): conjunct %r outside subset" % c)
    # insert
    body = re.sub(lockre, "", bodies.get("insert", ("", ""))[0])
    par = bodies.get("insert", ("", ""))[1]
    m = re.fullmatch(r"const hash_t &(\w+), const fitness_t &(\w+)", par)
    hv, fv = (m.group(1), m.group(2)) if m else ("h", "fitness")
    m = re.fullmatch(r"slot (\w+); (.*?)table_\[index\(\1\.hash\)\] = \1;", body)
    f["ins_hash"] = f["ins_fit"] = f["ins_seal"] = False
    if not m:
        pr.append("insert(): body outside subset: %r" % body[:200])
    else:
        sv = m.group(1)
        for st in [x.strip() for x in m.group(2).split(";") if x.strip()]:
            st = _norm(st)
            if st == "%s.hash = %s" % (sv, hv):
                f["ins_hash"] = True
            elif st == "%s.fitness = %s" % (sv, fv):
                f["ins_fit"] = True
            elif st == "%s.seal = seal_" % sv:
                f["ins_seal"] = True
            else:
                pr.append("insert(): statement %r outside subset" % st)
    # clear()
    body = re.sub(lockre, "", bodies.get("clear", ("", ""))[0])
    if re.fullmatch(r"if \(\+\+seal_ == 0\) \{ for \(auto &(\w+) : table_\) \1\.seal = 0; seal_ = 1; \}", body):
        f["clear"] = "CkIncReset"
    elif body in ("++seal_;", "seal_++;", "seal_ += 1;"):
        f["clear"] = "CkInc"
    elif body == "":
        f["clear"] = "CkNone"
    else:
        f["clear"] = "CkIncReset"
        pr.append("clear(): body outside subset: %r" % body[:200])
    # clear(key)
    body = re.sub(lockre, "", bodies.get("clear_one", ("", ""))[0])
    if re.fullmatch(r"table_\[index\(\w+\)\]\.hash = hash_t\(\);", body):
        f["clear_one"] = "CoHash"
    elif re.fullmatch(r"table_\[index\(\w+\)\]\.seal = 0;", body):
        f["clear_one"] = "CoSeal"
    elif body == "":
        f["clear_one"] = "CoNone"
    else:
        f["clear_one"] = "CoHash"
        pr.append("clear(key): body outside subset: %r" % body[:200])
    # save
    body = re.sub(lockre, "", bodies.get("save", ("", ""))[0])
    m = re.fullmatch(r"out << seal_ << ' ' << '\\n'; std::size_t (\w+)\(0\); for \(const auto &(\w+) : table_\) "
                     r"if \((.*?)\) \+\+\1; out << \1 << '\\n'; for \(const auto &(\w+) : table_\) if \((.*?)\) "
                     r"\{ \4\.hash\.save\(out\); \4\.fitness\.save\(out\); \} return out\.good\(\);", body)

    def live(cond, sv, what):
        t = {"seal": False, "key": False, "fit": False}
        for c in _conjuncts(cond):
            sd = _eq_sides(c)
            if sd and set(sd) == {"seal_", sv + ".seal"}:
                t["seal"] = True
            elif c == "!%s.hash.empty()" % sv:
                t["key"] = True
            elif c in ("%s.fitness.size()" % sv, "%s.fitness.size() > 0" % sv, "%s.fitness.size() != 0" % sv):
                t["fit"] = True
            else:
                pr.append("save(): %s conjunct %r outside subset" % (what, c))
        return t
    if not m:
        pr.append("save(): body outside subset: %r" % body[:300])
        f["save_count"] = f["save_write"] = {"seal": True, "key": True, "fit": True}
    else:
        f["save_count"] = live(m.group(3), m.group(2), "count")
        f["save_write"] = live(m.group(5), m.group(4), "write")
    # load
    body = re.sub(lockre, "", bodies.get("load", ("", ""))[0])
    m = re.fullmatch(r"decltype\(seal_\) (\w+); if \(!\(in >> \1\)\) return false; std::size_t (\w+); "
                     r"if \(!\(in >> \2\)\) return false; for \(decltype\(\2\) (\w+)\(0\); \3 < \2; \+\+\3\) \{ slot (\w+); "
                     r"(\4\.seal = \1; )?if \(!\4\.hash\.load\(in\)\) return false; if \(!\4\.fitness\.load\(in\)\) return false; "
                     r"table_\[index\(\4\.hash\)\] = \4; \} (seal_ = \1; )?return true;", body)
    if not m:
        pr.append("load(): body outside subset: %r" % body[:300])
        f["load_slot_seal"] = f["load_sets_seal"] = True
    else:
        f["load_slot_seal"], f["load_sets_seal"] = bool(m.group(5)), bool(m.group(6))
    return f, pr


def generate_table(snap):
    """(text or None, problems, facts)"""
    try:
        f, pr = table_facts(snap)
    except Exception as e:      # a parse accident is a translator failure, never a verdict
        return None, ["translator exception: %r" % (e,)], {}
    if pr:
        return None, pr, f
    b = lambda x: "true" if x else "false"
    lt = lambda t: "(mklt %s %s %s)" % (b(t["seal"]), b(t["key"]), b(t["fit"]))
    lines = ["(* GENERATED by translate/cache_proto.py from src/kernel/cache.cc, cache_hash.h -- do not edit.",
             "   The table-level facts of the cache the C04 model is built from. *)",
             "From Coq Require Import List.",
             "From VV Require Import Cache.TableTypes.",
             "Import ListNotations.",
             "",
             "Definition gen_facts : facts :=",
             "  mkfacts",
             "    %s  (* find tests seal_ == s.seal *)" % b(f["find_seal"]),
             "    [%s]  (* find: conjuncts about the key *)" % "; ".join(f["find_key"]),
             "    %s %s  (* hash_t::operator== compares data[0], data[1] *)" % (b(f["eq_half0"]), b(f["eq_half1"])),
             "    %s %s  (* hash_t::empty tests data[0], data[1] *)" % (b(f["empty_half0"]), b(f["empty_half1"])),
             "    %s %s  (* index(): uses data[1]?, masked with k_mask = 2^bits-1? *)" % (b(f["index_half"] == 1), b(f["index_mask"])),
             "    %s %s %s  (* insert stamps hash, fitness, seal := seal_ *)" % (b(f["ins_hash"]), b(f["ins_fit"]), b(f["ins_seal"])),
             "    %s  (* clear() *)" % f["clear"],
             "    %s  (* clear(key) *)" % f["clear_one"],
             "    %s %s  (* save: test of the counting loop, of the writing loop (seal, key, fitness) *)" % (lt(f["save_count"]), lt(f["save_write"])),
             "    %s %s  (* load: s.seal = t_seal; seal_ = t_seal *)" % (b(f["load_slot_seal"]), b(f["load_sets_seal"])),
             "    %s.  (* constructor: k_mask, table size, seal_(1) *)" % b(f["ctor_seal_one"]),
             ""]
    return "\n".join(lines), [], f


if __name__ == "__main__":
    import sys
    text, problems, infos = generate(sys.argv[1] if len(sys.argv) > 1 else "/repo/src")
    print(text if text else problems)
    text, problems, facts = generate_table(sys.argv[1] if len(sys.argv) > 1 else "/repo/src")
    print(text if text else problems)
