"""C15 -- translator: src/kernel/cache.cc -> coq/Gen/CacheProto.v

For every cache:: method it extracts, from the text of the definition,
  * the lock the method constructs FIRST (std::shared_lock -> Shared,
    std::unique_lock / lock_guard / scoped_lock -> Exclusive, none -> NoLock)
    and whether any shared field is touched outside its protection (before
    that statement, or anywhere once the body calls unlock()/release());
  * the shared fields it reads and the shared fields it writes
    (seal_, and hash / fitness / seal of the table_ slots);
  * how the result leaves the function (ByValue / ByRef / NoResult), from the
    declared return type.
The output only contains definitions; the theorems of Props/Properties_C15.v
are stated about them, so a change of the lock protocol in the source changes
what is proved.

generate(snapshot_dir) -> (text, problems).  When something falls outside the
recognised subset, problems is non-empty and the caller keeps the checked-in
file (tie = correspondence only)."""
import os
import re

METHODS = ["find", "insert", "clear", "clear_one", "load", "save"]


def strip_comments(src):
    src = re.sub(r"/\*.*?\*/", " ", src, flags=re.S)
    src = re.sub(r"//[^\n]*", " ", src)
    return src


def strip_preprocessor_hooks(src):
    """drop #if defined(VITA_VERIF) ... #endif blocks (the H3 hook) and other directives"""
    out = []
    skip = 0
    for l in src.splitlines():
        s = l.strip()
        if s.startswith("#if"):
            skip += 1 if "VITA_VERIF" in s or skip else 0
            if skip:
                continue
        if skip and s.startswith("#endif"):
            skip -= 1
            continue
        if skip:
            continue
        if s.startswith("#"):
            continue
        out.append(l)
    return "\n".join(out)


def method_defs(src):
    """[(name, return type text, parameter text, body)] of the cache:: member definitions"""
    res = []
    for m in re.finditer(r"([A-Za-z_:<>\s&\*]*?)\bcache::(\w+)\s*\(([^)]*)\)\s*(const)?\s*(?::[^{]*)?\{", src):
        ret, name, params = m.group(1).strip(), m.group(2), m.group(3)
        i = m.end()
        depth = 1
        while i < len(src) and depth:
            depth += {"{": 1, "}": -1}.get(src[i], 0)
            i += 1
        res.append((name, ret, params, src[m.end():i - 1]))
    return res


LOCKS = [(r"std::shared_lock\b", "Shared"), (r"std::(unique_lock|lock_guard|scoped_lock)\b", "Exclusive")]


def analyse(name, ret, params, body):
    problems = []
    # ---- first lock
    first = None
    for pat, kind in LOCKS:
        for m in re.finditer(pat + r"[^;]*\bmutex_\b[^;]*;", body):
            if first is None or m.start() < first[0]:
                first = (m.start(), m.end(), kind)
    lock = first[2] if first else "NoLock"
    before = body[:first[0]] if first else ""
    after = body[first[1]:] if first else body
    shared_re = r"\b(seal_|table_)\b"
    touched_before = bool(re.search(shared_re, before))
    # an explicit unlock()/release() ends the protection before the end of the
    # scope: whatever follows counts as touched outside the lock
    if re.search(r"\.\s*(unlock|release)\s*\(", after):
        touched_before = True
    # ---- slot aliases: `slot &s(table_[..])`, `const slot &s(table_[..])`, `for (auto &s : table_)`
    aliases = {}
    for m in re.finditer(r"(const\s+)?(?:slot|auto)\s*&\s*(\w+)\s*(?:\(|=|:)\s*table_", after):
        aliases[m.group(2)] = bool(m.group(1))
    reads, writes = set(), set()
    # seal_
    if re.search(r"(\+\+|--)\s*seal_\b|\bseal_\s*(\+\+|--|[-+*/|&^]?=(?!=))", after):
        writes.add("FSeal")
    if re.search(r"\bseal_\b(?!\s*(=(?!=)|\+\+|--))", re.sub(r"(\+\+|--)\s*seal_\b", " ", after)):
        reads.add("FSeal")
    # whole-slot assignment  table_[..] = s;
    if re.search(r"\btable_\s*\[[^\]]*\]\s*=(?!=)", after):
        writes.update(["FSlotHash", "FSlotFitness", "FSlotSeal"])
    fld = {"hash": "FSlotHash", "fitness": "FSlotFitness", "seal": "FSlotSeal"}
    # table_[..].f = / table_[..].f
    for m in re.finditer(r"\btable_\s*\[[^\]]*\]\s*\.\s*(\w+)\s*(=(?!=))?", after):
        f = fld.get(m.group(1))
        if f is None:
            problems.append("%s: unknown slot member %s" % (name, m.group(1)))
        elif m.group(2):
            writes.add(f)
        else:
            reads.add(f)
    for a, is_const in aliases.items():
        for m in re.finditer(r"\b%s\s*\.\s*(\w+)\s*(\.\s*\w+\s*\()?\s*(=(?!=))?" % re.escape(a), after):
            f = fld.get(m.group(1))
            if f is None:
                problems.append("%s: unknown slot member %s.%s" % (name, a, m.group(1)))
                continue
            if m.group(3) and not m.group(2):
                if is_const:
                    problems.append("%s: assignment through const alias %s" % (name, a))
                writes.add(f)
            elif m.group(2) and re.match(r"\.\s*load\s*\(", m.group(2)):
                writes.add(f)          # s.hash.load(in) / s.fitness.load(in)
            else:
                reads.add(f)
    # a local `slot s;` filled and then assigned as a whole is not shared: drop
    # reads/writes that only come from such a local
    for m in re.finditer(r"(?<![&\w])slot\s+(\w+)\s*;", after):
        loc = m.group(1)
        aliases.pop(loc, None)
    # ---- result
    r = " ".join(ret.split())
    if r in ("void", "", "bool", "inline std::size_t", "std::size_t"):
        result = "NoResult"
    elif "&" in r:
        result = "ByRef"
    elif "fitness_t" in r:
        result = "ByValue"
    else:
        result = "NoResult"
        problems.append("%s: unrecognised return type %r" % (name, r))
    return {"name": name, "lock": lock, "touched_before_lock": touched_before,
            "reads": sorted(reads), "writes": sorted(writes), "result": result}, problems


def generate(snap):
    path = os.path.join(snap, "kernel", "cache.cc")
    with open(path) as f:
        src = strip_comments(strip_preprocessor_hooks(f.read()))
    problems = []
    infos = {}
    for name, ret, params, body in method_defs(src):
        key = name
        if name == "clear":
            key = "clear_one" if params.strip() else "clear"
        if key not in METHODS:
            continue
        info, pr = analyse(key, ret, params, body)
        problems += pr
        if key in infos:
            problems.append("two definitions of cache::%s" % key)
        infos[key] = info
    for m in METHODS:
        if m not in infos:
            problems.append("cache::%s not found" % m)
    if problems:
        return None, problems, infos
    lines = ["(* GENERATED by translate/cache_proto.py from src/kernel/cache.cc -- do not edit.",
             "   Per cache:: method: the lock constructed first, whether a shared field is",
             "   touched before it, the shared fields read / written, how the result leaves. *)",
             "From Coq Require Import List.",
             "From VV Require Import Conc.ProtoTypes.",
             "Import ListNotations.",
             ""]
    for m in METHODS:
        i = infos[m]
        lines.append("Definition %s_proto : proto :=" % m)
        lines.append("  mkproto %s %s [%s] [%s] %s." % (
            i["lock"], "true" if i["touched_before_lock"] else "false",
            "; ".join(i["reads"]), "; ".join(i["writes"]), i["result"]))
        lines.append("")
    lines.append("Definition gen_protos : protos :=")
    lines.append("  mkprotos %s." % " ".join(m + "_proto" for m in METHODS))
    return "\n".join(lines) + "\n", [], infos


if __name__ == "__main__":
    import sys
    text, problems, infos = generate(sys.argv[1] if len(sys.argv) > 1 else "/repo/src")
    print(text if text else problems)
