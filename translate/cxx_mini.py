#!/usr/bin/env python3
"""Translator from the small C++ subset used by vita's primitive `eval` bodies
to the deep embedding of coq/Cxx/CxxMini.v.

It is deliberately strict: anything outside the subset raises OutsideSubset,
and the caller then falls back to the checked-in Gen file as a hand-written
model (tie = correspondence only).  Nothing is guessed.
"""
import re
import struct
import sys


class OutsideSubset(Exception):
    pass


# ----------------------------------------------------------------- tokenizer
TOKEN_RE = re.compile(r"""
    (?P<ws>\s+)
  | (?P<float>(\d+\.\d*|\.\d+)([eE][-+]?\d+)?|\d+[eE][-+]?\d+)
  | (?P<int>\d+[uUlL]*)
  | (?P<id>[A-Za-z_]\w*)
  | (?P<str>"([^"\\]|\\.)*")
  | (?P<op>::|<<|>>|<=|>=|==|!=|&&|\|\||[-+*/%<>!?:()\[\]{},;.=&|^~])
""", re.X)


def strip_comments(src):
    """remove // and /* */ comments, leaving string literals intact"""
    out = []
    i = 0
    n = len(src)
    while i < n:
        c = src[i]
        if c == '"':
            j = i + 1
            while j < n and src[j] != '"':
                j += 2 if src[j] == "\\" else 1
            out.append(src[i:j + 1])
            i = j + 1
        elif c == "'" :
            j = i + 1
            while j < n and src[j] != "'":
                j += 2 if src[j] == "\\" else 1
            out.append(src[i:j + 1])
            i = j + 1
        elif src.startswith("//", i):
            j = src.find("\n", i)
            i = n if j < 0 else j
        elif src.startswith("/*", i):
            j = src.find("*/", i + 2)
            out.append(" ")
            i = n if j < 0 else j + 2
        else:
            out.append(c)
            i += 1
    return "".join(out)


def tokenize(src):
    toks = []
    pos = 0
    while pos < len(src):
        m = TOKEN_RE.match(src, pos)
        if not m:
            raise OutsideSubset("cannot tokenize at: %r" % src[pos:pos + 30])
        pos = m.end()
        k = m.lastgroup
        if k == "ws":
            continue
        toks.append((k, m.group(k)))
    return toks


# -------------------------------------------------------------------- parser
BINPREC = {
    "*": (5, "BMul"), "/": (5, "BDiv"), "%": (5, "BRem"),
    "+": (6, "BAdd"), "-": (6, "BSub"),
    "<<": (7, "BShl"), ">>": (7, "BShr"),
    "<": (9, "BLt"), ">": (9, "BGt"), "<=": (9, "BLe"), ">=": (9, "BGe"),
    "==": (10, "BEq"), "!=": (10, "BNe"),
    "&&": (14, "BAnd"), "||": (15, "BOr"),
}

FN1 = {
    "has_value": "F_has_value",
    "std::fabs": "F_fabs", "std::floor": "F_floor", "std::sqrt": "F_sqrt",
    "std::isfinite": "F_isfinite", "std::log": "F_log", "std::exp": "F_exp",
    "std::sin": "F_sin", "std::cos": "F_cos",
}
FN2 = {
    "std::fmod": "F_fmod", "std::fmin": "F_fmin", "std::fmax": "F_fmax",
    "std::isless": "F_isless", "std::isgreater": "F_isgreater",
}

I32_MAX = 2147483647
I32_MIN = -2147483648
HOLE = "@@HOLE@@"


def dbl_bits(x):
    return struct.unpack("<Q", struct.pack("<d", x))[0]


class Parser:
    """base_t: 'int' or 'double' (the `using base_t = ...` of the header).
    helpers: names of the one-line helper functions verified in the header
    ('base' -> F_get_double, 'cast'/'integer::cast' -> F_get_int)."""

    def __init__(self, toks, base_t, helpers, param_names, inline=None, hole=None, tparam=None):
        self.t = toks
        self.i = 0
        self.base_t = base_t
        self.helpers = helpers
        self.params = param_names     # names of the symbol_params parameter
        self.locals = []              # declared locals in order
        self.inline = inline or {}    # helper name -> expression template containing HOLE once
        self.hole = hole              # when parsing a helper: the name of its by-value parameter
        self.tparam = tparam          # when parsing a template helper: (name of the type parameter, its ty)

    # -- token helpers
    def peek(self, k=0):
        return self.t[self.i + k] if self.i + k < len(self.t) else ("eof", "")

    def next(self):
        tok = self.peek()
        self.i += 1
        return tok

    def accept(self, v):
        if self.peek()[1] == v:
            self.i += 1
            return True
        return False

    def expect(self, v):
        if not self.accept(v):
            raise OutsideSubset("expected %r, found %r" % (v, self.peek()[1]))

    # -- types
    def parse_type_name(self):
        """returns a ty constructor name"""
        parts = [self.next()[1]]
        while self.accept("::"):
            parts.append(self.next()[1])
        name = "::".join(parts)
        return self.type_of_name(name)

    def type_of_name(self, name):
        if self.tparam and name == self.tparam[0]:
            return self.tparam[1]
        if name == "base_t":
            return "TI32" if self.base_t == "int" else "TF64"
        table = {"int": "TI32", "D_INT": "TI32", "std::intmax_t": "TI64",
                 "intmax_t": "TI64", "double": "TF64", "D_DOUBLE": "TF64",
                 "bool": "TBool", "std::size_t": "TU64", "value_t": "TVal",
                 "auto": "TAuto"}
        if name in table:
            return table[name]
        raise OutsideSubset("type %s" % name)

    # -- expressions
    def parse_expr(self, maxprec=16):
        lhs = self.parse_unary()
        while True:
            op = self.peek()[1]
            if op == "?" and maxprec >= 16:
                self.next()
                a = self.parse_expr(16)
                self.expect(":")
                b = self.parse_expr(16)
                lhs = "(ECond %s %s %s)" % (lhs, a, b)
                continue
            if op in BINPREC and self.peek()[0] == "op":
                prec, ctor = BINPREC[op]
                if prec > maxprec:
                    break
                self.next()
                rhs = self.parse_expr(prec - 1)
                lhs = "(EBin %s %s %s)" % (ctor, lhs, rhs)
                continue
            break
        return lhs

    def parse_unary(self):
        if self.accept("!"):
            return "(EUn UNot %s)" % self.parse_unary()
        if self.accept("-"):
            return "(EUn UNeg %s)" % self.parse_unary()
        if self.accept("+"):
            return self.parse_unary()
        return self.parse_postfix()

    def parse_postfix(self):
        e = self.parse_primary()
        while True:
            if self.peek()[1] == "." and self.peek(1)[1] == "length":
                self.next(); self.next(); self.expect("("); self.expect(")")
                e = "(ECall1 F_str_length %s)" % e
                continue
            break
        return e

    def parse_args(self):
        self.expect("(")
        args = []
        if not self.accept(")"):
            while True:
                args.append(self.parse_expr())
                if self.accept(")"):
                    break
                self.expect(",")
        return args

    def parse_primary(self):
        k, v = self.peek()
        if k == "int":
            self.next()
            if re.search(r"[uUlL]", v):
                raise OutsideSubset("suffixed literal %s" % v)
            n = int(v)
            if n > I32_MAX:
                raise OutsideSubset("literal too large for int")
            return "(EI32 %d)" % n
        if k == "float":
            self.next()
            return "(EDbl %d)" % dbl_bits(float(v))
        if v == "(":
            self.next()
            e = self.parse_expr()
            self.expect(")")
            return e
        if k != "id":
            raise OutsideSubset("unexpected token %r" % v)
        # identifier forms
        if v in ("true", "false"):
            self.next()
            return "(EBool %s)" % v
        if v == "sizeof":
            self.next(); self.expect("(")
            t = self.parse_type_name()
            self.expect(")")
            size = {"TI32": 4, "TF64": 8, "TI64": 8, "TU64": 8}.get(t)
            if size is None:
                raise OutsideSubset("sizeof")
            return "(EU64 %d)" % size
        if v == "CHAR_BIT":
            self.next()
            return "(EI32 8)"
        if v == "static_cast":
            self.next(); self.expect("<")
            t = self.parse_type_name()
            self.expect(">")
            a = self.parse_args()
            if len(a) != 1:
                raise OutsideSubset("static_cast arity")
            return "(ECast %s %s)" % (t, a[0])
        if v in self.params:
            # args[i]  |  p.fetch_param()
            self.next()
            if self.accept("["):
                k2, n = self.next()
                if k2 != "int":
                    raise OutsideSubset("non literal argument index")
                self.expect("]")
                return "(EArg %d)" % int(n)
            if self.accept("."):
                m = self.next()[1]
                if m == "fetch_param":
                    self.expect("("); self.expect(")")
                    return "EParam"
                raise OutsideSubset("symbol_params::%s" % m)
            raise OutsideSubset("bare use of symbol_params")
        if v in self.locals and self.peek(1)[1] not in ("::", "("):
            self.next()
            return "(ELocal %d)" % self.locals.index(v)
        if self.hole and v == self.hole and self.peek(1)[1] not in ("::", "(", "[", "."):
            self.next()
            return HOLE
        # qualified name
        parts = [self.next()[1]]
        targ = None
        while True:
            if self.peek()[1] == "<" and parts[-1] in ("numeric_limits", "get", "holds_alternative"):
                self.next()
                targ = self.parse_type_or_domain()
                self.expect(">")
            if self.accept("::"):
                parts.append(self.next()[1])
                continue
            break
        name = "::".join(parts)
        if name == "std::numeric_limits::max" or name == "std::numeric_limits::min" \
           or name == "std::numeric_limits::epsilon":
            self.expect("("); self.expect(")")
            what = parts[-1]
            if targ == "TI32":
                if what == "max":
                    return "(EI32 %d)" % I32_MAX
                if what == "min":
                    return "(EI32 (%d))" % I32_MIN
            if targ == "TF64":
                val = {"max": sys.float_info.max, "min": sys.float_info.min,
                       "epsilon": sys.float_info.epsilon}[what]
                return "(EDbl %d)" % dbl_bits(val)
            raise OutsideSubset("numeric_limits<%s>::%s" % (targ, what))
        if name == "std::holds_alternative":
            # only the emptiness test of value.h: holds_alternative<std::monostate>(v) == !has_value(v)
            a = self.parse_args()
            if len(a) != 1 or targ != "TVoid":
                raise OutsideSubset("std::holds_alternative<%s>" % targ)
            return "(EUn UNot (ECall1 F_has_value %s))" % a[0]
        if name == "std::get":
            a = self.parse_args()
            if len(a) != 1:
                raise OutsideSubset("std::get arity")
            f = {"TI32": "F_get_int", "TF64": "F_get_double",
                 "TStr": "F_get_string"}.get(targ)
            if f is None:
                raise OutsideSubset("std::get<%s>" % targ)
            return "(ECall1 %s %s)" % (f, a[0])
        if name in self.inline:
            a = self.parse_args()
            if len(a) != 1:
                raise OutsideSubset("%s arity" % name)
            return self.inline[name].replace(HOLE, a[0])
        if name == "std::abs" and self.tparam and self.tparam[1] == "TF64":
            # std::abs on the double instantiation of a template helper is fabs
            a = self.parse_args()
            if len(a) != 1:
                raise OutsideSubset("std::abs arity")
            return "(ECall1 F_fabs %s)" % a[0]
        if name in self.helpers:
            a = self.parse_args()
            if len(a) != 1:
                raise OutsideSubset("%s arity" % name)
            return "(ECall1 %s %s)" % (self.helpers[name], a[0])
        if name in FN1:
            a = self.parse_args()
            if len(a) != 1:
                raise OutsideSubset("%s arity" % name)
            return "(ECall1 %s %s)" % (FN1[name], a[0])
        if name in FN2:
            a = self.parse_args()
            if len(a) != 2:
                raise OutsideSubset("%s arity" % name)
            return "(ECall2 %s %s %s)" % (FN2[name], a[0], a[1])
        raise OutsideSubset("unknown identifier %s" % name)

    def parse_type_or_domain(self):
        parts = [self.next()[1]]
        while self.accept("::"):
            parts.append(self.next()[1])
        name = "::".join(parts)
        if name in ("D_STRING", "std::string"):
            return "TStr"
        if name in ("D_VOID", "std::monostate"):
            return "TVoid"
        return self.type_of_name(name)

    # -- statements
    def parse_return_expr(self):
        if self.peek()[1] == "{" and self.peek(1)[1] == "}":
            self.next(); self.next()
            return "EEmpty"
        return self.parse_expr()

    def parse_body(self):
        stmts = []
        while self.peek()[0] != "eof":
            k, v = self.peek()
            if v == "static_assert":
                # skip to the matching ';'
                depth = 0
                while True:
                    tok = self.next()[1]
                    if tok == "(":
                        depth += 1
                    elif tok == ")":
                        depth -= 1
                    elif tok == ";" and depth == 0:
                        break
                    elif tok == "":
                        raise OutsideSubset("static_assert")
                continue
            if v == "return":
                self.next()
                e = self.parse_return_expr()
                self.expect(";")
                stmts.append("SReturn %s" % e)
                continue
            if v == "if":
                self.next(); self.expect("(")
                c = self.parse_expr()
                self.expect(")")
                self.expect("return")
                th = self.parse_return_expr()
                self.expect(";")
                el = "None"
                if self.accept("else"):
                    self.expect("return")
                    el = "(Some %s)" % self.parse_return_expr()
                    self.expect(";")
                stmts.append("SIfRet %s %s %s" % (c, th, el))
                continue
            if v in ("const", "static", "constexpr"):
                while self.peek()[1] in ("const", "static", "constexpr"):
                    self.next()
                t = self.parse_type_name()
                while True:
                    kk, name = self.next()
                    if kk != "id":
                        raise OutsideSubset("declarator")
                    a = self.parse_args()
                    if len(a) != 1:
                        raise OutsideSubset("initialiser arity")
                    stmts.append("SDecl %s %s" % (t, a[0]))
                    if name in self.locals or name in self.params:
                        raise OutsideSubset("shadowing of %s" % name)
                    self.locals.append(name)
                    if self.accept(";"):
                        break
                    self.expect(",")
                continue
            raise OutsideSubset("statement starting with %r" % v)
        return stmts


# ------------------------------------------------------- locating the bodies
def match_brace(src, i):
    """src[i] == '{' ; returns index just after the matching '}'"""
    assert src[i] == "{"
    depth = 0
    j = i
    in_str = False
    while j < len(src):
        c = src[j]
        if in_str:
            if c == "\\":
                j += 1
            elif c == '"':
                in_str = False
        elif c == '"':
            in_str = True
        elif c == "{":
            depth += 1
        elif c == "}":
            depth -= 1
            if depth == 0:
                return j + 1
        j += 1
    raise OutsideSubset("unbalanced braces")


CLASS_RE = re.compile(r"\bclass\s+(\w+)\s*:\s*public\s+(function|terminal)\b")
EVAL_RE = re.compile(r"value_t\s+eval\s*\(\s*symbol_params\s*&\s*(\w*)\s*\)\s*const\s*(final|override)?\s*")
CTOR_FUN_RE = re.compile(r':\s*function\s*\(\s*"([^"]*)"\s*,\s*(c\[\d\])\s*,\s*\{([^}]*)\}\s*\)')
CTOR_TERM_RE = re.compile(r':\s*terminal\s*\(\s*"([^"]*)"\s*,\s*(c\[\d\])\s*\)')


def classes(src):
    """yield (class_name, kind, class_body_text)"""
    for m in CLASS_RE.finditer(src):
        i = src.index("{", m.end())
        j = match_brace(src, i)
        yield m.group(1), m.group(2), src[i:j]



# ------------------------------------------------------------ inline helpers
# One-statement-return helper functions taking their only parameter by value
# or const reference (real::base, integer::cast, issmall<T>) are translated
# with the same parser and INLINED at their call sites: the helper's
# parameter must occur exactly once in the returned expression (so the
# argument is still evaluated exactly once) and its locals must be constant
# expressions (substituted).  Anything else is outside the subset.
HELPER_RE = re.compile(r"inline\s+(\w+)\s+(\w+)\s*\(\s*const\s+value_t\s*&\s*(\w+)\s*\)\s*(?=\{)")
TEMPLATE_HELPER_RE = r"template\s*<\s*class\s+(\w+)\s*>\s*(\w+)\s+%s\s*\(\s*(\w+)\s+(\w+)\s*\)\s*(?=\{)"


def _inline_template(text, base_t, hole, tparam, ret_ty):
    """helper body text -> expression template with HOLE"""
    p = Parser(tokenize(text), base_t, {}, [], hole=hole, tparam=tparam)
    stmts = p.parse_body()
    consts = {}
    result = None
    for k, st in enumerate(stmts):
        if st.startswith("SDecl "):
            t, e = st[len("SDecl "):].split(" ", 1)
            if HOLE in e or "EArg" in e or "EParam" in e:
                raise OutsideSubset("helper local is not a constant expression")
            for i, c in consts.items():
                e = e.replace("(ELocal %d)" % i, c)
            consts[len(consts)] = e if t == "TAuto" else "(ECast %s %s)" % (t, e)
        elif st.startswith("SReturn ") and k == len(stmts) - 1:
            result = st[len("SReturn "):]
        else:
            raise OutsideSubset("helper statement %s" % st.split(" ")[0])
    if result is None:
        raise OutsideSubset("helper without a final return")
    for i, c in consts.items():
        result = result.replace("(ELocal %d)" % i, c)
    if "ELocal" in result:
        raise OutsideSubset("helper local escapes")
    if result.count(HOLE) != 1:
        raise OutsideSubset("helper uses its parameter %d times" % result.count(HOLE))
    # conversion of the returned expression to the declared return type, left out
    # where the expression already has exactly that type
    head = result[1:].split(" ")
    same = (ret_ty == "TBool" and head[0] == "EBin" and head[1] in ("BLt", "BGt", "BLe", "BGe", "BEq", "BNe", "BAnd", "BOr")) \
        or (ret_ty == "TBool" and head[:2] == ["EUn", "UNot"]) \
        or (ret_ty == "TF64" and head[:2] == ["ECall1", "F_get_double"]) \
        or (ret_ty == "TI32" and head[:2] == ["ECall1", "F_get_int"])
    return result if same else "(ECast %s %s)" % (ret_ty, result)


def header_helpers(src, base_t):
    """{name: template} for the `inline base_t name(const value_t &v) {...}` helpers of a primitive header"""
    out = {}
    for m in HELPER_RE.finditer(src):
        ret, name, par = m.group(1), m.group(2), m.group(3)
        i = m.end()
        j = match_brace(src, i)
        dummy = Parser([], base_t, {}, [])
        out[name] = _inline_template(src[i + 1:j - 1], base_t, par, None, dummy.type_of_name(ret))
    return out


def template_helper(path, name, ty="TF64"):
    """template<class T> R name(T v) {...} of utility.h instantiated at T = double"""
    src = strip_comments(open(path).read())
    m = re.search(TEMPLATE_HELPER_RE % re.escape(name), src)
    if not m:
        raise OutsideSubset("%s: template helper not found" % name)
    tname, ret, ptype, par = m.groups()
    if ptype != tname:
        raise OutsideSubset("%s: parameter type %s" % (name, ptype))
    i = m.end()
    j = match_brace(src, i)
    dummy = Parser([], "double", {}, [], tparam=(tname, ty))
    return _inline_template(src[i + 1:j - 1], "double", par, (tname, ty), dummy.type_of_name(ret))


def translate_header(path, prefix, utility_h=None, value_h=None):
    """returns (list of dict per class, list of problems)"""
    raw = open(path).read()
    src = strip_comments(raw)
    m = re.search(r"using\s+base_t\s*=\s*(\w+)\s*;", src)
    base_t = None
    if m:
        base_t = {"D_INT": "int", "D_DOUBLE": "double"}.get(m.group(1))
    helpers = {}
    out = []
    problems = []
    # helper accessors of the header (base / cast) and issmall<double> of utility.h: parsed and inlined
    inline = {}
    try:
        inline = header_helpers(src, base_t)
    except (OutsideSubset, ValueError) as e:
        problems.append("helper of %s: outside subset: %s" % (path.split("/")[-1], e))
    if "cast" in inline:
        inline["integer::cast"] = inline["cast"]
    if value_h and re.search(r"\bhas_value\s*\(", src):
        # has_value of kernel/value.h (the primitive F_has_value is the model of !holds_alternative<monostate>)
        try:
            hv = header_helpers(strip_comments(open(value_h).read()), base_t)
            if "has_value" not in hv:
                raise OutsideSubset("has_value not found")
            inline["has_value"] = hv["has_value"]
        except (OutsideSubset, OSError, ValueError) as e:
            problems.append("has_value of value.h: outside subset: %s" % e)
    if utility_h and re.search(r"\bissmall\s*\(", src):
        try:
            inline["issmall"] = template_helper(utility_h, "issmall")
        except (OutsideSubset, OSError, ValueError) as e:
            problems.append("issmall of utility.h: outside subset: %s" % e)
    for cname, kind, body in classes(src):
        em = EVAL_RE.search(body)
        info = {"class": cname, "kind": kind, "ident": "%s_%s" % (prefix, cname)}
        cm = (CTOR_FUN_RE if kind == "function" else CTOR_TERM_RE).search(body)
        if cm:
            info["name"] = cm.group(1)
            info["category"] = cm.group(2)
            info["args"] = [a.strip() for a in cm.group(3).split(",")] if kind == "function" else []
        info["parametric"] = bool(re.search(r"bool\s+parametric\s*\(\s*\)\s*const\s*(final|override)?\s*\{\s*return\s+true\s*;", body))
        if not em:
            problems.append("%s: no eval body" % cname)
            continue
        i = body.index("{", em.end() - 1) if body[em.end() - 1] != "{" else em.end() - 1
        i = body.index("{", em.end() - 1)
        j = match_brace(body, i)
        text = body[i + 1:j - 1]
        params = [em.group(1)] if em.group(1) else []
        try:
            p = Parser(tokenize(text), base_t, helpers, params, inline=inline)
            info["stmts"] = p.parse_body()
            info["source"] = " ".join(text.split())
        except OutsideSubset as e:
            problems.append("%s: outside subset: %s" % (cname, e))
            continue
        out.append(info)
    return out, problems


def emit(infos, header_rel, modname):
    lines = []
    lines.append("(* GENERATED by translate/cxx_mini.py from %s on every check run -- do not edit. *)" % header_rel)
    lines.append("From Coq Require Import ZArith List.")
    lines.append("From VV Require Import Cxx.CxxMini.")
    lines.append("Import ListNotations.")
    lines.append("Local Open Scope Z_scope.")
    lines.append("")
    for info in infos:
        lines.append("(* %s: %s *)" % (info["class"], info["source"].replace("(*", "( *").replace("*)", "* )")))
        lines.append("Definition %s_body : list stmt :=" % info["ident"])
        lines.append("  [ " + ";\n    ".join(info["stmts"]) + " ].")
        if "name" in info:
            lines.append("Definition %s_arity : nat := %d." % (info["ident"], len(info["args"])))
        lines.append("")
    lines.append("Definition %s_all : list (list stmt) :=" % modname)
    lines.append("  [ " + "; ".join("%s_body" % i["ident"] for i in infos) + " ].")
    return "\n".join(lines) + "\n"


if __name__ == "__main__":
    infos, problems = translate_header(sys.argv[1], sys.argv[2])
    sys.stdout.write(emit(infos, sys.argv[1], sys.argv[2]))
    for p in problems:
        sys.stderr.write("PROBLEM %s\n" % p)
