#!/usr/bin/env python3
"""Regenerate coq/Gen/Templates.v: the `display(format)` template strings of
every shipped primitive class, per language format (c / cpp / mql / python),
and the pieces of the default `NAME(%%1%%,...)` of kernel/gp/function.cc.

usage: templates.py <src-root> <out.v>

Strict: a display body outside the understood shapes
    return <string literals>;
    return std::to_string(v);   return std::to_string(static_cast<int>(v));
    switch (f) { (case X_format:)+ return E; ... default: return E; }
    E ::= <adjacent string literals> | function::display()
is reported as a problem and the output file is NOT overwritten (the caller
then uses the checked-in file as a hand-written model, tie = correspondence).
"""
import os
import re
import sys

sys.path.insert(0, os.path.dirname(os.path.abspath(__file__)))
import cxx_mini
from cxx_mini import OutsideSubset

HEADERS = [("int", "int"), ("real", "real"), ("bool", "bool"), ("string", "string")]
FORMATS = ["c_format", "cpp_format", "mql_format", "python_format"]

DISPLAY_RE = re.compile(r"std::string\s+display\s*\(([^)]*)\)\s*const\s*(final|override)?\s*")
CTOR_FUN_RE = re.compile(r':\s*function\s*\(\s*"([^"]*)"\s*,\s*(c\[\d\])\s*,\s*\{([^}]*)\}\s*\)')
CTOR_TERM_RE = re.compile(r':\s*terminal\s*\(\s*"([^"]*)"\s*,\s*(c\[\d\])\s*\)')


def unescape(lit):
    """C string literal token (with quotes) -> bytes"""
    body = lit[1:-1]
    out = bytearray()
    i = 0
    while i < len(body):
        c = body[i]
        if c == "\\":
            i += 1
            e = body[i]
            m = {"n": 10, "t": 9, "\\": 92, '"': 34, "'": 39, "0": 0}
            if e not in m:
                raise OutsideSubset("escape \\%s in a template" % e)
            out.append(m[e])
        else:
            out += c.encode("utf-8")
        i += 1
    return bytes(out)


# std::to_string(v) with its insignificant zeros removed:
#   std::string s(std::to_string(v)); s.erase(s.find_last_not_of('0') + 1); if (s.back() == '.') s.pop_back(); return s;
TRIM_RE = re.compile(
    r"^\s*std::string\s+(\w+)\s*\(\s*std::to_string\s*\(\s*(\w+)\s*\)\s*\)\s*;\s*"
    r"\1\s*\.\s*erase\s*\(\s*\1\s*\.\s*find_last_not_of\s*\(\s*'0'\s*\)\s*\+\s*1\s*\)\s*;\s*"
    r"if\s*\(\s*\1\s*\.\s*back\s*\(\s*\)\s*==\s*'\.'\s*\)\s*\1\s*\.\s*pop_back\s*\(\s*\)\s*;\s*"
    r"return\s+\1\s*;\s*$", re.S)


class P:
    def __init__(self, toks):
        self.t = toks
        self.i = 0

    def peek(self, k=0):
        return self.t[self.i + k][1] if self.i + k < len(self.t) else None

    def kind(self):
        return self.t[self.i][0] if self.i < len(self.t) else None

    def next(self):
        v = self.peek()
        self.i += 1
        return v

    def expect(self, v):
        if self.peek() != v:
            raise OutsideSubset("expected %r, found %r" % (v, self.peek()))
        self.i += 1

    def accept_seq(self, seq):
        if [self.peek(k) for k in range(len(seq))] == list(seq):
            self.i += len(seq)
            return True
        return False

    def ret_expr(self, pname):
        """after `return`: up to and including ';'.
        E ::= function::display() | T { + T };  T ::= <string literals> | std::to_string(v) |
        std::to_string(static_cast<int>(v))"""
        if self.accept_seq(["function", "::", "display", "(", ")", ";"]):
            return ("default",)
        pieces = []
        while True:
            if self.kind() == "str":
                out = b""
                while self.kind() == "str":
                    out += unescape(self.next())
                pieces.append(("lit", out))
            elif pname and self.accept_seq(["std", "::", "to_string", "(", pname, ")"]):
                pieces.append(("to_string_param",))
            elif pname and self.accept_seq(["std", "::", "to_string", "(", "static_cast", "<", "int", ">", "(", pname, ")", ")"]):
                pieces.append(("to_string_int_param",))
            else:
                raise OutsideSubset("return expression at %r" % self.peek())
            if self.peek() == "+":
                self.next()
                continue
            self.expect(";")
            return ("text", pieces)

    def body(self, fname, pname):
        """returns [expr for c, cpp, mql, python]"""
        if self.peek() == "return":
            self.next()
            e = self.ret_expr(pname)
            if self.peek() is not None:
                raise OutsideSubset("trailing tokens after return")
            return [e] * 4
        if self.peek() == "switch" and fname:
            self.next()
            self.expect("(")
            self.expect(fname)
            self.expect(")")
            self.expect("{")
            groups = []
            while self.peek() != "}":
                labels = []
                while self.peek() in ("case", "default"):
                    if self.next() == "case":
                        l = self.next()
                        if l.startswith("symbol"):
                            raise OutsideSubset("qualified label")
                        labels.append(l)
                    else:
                        labels.append("default")
                    self.expect(":")
                if not labels:
                    raise OutsideSubset("statement without label in switch: %r" % self.peek())
                self.expect("return")
                groups.append((labels, self.ret_expr(pname)))
            self.expect("}")
            if self.peek() is not None:
                raise OutsideSubset("code after switch")
            out = []
            for f in FORMATS:
                g = [e for ls, e in groups if f in ls] or [e for ls, e in groups if "default" in ls]
                if not g:
                    raise OutsideSubset("switch without default and without %s" % f)
                out.append(g[0])
            for ls, _ in groups:
                for l in ls:
                    if l != "default" and l not in FORMATS and l != "sup_format":
                        raise OutsideSubset("unknown format label %s" % l)
            return out
        raise OutsideSubset("display body starting at %r" % self.peek())


def translate_header(path, prefix):
    raw = open(path).read()
    src = cxx_mini.strip_comments(raw)
    infos, problems = [], []
    for cname, kind, body in cxx_mini.classes(src):
        info = {"class": cname, "kind": kind, "ident": "%s_%s" % (prefix, cname)}
        cm = (CTOR_FUN_RE if kind == "function" else CTOR_TERM_RE).search(body)
        if not cm:
            problems.append("%s: constructor not understood" % cname)
            continue
        info["name"] = cm.group(1)
        info["arity"] = len([a for a in cm.group(3).split(",") if a.strip()]) if kind == "function" else 0
        # constructor signature in terms of the cvect: category c[k], argument categories c[j]...
        info["cat_ix"] = int(cm.group(2)[2])
        info["arg_ix"] = [int(a.strip()[2]) for a in cm.group(3).split(",") if a.strip()] if kind == "function" else []
        info["parametric"] = bool(re.search(r"bool\s+parametric\s*\(\s*\)\s*const\s*(final|override)?\s*\{\s*return\s+true\s*;", body))
        dm = DISPLAY_RE.search(body)
        if not dm:
            info["disp"] = [("default",)] * 4
            infos.append(info)
            continue
        params = [p.strip() for p in dm.group(1).split(",")]
        try:
            if kind == "function":
                if len(params) != 1 or not re.match(r"^format(\s+\w+)?$", params[0]):
                    raise OutsideSubset("display parameters %r" % dm.group(1))
                fname = (params[0].split() + [None])[1]
                pname = None
            else:
                if len(params) != 2 or not re.match(r"^terminal_param_t(\s+\w+)?$", params[0]) \
                        or not re.match(r"^format(\s+\w+)?$", params[1]):
                    raise OutsideSubset("display parameters %r" % dm.group(1))
                pname = (params[0].split() + [None])[1]
                fname = (params[1].split() + [None])[1]
            i = body.index("{", dm.end() - 1)
            j = cxx_mini.match_brace(body, i)
            tm = TRIM_RE.match(body[i + 1:j - 1])
            if tm and kind == "terminal" and pname and tm.group(2) == pname:
                info["disp"] = [("text", [("to_string_param_trim",)])] * 4
            else:
                toks = cxx_mini.tokenize(body[i + 1:j - 1])
                info["disp"] = P(toks).body(fname, pname)
            if kind == "function" and any(e[0] == "text" and any(p[0] != "lit" for p in e[1]) for e in info["disp"]):
                raise OutsideSubset("to_string in a function template")
        except (OutsideSubset, IndexError, ValueError) as e:
            problems.append("%s::%s display: outside subset: %s" % (prefix, cname, e))
            continue
        infos.append(info)
    return infos, problems


DEFAULT_RE = re.compile(
    r'std::string\s+function::display\s*\(\s*format\s*\)\s*const\s*\{\s*'
    r'std::string\s+args\s*\(\s*("(?:[^"\\]|\\.)*")\s*\)\s*;\s*'
    r'for\s*\(\s*unsigned\s+i\s*\(\s*1\s*\)\s*;\s*i\s*<\s*arity\s*\(\s*\)\s*;\s*\+\+i\s*\)\s*'
    r'args\s*\+=\s*("(?:[^"\\]|\\.)*")\s*\+\s*std::to_string\s*\(\s*i\s*\+\s*1\s*\)\s*\+\s*("(?:[^"\\]|\\.)*")\s*;\s*'
    r'return\s+name\s*\(\s*\)\s*\+\s*("(?:[^"\\]|\\.)*")\s*\+\s*args\s*\+\s*("(?:[^"\\]|\\.)*")\s*;\s*\}')


def default_pieces(src_root):
    src = cxx_mini.strip_comments(open(os.path.join(src_root, "kernel/gp/function.cc")).read())
    m = DEFAULT_RE.search(src)
    if not m:
        raise OutsideSubset("function.cc: function::display(format) is no longer "
                            "`args(\"..\"); for (i = 1; i < arity(); ++i) args += \"..\" + to_string(i+1) + \"..\"; "
                            "return name() + \"..\" + args + \"..\";`")
    return [unescape(g) for g in m.groups()]


RAW_STR_RE = re.compile(r'std::string\s+display\s*\(\s*terminal_param_t\s*,\s*format\s*\)\s*const\s*final\s*\{\s*'
                        r'return\s+quote_str\s*\(\s*val_\s*\)\s*;\s*\}')
ESC_STR_RE = re.compile(r'std::string\s+display\s*\(\s*terminal_param_t\s*,\s*format\s*\)\s*const\s*final\s*\{\s*'
                        r'std::string\s+out\s*\(\s*"\\""\s*\)\s*;\s*'
                        r'for\s*\(\s*const\s+char\s+c\s*:\s*val_\s*\)\s*\{\s*'
                        r"if\s*\(\s*c\s*==\s*'\"'\s*\|\|\s*c\s*==\s*'\\\\'\s*\)\s*out\s*\+=\s*'\\\\'\s*;\s*"
                        r'out\s*\+=\s*c\s*;\s*\}\s*return\s+out\s*\+\s*"\\""\s*;\s*\}')


def string_escapes(src_root):
    """does constant<std::string>::display escape double quotes and backslashes?
    (kernel/gp/src/constant.h)  Raises OutsideSubset when the body is neither of the two known shapes."""
    src = cxx_mini.strip_comments(open(os.path.join(src_root, "kernel/gp/src/constant.h")).read())
    i = src.find("class constant<std::string>")
    if i < 0:
        raise OutsideSubset("constant.h: no constant<std::string>")
    body = src[i:]
    if ESC_STR_RE.search(body):
        return True
    if RAW_STR_RE.search(body) and re.search(r'quote_str\s*\(\s*const\s+std::string\s*&\s*s\s*\)\s*\{\s*return\s*"\\""\s*\+\s*s\s*\+\s*"\\""\s*;\s*\}', body):
        return False
    raise OutsideSubset("constant.h: constant<std::string>::display is neither `return quote_str(val_);` nor the "
                        "escaping loop")


def zl(b):
    return "[" + "; ".join(str(x) for x in b) + "]"


def show(b):
    s = b.decode("latin-1")
    return s.replace("(*", "( *").replace("*)", "* )")


def emit(infos, dflt, escapes=False):
    L = []
    L.append("(* GENERATED by translate/templates.py from src/kernel/gp/src/primitive/{int,real,bool,string}.h and "
             "src/kernel/gp/function.cc on every check run -- do not edit. *)")
    L.append("From Coq Require Import ZArith List.")
    L.append("From VV Require Import Lang.LangBase.")
    L.append("Import ListNotations.")
    L.append("Local Open Scope Z_scope.")
    L.append("")
    L.append("(* function::display(format):  name() + lpar + first + { sep_pre + to_string(i+1) + sep_post } + rpar *)")
    for nm, b in zip(["dflt_first", "dflt_sep_pre", "dflt_sep_post", "dflt_lpar", "dflt_rpar"], dflt):
        L.append("Definition %s : list Z := %s.  (* %s *)" % (nm, zl(b), show(b)))
    L.append("")
    L.append("(* constant<std::string>::display (kernel/gp/src/constant.h): are double quotes and backslashes escaped? *)")
    L.append("Definition const_str_escapes : bool := %s." % ("true" if escapes else "false"))
    L.append("")

    def dsp(e):
        if e[0] == "default":
            return "TDefault"
        ps = []
        for p in e[1]:
            ps.append("PLit %s" % zl(p[1]) if p[0] == "lit" else
                      {"to_string_param": "PToString", "to_string_int_param": "PToStringInt",
                       "to_string_param_trim": "PToStringTrim"}[p[0]])
        return "TText [" + "; ".join(ps) + "]"

    def cmt(e):
        if e[0] == "default":
            return "default"
        return " + ".join(show(p[1]) if p[0] == "lit" else p[0] for p in e[1])
    for i in infos:
        cm = " | ".join(cmt(e) for e in i["disp"])
        L.append("(* %s %s: %s *)" % (i["ident"], i["name"], cm))
        L.append("Definition tc_%s : tclass :=" % i["ident"])
        L.append("  {| tc_terminal := %s; tc_name := %s; tc_arity := %d; tc_parametric := %s;" %
                 ("true" if i["kind"] == "terminal" else "false", zl(i["name"].encode()), i["arity"],
                  "true" if i["parametric"] else "false"))
        L.append("     tc_c := %s;" % dsp(i["disp"][0]))
        L.append("     tc_cpp := %s;" % dsp(i["disp"][1]))
        L.append("     tc_mql := %s;" % dsp(i["disp"][2]))
        L.append("     tc_py := %s |}." % dsp(i["disp"][3]))
        L.append("")
    L.append("Definition classes_all : list tclass :=")
    L.append("  [ " + "; ".join("tc_" + i["ident"] for i in infos) + " ].")
    L.append("")
    return "\n".join(L)


def generate(src_root):
    infos, problems = [], []
    for h, p in HEADERS:
        path = os.path.join(src_root, "kernel/gp/src/primitive/%s.h" % h)
        try:
            i, pr = translate_header(path, p)
        except (OutsideSubset, OSError, ValueError) as e:
            i, pr = [], ["%s.h: %s" % (h, e)]
        infos += i
        problems += pr
    try:
        dflt = default_pieces(src_root)
    except (OutsideSubset, OSError) as e:
        problems.append(str(e))
        dflt = [b"%%1%%", b",%%", b"%%", b"(", b")"]
    try:
        esc = string_escapes(src_root)
    except (OutsideSubset, OSError) as e:
        problems.append(str(e))
        esc = False
    return infos, problems, emit(infos, dflt, esc)


if __name__ == "__main__":
    infos, problems, text = generate(sys.argv[1])
    for i in infos:
        print("OK", i["ident"])
    for p in problems:
        print("PROBLEM", p)
    if not problems and len(sys.argv) > 2:
        with open(sys.argv[2], "w") as f:
            f.write(text)
