"""C18 -- translator: src/kernel/fitness.tcc, src/kernel/model_measurements.h
-> coq/Gen/FitnessOps.v

For each relational operator of basic_fitness_t (== != < > >= <=) it extracts
HOW the source defines it: which std algorithm over which arguments with which
comparator (std::lexicographical_compare, std::equal with 3 or 4 iterators,
std::memcmp), or which other operator with which argument order under which
negation; size guards and `if constexpr (std::is_arithmetic_v<T>)` (T = double:
the first branch) are followed.  For dominating() it extracts the initial value
of `one_better`, the loop bound and the per-component statement (tests on
lhs[i], rhs[i] incl. almost_equal; actions one_better = true / return b /
continue).  For model_measurements::operator>= the boolean combination of
dominating(...) and the accuracy comparison.

The output contains definitions only (terms of the types of
coq/Fitness/FitnessSrc.v); Fitness/FitnessSrcProofs.v proves that they denote
the model functions, so a changed derivation changes what has to be proved.

generate(snapshot_dir) -> (text, problems).  When a body falls outside the
recognised subset, problems is non-empty and the caller keeps the checked-in
file (tie = correspondence only)."""
import os
import re


class Unparsed(Exception):
    pass


def strip_comments(src):
    src = re.sub(r"/\*.*?\*/", " ", src, flags=re.S)
    return re.sub(r"//[^\n]*", " ", src)


TOKEN_RE = re.compile(r"\s*(?:([A-Za-z_][\w]*(?:::[A-Za-z_]\w*)*)|(\d+\.\d*|\d+)|(&&|\|\||==|!=|<=|>=|\+\+|--|->|[-+*/%<>!=(){}\[\],;.&?:]))")


def tokenize(text):
    toks = []
    i = 0
    text = text.strip()
    while i < len(text):
        m = TOKEN_RE.match(text, i)
        if not m or m.end() == i:
            if text[i:].strip() == "":
                break
            raise Unparsed("cannot tokenize near %r" % text[i:i + 30])
        toks.append(m.group(1) or m.group(2) or m.group(3))
        i = m.end()
    return toks


def find_function(src, sig_re):
    """(parameter names, body text) of the first definition matching sig_re
    (a regex that ends just before the parameter list's '(' )"""
    m = re.search(sig_re + r"\s*\(([^)]*)\)\s*\{", src)
    if not m:
        raise Unparsed("definition not found: " + sig_re)
    params = []
    for p in m.group(1).split(","):
        w = re.findall(r"[A-Za-z_]\w*", p)
        if not w:
            raise Unparsed("parameter list")
        params.append(w[-1])
    i = m.end()
    depth = 1
    while i < len(src) and depth:
        depth += {"{": 1, "}": -1}.get(src[i], 0)
        i += 1
    if depth:
        raise Unparsed("unbalanced body")
    return params, src[m.end():i - 1]


RELOPS = {"<": "OpLt", "==": "OpEq", ">": "OpGt", ">=": "OpGe", "<=": "OpLe", "!=": "OpNe"}
ECMP = {"<": "CLt", "<=": "CLe", ">": "CGt", ">=": "CGe", "==": "CEq", "!=": "CNe"}
FLIP = {"CLt": "CGt", "CGt": "CLt", "CLe": "CGe", "CGe": "CLe", "CEq": "CEq", "CNe": "CNe"}
COMPARATORS = {"std::less": "CLt", "std::less_equal": "CLe", "std::greater": "CGt", "std::greater_equal": "CGe",
               "std::equal_to": "CEq", "std::not_equal_to": "CNe"}


class P:
    """recursive descent over a token list"""

    def __init__(self, toks, params, mode):
        self.t = toks
        self.i = 0
        self.side = {params[0]: "Lhs", params[1]: "Rhs"}
        self.mode = mode            # "fitness" | "mm"
        self.locals = {}            # name -> operand

    # ---- token helpers
    def peek(self, k=0):
        return self.t[self.i + k] if self.i + k < len(self.t) else None

    def eat(self, tok=None):
        cur = self.peek()
        if cur is None or (tok is not None and cur != tok):
            raise Unparsed("expected %r, found %r (token %d)" % (tok, cur, self.i))
        self.i += 1
        return cur

    def accept(self, tok):
        if self.peek() == tok:
            self.i += 1
            return True
        return False

    def skip_template_args(self):
        if self.peek() == "<":
            depth = 0
            while True:
                tk = self.eat()
                if tk == "<":
                    depth += 1
                elif tk == ">":
                    depth -= 1
                    if depth == 0:
                        return

    # ---- operands: ("side", s) ("size", s) ("fit", s) ("acc", s) ("mem", x, y) ("int", n) ("elem", s) ("bool", rexpr)
    def iterator(self, which):
        """std::begin(x) / std::cbegin(x) / x.begin() / x.cbegin()  (which = begin|end) -> side"""
        names = {"std::" + which, "std::c" + which}
        if self.peek() in names:
            self.eat()
            self.eat("(")
            s = self.operand_side()
            self.eat(")")
            return s
        s = self.operand_side()
        self.eat(".")
        if self.eat() not in (which, "c" + which):
            raise Unparsed("iterator")
        self.eat("(")
        self.eat(")")
        return s

    def operand_side(self):
        name = self.eat()
        if name not in self.side:
            raise Unparsed("unknown object %r" % name)
        s = self.side[name]
        if self.mode == "mm":
            self.eat(".")
            if self.eat() != "fitness":
                raise Unparsed("expected .fitness")
        return s

    def comparator(self, default):
        if not self.accept(","):
            return default
        name = self.eat()
        if name not in COMPARATORS:
            raise Unparsed("comparator %r" % name)
        self.skip_template_args()
        self.eat("(")
        self.eat(")")
        return COMPARATORS[name]

    def primary(self):
        tk = self.peek()
        if tk == "(":
            self.eat()
            e = self.expr()
            self.eat(")")
            return e
        if tk in ("true", "false"):
            self.eat()
            return ("bool", "RConst %s" % tk)
        if tk is not None and re.fullmatch(r"\d+", tk):
            self.eat()
            return ("int", int(tk))
        if tk == "operator":
            self.eat()
            op = self.eat()
            if op not in RELOPS:
                raise Unparsed("operator%s" % op)
            self.eat("(")
            x = self.operand_side()
            self.eat(",")
            y = self.operand_side()
            self.eat(")")
            return ("bool", "RCall %s %s %s" % (RELOPS[op], x, y))
        if tk == "std::lexicographical_compare":
            self.eat()
            self.eat("(")
            x = self.iterator("begin")
            self.eat(",")
            x2 = self.iterator("end")
            self.eat(",")
            y = self.iterator("begin")
            self.eat(",")
            y2 = self.iterator("end")
            if x != x2 or y != y2:
                raise Unparsed("mixed ranges")
            c = self.comparator("CLt")
            self.eat(")")
            return ("bool", "RLex %s %s %s" % (x, y, c))
        if tk == "std::equal":
            self.eat()
            self.eat("(")
            x = self.iterator("begin")
            self.eat(",")
            x2 = self.iterator("end")
            self.eat(",")
            y = self.iterator("begin")
            four = False
            # a fourth iterator?
            save = self.i
            if self.accept(","):
                try:
                    y2 = self.iterator("end")
                    four = True
                    if y2 != y:
                        raise Unparsed("mixed ranges")
                except Unparsed:
                    self.i = save
            if x != x2:
                raise Unparsed("mixed ranges")
            c = self.comparator("CEq")
            self.eat(")")
            return ("bool", "%s %s %s %s" % ("REqual4" if four else "REqual3", x, y, c))
        if tk == "std::memcmp":
            self.eat()
            self.eat("(")
            x = self.iterator("begin")
            self.eat(",")
            y = self.iterator("begin")
            self.eat(",")
            n = self.product_size()
            self.eat(")")
            if n != x:
                raise Unparsed("memcmp length is not the size of its first range")
            return ("mem", x, y)
        if tk == "dominating" and self.mode == "mm":
            self.eat()
            self.eat("(")
            x = self.operand_side()
            self.eat(",")
            y = self.operand_side()
            self.eat(")")
            return ("bool", "RDom %s %s" % (x, y))
        if tk in self.locals:
            self.eat()
            return self.locals[tk]
        if tk in self.side:
            s = self.side[self.eat()]
            if self.peek() == ".":
                self.eat()
                f = self.eat()
                if f == "size":
                    self.eat("(")
                    self.eat(")")
                    if self.mode == "mm":
                        raise Unparsed("size of model_measurements")
                    return ("size", s)
                if self.mode == "mm" and f == "accuracy":
                    return ("acc", s)
                if self.mode == "mm" and f == "fitness":
                    return ("side", s)
                raise Unparsed("member %r" % f)
            if self.mode == "mm":
                raise Unparsed("whole model_measurements used as a value")
            return ("side", s)
        raise Unparsed("unexpected token %r" % tk)

    def product_size(self):
        """n * sizeof(T)  /  x.size() * sizeof(T)  -> side whose size it is"""
        a = self.primary()
        self.eat("*")
        if self.eat() != "sizeof":
            raise Unparsed("sizeof")
        self.eat("(")
        self.eat()
        self.eat(")")
        if a[0] != "size":
            raise Unparsed("memcmp length")
        return a[1]

    def as_bool(self, v):
        if v[0] == "bool":
            return v[1]
        raise Unparsed("not a boolean: %r" % (v,))

    def cmp_expr(self):
        a = self.primary()
        op = self.peek()
        if op in ECMP:
            self.eat()
            b = self.primary()
            if a[0] == "side" and b[0] == "side":
                return ("bool", "RCall %s %s %s" % (RELOPS[op], a[1], b[1]))
            if a[0] == "size" and b[0] == "size" and op in ("==", "!="):
                e = "RSizeEq %s %s" % (a[1], b[1])
                return ("bool", e if op == "==" else "RNot (%s)" % e)
            if a[0] == "acc" and b[0] == "acc":
                return ("bool", "RAcc %s %s %s" % (ECMP[op], a[1], b[1]))
            if a[0] == "mem" and b == ("int", 0) and op in ("==", "!="):
                e = "RMemEq %s %s" % (a[1], a[2])
                return ("bool", e if op == "==" else "RNot (%s)" % e)
            raise Unparsed("comparison of %r and %r" % (a, b))
        return a

    def not_expr(self):
        if self.accept("!"):
            return ("bool", "RNot (%s)" % self.as_bool(self.not_expr()))
        return self.cmp_expr()

    def and_expr(self):
        e = self.not_expr()
        while self.accept("&&"):
            e = ("bool", "RAnd (%s) (%s)" % (self.as_bool(e), self.as_bool(self.not_expr())))
        return e

    def expr(self):
        e = self.and_expr()
        while self.accept("||"):
            e = ("bool", "ROr (%s) (%s)" % (self.as_bool(e), self.as_bool(self.and_expr())))
        return e

    # ---- statements of a relational operator: -> rexpr text
    def block_or_stmt(self):
        if self.accept("{"):
            r = self.stmts()
            self.eat("}")
            return r
        return self.stmt(None)

    def stmts(self):
        """sequence ending with a return on every path"""
        tk = self.peek()
        if tk == "const" or tk == "auto":
            while self.peek() in ("const", "auto", "std::size_t", "size_t"):
                self.eat()
            name = self.eat()
            if self.accept("("):
                v = self.expr()
                self.eat(")")
            else:
                self.eat("=")
                v = self.expr()
            self.eat(";")
            if v[0] != "size":
                raise Unparsed("local %s is not a size" % name)
            self.locals[name] = v
            return self.stmts()
        return self.stmt(self.stmts)

    def stmt(self, rest):
        if self.accept("return"):
            e = self.as_bool(self.expr())
            self.eat(";")
            return e
        if self.accept("if"):
            if self.accept("constexpr"):
                self.eat("(")
                cond = []
                depth = 1
                while depth:
                    tk = self.eat()
                    depth += {"(": 1, ")": -1}.get(tk, 0)
                    cond.append(tk)
                ctext = "".join(cond[:-1])
                if not re.fullmatch(r"std::(is_arithmetic_v|is_floating_point_v)<T>", ctext):
                    raise Unparsed("if constexpr (%s)" % ctext)
                then = self.block_or_stmt()        # T = double: this branch
                if self.accept("else"):
                    save_locals = dict(self.locals)
                    self.block_or_stmt()           # parsed (must be well formed), not taken
                    self.locals = save_locals
                return then
            self.eat("(")
            c = self.as_bool(self.expr())
            self.eat(")")
            then = self.block_or_stmt()
            if self.accept("else"):
                els = self.block_or_stmt()
            else:
                if rest is None:
                    raise Unparsed("if without else at the end of a body")
                els = rest()
            return "RIte (%s) (%s) (%s)" % (c, then, els)
        raise Unparsed("statement starting with %r" % self.peek())


def parse_relational(body, params, mode="fitness"):
    p = P(tokenize(body), params, mode)
    e = p.stmts()
    if p.peek() is not None:
        raise Unparsed("trailing tokens after the last return: %r" % p.peek())
    return e


# ------------------------------------------------------------- dominating
class D(P):
    def sexpr_primary(self):
        if self.accept("("):
            e = self.sexpr()
            self.eat(")")
            return e
        if self.accept("!"):
            return "SNot (%s)" % self.sexpr_primary()
        tk = self.eat()
        if tk in ("true", "false"):
            return "SConst %s" % tk
        if tk in self.side:
            self.eat(".")
            f = self.eat()
            self.eat("(")
            self.eat(")")
            if f == "size":
                e = "SNonEmpty %s" % self.side[tk]
                if self.peek() in ("==", "!=", ">") and self.peek(1) == "0":
                    op = self.eat()
                    self.eat("0")
                    return "SNot (%s)" % e if op == "==" else e
                return e
            if f == "empty":
                return "SNot (SNonEmpty %s)" % self.side[tk]
        raise Unparsed("test on the sizes: %r" % tk)

    def sexpr_and(self):
        e = self.sexpr_primary()
        while self.accept("&&"):
            e = "SAnd (%s) (%s)" % (e, self.sexpr_primary())
        return e

    def sexpr(self):
        e = self.sexpr_and()
        while self.accept("||"):
            e = "SOr (%s) (%s)" % (e, self.sexpr_and())
        return e

    def elem(self):
        name = self.eat()
        if name not in self.side:
            raise Unparsed("element of %r" % name)
        self.eat("[")
        if self.eat() != self.index:
            raise Unparsed("index")
        self.eat("]")
        return self.side[name]

    def xparser(self):
        inv = {v: k for k, v in self.side.items()}
        x = X(self.t, env=getattr(self, "dlocals", {}), arrays={inv["Lhs"]: "EL", inv["Rhs"]: "ER"}, index=self.index)
        x.i = self.i
        return x

    def operand(self):
        x = self.xparser()
        e = x.xexpr()
        self.i = x.i
        return e

    def local_decls(self):
        """const T l(round_to(lhs[i])), r(round_to(rhs[i]));  at the start of the loop body"""
        while True:
            x = self.xparser()
            if not x.maybe_decl():
                return
            self.dlocals = x.env
            self.i = x.i

    def cond(self):
        if self.accept("!"):
            return "CNot (%s)" % self.cond()
        if self.peek() == "(":
            # parenthesised condition or parenthesised operand: try the condition first
            save = self.i
            try:
                self.eat("(")
                c = self.cond_or()
                self.eat(")")
                if self.peek() not in ECMP:
                    return c
            except Unparsed:
                pass
            self.i = save
        if self.peek() in ("almost_equal", "vita::almost_equal"):
            self.eat()
            self.eat("(")
            x = self.operand()
            self.eat(",")
            y = self.operand()
            self.eat(")")
            if (x, y) == ("EL", "ER"):
                return "CAlmost"
            return "COn (%s) (%s) CAlmost" % (x, y)
        x = self.operand()
        op = self.eat()
        if op not in ECMP:
            raise Unparsed("component test %r" % op)
        y = self.operand()
        c = ECMP[op]
        if (x, y) == ("EL", "ER"):
            return c
        if (x, y) == ("ER", "EL"):
            return FLIP[c]
        return "COn (%s) (%s) %s" % (x, y, c)

    def cond_or(self):
        c = self.cond()
        if self.peek() in ("&&", "||"):
            raise Unparsed("compound component test")
        return c

    def action(self):
        if self.accept("{"):
            a = self.action()
            self.eat("}")
            return a
        if self.accept("continue"):
            self.eat(";")
            return "DContinue"
        if self.accept("return"):
            v = self.eat()
            if v not in ("true", "false"):
                raise Unparsed("return %r inside the loop" % v)
            self.eat(";")
            return "DReturn %s" % v
        if self.peek() == self.flag:
            self.eat()
            self.eat("=")
            if self.eat() != "true":
                raise Unparsed("flag assignment")
            self.eat(";")
            return "DSetBetter"
        raise Unparsed("action %r" % self.peek())

    def dstmt_seq(self, closing):
        """sequence of if-statements up to `closing` (None: exactly one statement)"""
        if closing is not None:
            self.local_decls()
        if closing is not None and self.peek() == closing:
            return "DNil"
        if self.peek() != "if":
            raise Unparsed("loop statement starting with %r" % self.peek())
        self.eat("if")
        self.eat("(")
        c = self.cond_or()
        self.eat(")")
        t = self.action()
        els = "DNil"
        if self.accept("else"):
            if self.peek() == "if":
                els = self.dstmt_seq(None)
            else:
                els = "DIf CTrue (%s) DNil DNil" % self.action()
        nxt = "DNil" if closing is None else self.dstmt_seq(closing)
        return "DIf (%s) (%s) (%s) (%s)" % (c, t, els, nxt)

    def parse(self):
        # bool one_better(<sexpr>);
        self.eat("bool")
        self.flag = self.eat()
        if self.accept("("):
            init = self.sexpr()
            self.eat(")")
        else:
            self.eat("=")
            init = self.sexpr()
        self.eat(";")
        # const auto n(std::min(lhs.size(), rhs.size()));
        while self.peek() in ("const", "auto", "std::size_t", "size_t"):
            self.eat()
        nname = self.eat()
        paren = self.accept("(")
        if not paren:
            self.eat("=")
        if self.accept("std::min"):
            self.eat("(")
            a = self.size_of()
            self.eat(",")
            b = self.size_of()
            self.eat(")")
            if {a, b} != {"Lhs", "Rhs"}:
                raise Unparsed("loop bound")
            bound = "BMin"
        else:
            bound = "BLhs" if self.size_of() == "Lhs" else "BRhs"
        if paren:
            self.eat(")")
        self.eat(";")
        # for (std::size_t i(0); i < n; ++i)
        self.eat("for")
        self.eat("(")
        while self.peek() in ("const", "auto", "std::size_t", "size_t", "unsigned", "int"):
            self.eat()
        self.index = self.eat()
        if self.accept("("):
            self.eat("0")
            self.eat(")")
        else:
            self.eat("=")
            self.eat("0")
        self.eat(";")
        if (self.eat(), self.eat(), self.eat()) != (self.index, "<", nname):
            raise Unparsed("loop condition")
        self.eat(";")
        inc = [self.eat(), self.eat()]
        if sorted(inc) != sorted(["++", self.index]):
            raise Unparsed("loop increment")
        self.eat(")")
        if self.accept("{"):
            body = self.dstmt_seq("}")
            self.eat("}")
        else:
            body = self.dstmt_seq(None)
        self.eat("return")
        if self.eat() != self.flag:
            raise Unparsed("final return")
        self.eat(";")
        if self.peek() is not None:
            raise Unparsed("trailing tokens")
        return init, bound, body

    def size_of(self):
        name = self.eat()
        if name not in self.side:
            raise Unparsed("size of %r" % name)
        self.eat(".")
        if self.eat() != "size":
            raise Unparsed("size")
        self.eat("(")
        self.eat(")")
        return self.side[name]


FIT_SIG = r"bool\s+operator\s*%s\s*(?=\()"
HEADER = """(* GENERATED by translate/fitness_ops.py from src/kernel/fitness.tcc and
   src/kernel/model_measurements.h -- do not edit.  How the source defines each
   relational operator of basic_fitness_t, dominating() and
   model_measurements::operator>=, and which loop applies which per-element
   expression in the arithmetic, the lifts, distance, combine and the scalar
   round_to of utility.h (types and meaning: Fitness/FitnessSrc.v). *)
From Coq Require Import ZArith List Bool.
From VV Require Import Fitness.FitnessSrc.
Import ListNotations.
Local Open Scope Z_scope.

"""


def generate(snap):
    """returns (text, problems)"""
    problems = []
    out = {}
    try:
        with open(os.path.join(snap, "kernel", "fitness.tcc")) as f:
            tcc = strip_comments(f.read())
        with open(os.path.join(snap, "kernel", "model_measurements.h")) as f:
            mmh = strip_comments(f.read())
    except OSError as e:
        return None, ["cannot read the sources: %s" % e]
    names = [("==", "op_eq_def"), ("!=", "op_ne_def"), ("<", "op_lt_def"), (">", "op_gt_def"),
             (">=", "op_ge_def"), ("<=", "op_le_def")]
    for op, name in names:
        try:
            params, body = find_function(tcc, FIT_SIG % re.escape(op))
            if len(params) != 2:
                raise Unparsed("two parameters expected")
            out[name] = parse_relational(body, params)
        except Unparsed as e:
            problems.append("operator%s: %s" % (op, e))
    try:
        params, body = find_function(tcc, r"bool\s+dominating\s*(?=\()")
        d = D(tokenize(body), params, "fitness")
        out["dom"] = d.parse()
    except Unparsed as e:
        problems.append("dominating: %s" % e)
    try:
        params, body = find_function(mmh, r"bool\s+operator\s*>=\s*(?=\()")
        out["mm_ge_def"] = parse_relational(body, params, mode="mm")
    except Unparsed as e:
        problems.append("model_measurements::operator>=: %s" % e)
    try:
        with open(os.path.join(snap, "utility", "utility.h")) as f:
            util = strip_comments(f.read())
        arith, aprob = generate_arith(tcc, util)
        problems += aprob
    except OSError as e:
        problems.append("cannot read utility.h: %s" % e)
    if problems:
        return None, problems
    t = HEADER
    for _, name in names:
        t += "Definition %s : rexpr := %s.\n" % (name, out[name])
    t += """
Definition op_defs (o : relop) : rexpr :=
  match o with
  | OpLt => op_lt_def | OpEq => op_eq_def | OpGt => op_gt_def
  | OpGe => op_ge_def | OpLe => op_le_def | OpNe => op_ne_def
  end.

"""
    init, bound, body = out["dom"]
    t += "Definition dominating_def : dom_def :=\n  {| d_init := %s;\n     d_bound := %s;\n     d_body := %s |}.\n\n" % (init, bound, body)
    t += "Definition mm_ge_def : rexpr := %s.\n" % out["mm_ge_def"]
    t += "\n(* the arithmetic: which loop applies which per-element expression *)\n"
    for name, ty in ARITH_TYPES.items():
        t += "Definition %s : %s := %s.\n" % (name, ty, arith[name])
    return t, []




# ===================================================================
# Round 4: the arithmetic.  Per-element expressions of the loops/transforms.
import struct


def f64_bits(x):
    return struct.unpack(">Q", struct.pack(">d", float(x)))[0]


CALLS = {"std::abs": "FAbs", "std::fabs": "FAbs", "fabs": "FAbs", "abs": "FAbs", "std::sqrt": "FSqrt",
         "sqrt": "FSqrt", "std::round": "FRound", "round": "FRound", "round_to": "FRoundTo",
         "vita::round_to": "FRoundTo"}
BINOPS = {"+": "BAdd", "-": "BSub", "*": "BMul", "/": "BDiv"}
TYPEWORDS = ("const", "constexpr", "static", "auto", "T", "double", "std::size_t", "size_t", "unsigned", "int")


class X(P):
    """element expressions.  env: name -> eexpr text; arrays: name -> side text (name[index]);
    self_elem: text for operator[](i) / (*this)[i] / vect_[i]"""

    def __init__(self, toks, env=None, arrays=None, index=None, self_elem=None):
        self.t = toks
        self.i = 0
        self.env = dict(env or {})
        self.arrays = dict(arrays or {})
        self.index = index
        self.self_elem = self_elem

    def subscript(self):
        self.eat("[")
        if self.index is None or self.eat() != self.index:
            raise Unparsed("subscript")
        self.eat("]")

    def xprimary(self):
        tk = self.peek()
        if tk == "(":
            if self.peek(1) == "*" and self.peek(2) == "this":
                self.eat(); self.eat(); self.eat(); self.eat(")")
                self.subscript()
                if self.self_elem is None:
                    raise Unparsed("(*this)[i] outside a member")
                return self.self_elem
            self.eat()
            e = self.xexpr()
            self.eat(")")
            return e
        if tk == "-":
            self.eat()
            return "ENeg (%s)" % self.xunary()
        if tk is not None and re.fullmatch(r"\d+\.\d*|\d+", tk):
            self.eat()
            if self.peek() in ("f", "F", "L", "l"):
                raise Unparsed("literal suffix")
            return "EConst %d" % f64_bits(float(tk))
        if tk == "static_cast":
            self.eat()
            self.skip_template_args()
            self.eat("(")
            e = self.xexpr()
            self.eat(")")
            return e
        if tk == "std::move":
            self.eat()
            self.eat("(")
            e = self.xexpr()
            self.eat(")")
            return e
        if tk == "operator" and self.peek(1) == "[":
            self.eat(); self.eat("["); self.eat("]"); self.eat("(")
            if self.index is None or self.eat() != self.index:
                raise Unparsed("operator[] argument")
            self.eat(")")
            if self.self_elem is None:
                raise Unparsed("operator[] outside a member")
            return self.self_elem
        if tk in CALLS and self.peek(1) == "(":
            self.eat()
            self.eat("(")
            e = self.xexpr()
            self.eat(")")
            return "ECall %s (%s)" % (CALLS[tk], e)
        if tk in self.arrays:
            self.eat()
            self.subscript()
            return self.arrays[tk]
        if tk in self.env:
            self.eat()
            return self.env[tk]
        raise Unparsed("expression token %r" % tk)

    def xunary(self):
        return self.xprimary()

    def xterm(self):
        e = self.xunary()
        while self.peek() in ("*", "/"):
            op = self.eat()
            e = "EBin %s (%s) (%s)" % (BINOPS[op], e, self.xunary())
        return e

    def xexpr(self):
        e = self.xterm()
        while self.peek() in ("+", "-"):
            op = self.eat()
            e = "EBin %s (%s) (%s)" % (BINOPS[op], e, self.xterm())
        return e

    # ---- declarations of constants:  constexpr T a(E), b(E);   const T a = E;
    def maybe_decl(self):
        """parse one declaration statement binding names to expressions; False if not a declaration"""
        if self.peek() not in TYPEWORDS or self.peek() == "auto" and self.peek(1) == "&":
            return False
        save = self.i
        while self.peek() in TYPEWORDS:
            self.eat()
        while True:
            name = self.eat()
            if not re.fullmatch(r"[A-Za-z_]\w*", name or ""):
                self.i = save
                return False
            if self.accept("("):
                e = self.xexpr()
                self.eat(")")
            elif self.accept("="):
                e = self.xexpr()
            else:
                self.i = save
                return False
            self.env[name] = e
            if self.accept(","):
                continue
            self.eat(";")
            return True

    def assignment(self, target_is):
        """<target> OP= E;  |  <target> = E;   -> new expression for the target.
        target_is(parser) consumes the target and returns its current expression"""
        cur = target_is()
        op = self.eat()
        if op == "=":
            e = self.xexpr()
        elif op in BINOPS and self.accept("="):
            e = "EBin %s (%s) (%s)" % (BINOPS[op], cur, self.xexpr())
        else:
            raise Unparsed("assignment operator %r" % op)
        self.eat(";")
        return e

    def for_header_index(self):
        """for (std::size_t i(0); i < n; ++i)   -> index name, bound name"""
        self.eat("for")
        self.eat("(")
        while self.peek() in TYPEWORDS:
            self.eat()
        idx = self.eat()
        if self.accept("("):
            self.eat("0"); self.eat(")")
        else:
            self.eat("="); self.eat("0")
        self.eat(";")
        if self.eat() != idx:
            raise Unparsed("loop condition")
        self.eat("<")
        bound = self.eat()
        self.eat(";")
        inc = [self.eat(), self.eat()]
        if sorted(inc) != sorted(["++", idx]):
            raise Unparsed("loop increment")
        self.eat(")")
        return idx, bound

    def done(self):
        if self.peek() is not None:
            raise Unparsed("trailing tokens: %r" % self.peek())


def find_function2(src, sig_re, param_filter=None):
    """like find_function, choosing the first definition whose parameter text passes the filter;
    returns (parameter names, parameter text, body)"""
    for m in re.finditer(sig_re + r"\s*\(([^)]*)\)\s*(?:const)?\s*\{", src):
        if param_filter and not param_filter(m.group(1)):
            continue
        params = []
        for p in m.group(1).split(","):
            w = re.findall(r"[A-Za-z_]\w*", p)
            if not w:
                raise Unparsed("parameter list")
            params.append(w[-1])
        i = m.end()
        depth = 1
        while i < len(src) and depth:
            depth += {"{": 1, "}": -1}.get(src[i], 0)
            i += 1
        if depth:
            raise Unparsed("unbalanced body")
        return params, m.group(1), src[m.end():i - 1]
    raise Unparsed("definition not found: " + sig_re)


def parse_compound(body, params):
    """member operator OP=(const basic_fitness_t &f):
       const auto n(size()); for (i < n) operator[](i) OP= f[i]; return *this;   -> eexpr"""
    x = X(tokenize(body), arrays={params[0]: "ER", "vect_": "EL"}, self_elem="EL")
    while x.peek() in TYPEWORDS:
        x.eat()
    nname = x.eat()
    paren = x.accept("(")
    if not paren:
        x.eat("=")
    if x.peek() == "this":
        x.eat(); x.eat("->")
    if x.eat() != "size":
        raise Unparsed("loop bound is not size()")
    x.eat("("); x.eat(")")
    if paren:
        x.eat(")")
    x.eat(";")
    idx, bound = x.for_header_index()
    if bound != nname:
        raise Unparsed("loop bound")
    x.index = idx
    braces = x.accept("{")
    e = x.assignment(x.xprimary)
    if braces:
        x.eat("}")
    x.eat("return"); x.eat("*"); x.eat("this"); x.eat(";")
    x.done()
    return e


def parse_binary_free(body, params):
    """operator OP(lhs, rhs):  return lhs OP= rhs;   -> the compound operator it delegates to"""
    t = tokenize(body)
    if len(t) == 6 and t[0] == "return" and t[1] == params[0] and t[2] in BINOPS and t[3] == "=" \
            and t[4] == params[1] and t[5] == ";":
        return t[2]
    raise Unparsed("free operator is not `return lhs OP= rhs;`")


def parse_range_for(body, params, scalar=None, delegates=None):
    """[constants]  for (auto &f_i : f) f_i OP= E; | f_i = E;   return f;
       or  return std::move(f) OP (E);  with OP a scalar operator already described (delegates: op -> eexpr)"""
    env = {}
    if scalar:
        env[scalar] = "EScalar"
    x = X(tokenize(body), env=env)
    while x.maybe_decl():
        pass
    if x.accept("return"):
        # delegation  f OP E
        if x.accept("std::move"):
            x.eat("("); v = x.eat(); x.eat(")")
        else:
            v = x.eat()
        if v != params[0]:
            raise Unparsed("delegation on %r" % v)
        op = x.eat()
        if not delegates or op not in delegates:
            raise Unparsed("delegation to operator%s" % op)
        arg = x.xunary()
        x.eat(";")
        x.done()
        return delegates[op].replace("EScalar", "(%s)" % arg) if arg != "EScalar" else delegates[op]
    x.eat("for"); x.eat("(")
    while x.peek() in TYPEWORDS:
        x.eat()
    x.eat("&")
    var = x.eat()
    x.eat(":")
    if x.eat() != params[0]:
        raise Unparsed("range of the loop")
    x.eat(")")
    x.env[var] = "EL"
    braces = x.accept("{")

    def target():
        if x.eat() != var:
            raise Unparsed("assignment target")
        return "EL"
    e = x.assignment(target)
    if braces:
        x.eat("}")
    x.eat("return")
    if x.eat() != params[0]:
        raise Unparsed("return value")
    x.eat(";")
    x.done()
    return e


def parse_scalar_round_to(body, params):
    """T round_to(T val): [constants] (val OP= E; | val = E;)* return E;   composed into one expression"""
    val = params[0]
    x = X(tokenize(body), env={val: "EL"})
    while True:
        if x.maybe_decl():
            continue
        if x.accept("return"):
            e = x.xexpr()
            x.eat(";")
            x.done()
            return e

        def target():
            if x.eat() != val:
                raise Unparsed("assignment target")
            return x.env[val]
        x.env[val] = x.assignment(target)


PREDS = {"std::isfinite": "PIsFinite", "isfinite": "PIsFinite", "std::isnan": "PIsNan", "isnan": "PIsNan",
         "vita::issmall": "PIsSmall", "issmall": "PIsSmall", "vita::isnonnegative": "PIsNonneg",
         "isnonnegative": "PIsNonneg"}


def parse_lift(body, params):
    """return std::all_of|any_of(std::begin(f), std::end(f), PRED);   PRED = static_cast<..>(name) | lambda"""
    p = P(tokenize(body), [params[0], "_"], "fitness")
    p.eat("return")
    alg = p.eat()
    if alg not in ("std::all_of", "std::any_of", "std::none_of"):
        raise Unparsed("algorithm %r" % alg)
    p.eat("(")
    a = p.iterator("begin"); p.eat(",")
    b = p.iterator("end"); p.eat(",")
    if a != "Lhs" or b != "Lhs":
        raise Unparsed("range")
    if p.accept("static_cast"):
        p.skip_template_args()
        p.eat("(")
        name = p.eat()
        p.eat(")")
        if name not in PREDS:
            raise Unparsed("predicate %r" % name)
        pred = PREDS[name]
    elif p.accept("["):
        p.eat("]"); p.eat("(")
        while p.peek() in TYPEWORDS:
            p.eat()
        v = p.eat()
        p.eat(")"); p.eat("{"); p.eat("return")
        neg = p.accept("!")
        name = p.eat()
        if name not in PREDS:
            raise Unparsed("predicate %r" % name)
        p.eat("(")
        if p.eat() != v:
            raise Unparsed("lambda argument")
        p.eat(")"); p.eat(";"); p.eat("}")
        pred = PREDS[name]
        if neg:
            pred = "PNot %s" % pred
    else:
        name = p.eat()
        if name not in PREDS:
            raise Unparsed("predicate %r" % name)
        pred = PREDS[name]
    p.eat(")"); p.eat(";")
    if p.peek() is not None:
        raise Unparsed("trailing tokens")
    if alg == "std::none_of":
        return "QAll", "PNot (%s)" % pred
    return ("QAll" if alg == "std::all_of" else "QAny"), pred


def parse_expects_eq(x, params):
    """Expects(a.size() == b.size());  -> True when present"""
    if x.peek() != "Expects":
        return False
    x.eat(); x.eat("(")
    toks = []
    depth = 1
    while depth:
        tk = x.eat()
        depth += {"(": 1, ")": -1}.get(tk, 0)
        toks.append(tk)
    x.eat(";")
    txt = "".join(toks[:-1])
    a, b = params[0], params[1]
    if txt in ("%s.size()==%s.size()" % (a, b), "%s.size()==%s.size()" % (b, a)):
        return True
    raise Unparsed("Expects(%s)" % txt)


def parse_almost_lift(body, params):
    """[Expects(sizes equal);] const auto n(f1.size()); for (i < n) if (!almost_equal(f1[i], f2[i], e)) return false;
       return true;"""
    x = X(tokenize(body), env={params[2]: "EScalar"} if len(params) > 2 else {},
          arrays={params[0]: "EL", params[1]: "ER"})
    eqs = parse_expects_eq(x, params)
    while x.peek() in TYPEWORDS:
        x.eat()
    nname = x.eat()
    paren = x.accept("(")
    if not paren:
        x.eat("=")
    if x.eat() != params[0]:
        raise Unparsed("loop bound")
    x.eat("."); x.eat("size"); x.eat("("); x.eat(")")
    if paren:
        x.eat(")")
    x.eat(";")
    idx, bound = x.for_header_index()
    if bound != nname:
        raise Unparsed("loop bound")
    x.index = idx
    braces = x.accept("{")
    x.eat("if"); x.eat("("); x.eat("!")
    if x.eat() not in ("almost_equal", "vita::almost_equal"):
        raise Unparsed("pair test")
    x.eat("(")
    a = x.xexpr(); x.eat(",")
    b = x.xexpr()
    eps = None
    if x.accept(","):
        eps = x.xexpr()
    x.eat(")"); x.eat(")")
    x.eat("return"); x.eat("false"); x.eat(";")
    if braces:
        x.eat("}")
    x.eat("return"); x.eat("true"); x.eat(";")
    x.done()
    if (a, b) != ("EL", "ER"):
        raise Unparsed("argument order of the pair test")
    return eqs, ("CAlmostE (%s)" % eps if eps is not None else "CAlmost")


def parse_distance(body, params):
    """[Expects(sizes equal);] return std::inner_product | std::transform_reduce
                                 (a.begin(), a.end(), b.begin(), INIT, std::plus<>(), [](T a, T b) { return E; });
    the algorithm is part of the description: it fixes the order of a floating-point accumulation"""
    p = P(tokenize(body), params, "fitness")
    x = X(p.t)
    eqs = parse_expects_eq(x, params)
    p.i = x.i
    p.eat("return")
    algs = {"std::inner_product": "ALeftFold", "std::transform_reduce": "AUnspecifiedOrder"}
    alg = p.eat()
    if alg not in algs:
        raise Unparsed("reduction algorithm %r" % alg)
    p.eat("(")
    if alg == "std::transform_reduce" and p.peek() in ("std::execution::seq", "std::execution::par",
                                                       "std::execution::par_unseq", "std::execution::unseq"):
        p.eat(); p.eat(",")
    a = p.iterator("begin"); p.eat(",")
    a2 = p.iterator("end"); p.eat(",")
    b = p.iterator("begin"); p.eat(",")
    if (a, a2, b) != ("Lhs", "Lhs", "Rhs"):
        raise Unparsed("ranges")
    init = p.eat()
    if not re.fullmatch(r"\d+\.\d*|\d+", init):
        raise Unparsed("initial value")
    p.eat(",")
    acc = p.eat()
    accs = {"std::plus": "BAdd", "std::minus": "BSub", "std::multiplies": "BMul"}
    if acc not in accs:
        raise Unparsed("accumulation %r" % acc)
    p.skip_template_args()
    p.eat("("); p.eat(")"); p.eat(",")
    p.eat("["); p.eat("]"); p.eat("(")
    while p.peek() in TYPEWORDS:
        p.eat()
    va = p.eat(); p.eat(",")
    while p.peek() in TYPEWORDS:
        p.eat()
    vb = p.eat(); p.eat(")"); p.eat("{"); p.eat("return")
    x = X(p.t, env={va: "EL", vb: "ER"})
    x.i = p.i
    e = x.xexpr()
    x.eat(";"); x.eat("}"); x.eat(")"); x.eat(";")
    x.done()
    return algs[alg], eqs, f64_bits(float(init)), accs[acc], e


def parse_combine(body, params):
    """values_t ret; [ret.reserve(..);] ret.insert(std::end(ret), std::begin(x), std::end(x)); ...  return ret;"""
    t = tokenize(body)
    p = D(t, params, "fitness")
    guard = "SConst false"
    if p.peek() == "if":
        # if (<test on the sizes>) return basic_fitness_t<T>();   (the empty fitness)
        p.eat("if"); p.eat("(")
        guard = p.sexpr()
        p.eat(")"); p.eat("return")
        if p.accept("{"):
            p.eat("}")
        else:
            if p.eat() != "basic_fitness_t":
                raise Unparsed("early return of something else than the empty fitness")
            p.skip_template_args()
            if p.accept("("):
                p.eat(")")
            elif p.accept("{"):
                p.eat("}")
        p.eat(";")
    # declaration: everything up to the next ';' ends with the name of the result
    j = t.index(";", p.i)
    ret = t[j - 1]
    p.i = j + 1
    order = []
    while True:
        if p.accept("return"):
            if p.eat() != ret:
                raise Unparsed("return value")
            p.eat(";")
            break
        if p.eat() != ret:
            raise Unparsed("statement on something else than the result")
        p.eat(".")
        m = p.eat()
        if m == "reserve":
            p.eat("(")
            depth = 1
            while depth:
                depth += {"(": 1, ")": -1}.get(p.eat(), 0)
            p.eat(";")
            continue
        if m != "insert":
            raise Unparsed("member %r" % m)
        p.eat("(")
        # position: std::end(ret) / ret.end()
        if p.accept("std::end"):
            p.eat("(")
            if p.eat() != ret:
                raise Unparsed("insert position")
            p.eat(")")
        else:
            if p.eat() != ret:
                raise Unparsed("insert position")
            p.eat("."); p.eat("end"); p.eat("("); p.eat(")")
        p.eat(",")
        a = p.iterator("begin"); p.eat(",")
        b = p.iterator("end")
        if a != b:
            raise Unparsed("mixed ranges")
        p.eat(")"); p.eat(";")
        order.append(a)
    if p.peek() is not None:
        raise Unparsed("trailing tokens")
    return guard, order


def generate_arith(tcc, util):
    """-> (dict name -> Coq term text, problems)"""
    out, problems = {}, []
    BF = r"basic_fitness_t<T>"

    def attempt(name, fn):
        try:
            out[name] = fn()
        except Unparsed as e:
            problems.append("%s: %s" % (name, e))
        except (ValueError, IndexError) as e:
            problems.append("%s: %s" % (name, e))

    compound = {}
    for op in ("+", "-", "*"):
        def f(op=op):
            params, _, body = find_function2(tcc, BF + r"\s*&\s*" + BF + r"::operator\s*" + re.escape(op) + r"=\s*(?=\()")
            return parse_compound(body, params)
        try:
            compound[op] = f()
        except Unparsed as e:
            problems.append("operator%s=: %s" % (op, e))
    for op, name in (("+", "plus_def"), ("-", "minus_def"), ("*", "times_def")):
        def f(op=op):
            params, _, body = find_function2(tcc, BF + r"\s+operator\s*" + re.escape(op) + r"\s*(?=\()",
                                             lambda ptxt: ptxt.count("basic_fitness_t") == 2)
            target = parse_binary_free(body, params)
            if target not in compound:
                raise Unparsed("delegates to operator%s= which was not parsed" % target)
            return "VIndexLoop (%s)" % compound[target]
        attempt(name, f)
    scalar_ops = {}

    def scalar_filter(ptxt):
        return ptxt.count("basic_fitness_t") == 1 and re.search(r"\bT\s+\w+\s*$", ptxt) is not None
    # operator*(f, v) first, then operator/(f, v) (either may delegate to the other)
    for rnd in (0, 1):
        for op in ("*", "/"):
            if op in scalar_ops:
                continue
            try:
                params, _, body = find_function2(tcc, BF + r"\s+operator\s*" + re.escape(op) + r"\s*(?=\()", scalar_filter)
                scalar_ops[op] = parse_range_for(body, params, scalar=params[1], delegates=scalar_ops)
            except Unparsed as e:
                if rnd == 1:
                    problems.append("operator%s(f, v): %s" % (op, e))
    if "/" in scalar_ops:
        out["div_scalar_def"] = "VRangeFor (%s)" % scalar_ops["/"]
    if "*" in scalar_ops:
        out["mul_scalar_def"] = "VRangeFor (%s)" % scalar_ops["*"]
    for fn, name in (("abs", "abs_def"), ("sqrt", "sqrt_def"), ("round_to", "round_to_def")):
        def f(fn=fn):
            params, _, body = find_function2(tcc, BF + r"\s+" + fn + r"\s*(?=\()")
            return "VRangeFor (%s)" % parse_range_for(body, params)
        attempt(name, f)
    for fn, name in (("isfinite", "isfinite_def"), ("isnan", "isnan_def"), ("issmall", "issmall_def"),
                     ("isnonnegative", "isnonnegative_def")):
        def f(fn=fn):
            params, _, body = find_function2(tcc, r"bool\s+" + fn + r"\s*(?=\()")
            q, pred = parse_lift(body, params)
            return "{| l_quant := %s; l_pred := %s |}" % (q, pred)
        attempt(name, f)

    def f_ae():
        params, _, body = find_function2(tcc, r"bool\s+almost_equal\s*(?=\()")
        eqs, t = parse_almost_lift(body, params)
        return "{| pl_eq_sizes := %s; pl_test := %s |}" % ("true" if eqs else "false", t)
    attempt("almost_equal_def", f_ae)

    def f_dist():
        params, _, body = find_function2(tcc, r"double\s+distance\s*(?=\()")
        alg, eqs, init, acc, e = parse_distance(body, params)
        return "VInner %s %s %d %s (%s)" % (alg, "true" if eqs else "false", init, acc, e)
    attempt("distance_def", f_dist)

    def f_comb():
        params, _, body = find_function2(tcc, BF + r"\s+combine\s*(?=\()")
        guard, order = parse_combine(body, params)
        return "VConcat (%s) [%s]" % (guard, "; ".join(order))
    attempt("combine_def", f_comb)

    def f_rt():
        params, _, body = find_function2(util, r"\bT\s+round_to\s*(?=\()")
        return parse_scalar_round_to(body, params)
    attempt("round_to_scalar_def", f_rt)
    return out, problems


ARITH_TYPES = {"plus_def": "vop", "minus_def": "vop", "times_def": "vop", "div_scalar_def": "vop",
               "mul_scalar_def": "vop", "abs_def": "vop", "sqrt_def": "vop", "round_to_def": "vop",
               "distance_def": "vop", "combine_def": "vop", "isfinite_def": "lift_def", "isnan_def": "lift_def",
               "issmall_def": "lift_def", "isnonnegative_def": "lift_def", "almost_equal_def": "pair_lift",
               "round_to_scalar_def": "eexpr"}


if __name__ == "__main__":
    import sys
    text, probs = generate(sys.argv[1] if len(sys.argv) > 1 else "/repo/src")
    print(text if text else "PROBLEMS:\n" + "\n".join(probs))
