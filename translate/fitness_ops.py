"""C18 -- translator: src/kernel/fitness.tcc, src/kernel/model_measurements.h
-> coq/Gen/FitnessOps.v

For each relational operator of basic_fitness_t (== != < > >= <=) it extracts
HOW the source defines it: which std algorithm over which arguments with which
comparator (std::lexicographical_compare, std::equal with 3 or 4 iterators,
std::memcmp), or which other operator with which argument order under which
negation; size guards and `if constexpr (std::is_arithmetic_v<T>)` (T = double:
the first branch) are followed.  For dominating() it extracts the initial value
of `one_better`, the loop bound and the per-component statement (tests on
lhs[i], rhs[i] incl. almost_equal; actions one_better = true / return b /
continue).  For model_measurements::operator>= the boolean combination of
dominating(...) and the accuracy comparison.

The output contains definitions only (terms of the types of
coq/Fitness/FitnessSrc.v); Fitness/FitnessSrcProofs.v proves that they denote
the model functions, so a changed derivation changes what has to be proved.

generate(snapshot_dir) -> (text, problems).  When a body falls outside the
recognised subset, problems is non-empty and the caller keeps the checked-in
file (tie = correspondence only)."""
import os
import re


class Unparsed(Exception):
    pass


def strip_comments(src):
    src = re.sub(r"/\*.*?\*/", " ", src, flags=re.S)
    return re.sub(r"//[^\n]*", " ", src)


TOKEN_RE = re.compile(r"\s*(?:([A-Za-z_][\w]*(?:::[A-Za-z_]\w*)*)|(\d+\.\d*|\d+)|(&&|\|\||==|!=|<=|>=|\+\+|--|->|[-+*/%<>!=(){}\[\],;.&?:]))")


def tokenize(text):
    toks = []
    i = 0
    text = text.strip()
    while i < len(text):
        m = TOKEN_RE.match(text, i)
        if not m or m.end() == i:
            if text[i:].strip() == "":
                break
            raise Unparsed("cannot tokenize near %r" % text[i:i + 30])
        toks.append(m.group(1) or m.group(2) or m.group(3))
        i = m.end()
    return toks


def find_function(src, sig_re):
    """(parameter names, body text) of the first definition matching sig_re
    (a regex that ends just before the parameter list's '(' )"""
    m = re.search(sig_re + r"\s*\(([^)]*)\)\s*\{", src)
    if not m:
        raise Unparsed("definition not found: " + sig_re)
    params = []
    for p in m.group(1).split(","):
        w = re.findall(r"[A-Za-z_]\w*", p)
        if not w:
            raise Unparsed("parameter list")
        params.append(w[-1])
    i = m.end()
    depth = 1
    while i < len(src) and depth:
        depth += {"{": 1, "}": -1}.get(src[i], 0)
        i += 1
    if depth:
        raise Unparsed("unbalanced body")
    return params, src[m.end():i - 1]


RELOPS = {"<": "OpLt", "==": "OpEq", ">": "OpGt", ">=": "OpGe", "<=": "OpLe", "!=": "OpNe"}
ECMP = {"<": "CLt", "<=": "CLe", ">": "CGt", ">=": "CGe", "==": "CEq", "!=": "CNe"}
FLIP = {"CLt": "CGt", "CGt": "CLt", "CLe": "CGe", "CGe": "CLe", "CEq": "CEq", "CNe": "CNe"}
COMPARATORS = {"std::less": "CLt", "std::less_equal": "CLe", "std::greater": "CGt", "std::greater_equal": "CGe",
               "std::equal_to": "CEq", "std::not_equal_to": "CNe"}


class P:
    """recursive descent over a token list"""

    def __init__(self, toks, params, mode):
        self.t = toks
        self.i = 0
        self.side = {params[0]: "Lhs", params[1]: "Rhs"}
        self.mode = mode            # "fitness" | "mm"
        self.locals = {}            # name -> operand

    # ---- token helpers
    def peek(self, k=0):
        return self.t[self.i + k] if self.i + k < len(self.t) else None

    def eat(self, tok=None):
        cur = self.peek()
        if cur is None or (tok is not None and cur != tok):
            raise Unparsed("expected %r, found %r (token %d)" % (tok, cur, self.i))
        self.i += 1
        return cur

    def accept(self, tok):
        if self.peek() == tok:
            self.i += 1
            return True
        return False

    def skip_template_args(self):
        if self.peek() == "<":
            depth = 0
            while True:
                tk = self.eat()
                if tk == "<":
                    depth += 1
                elif tk == ">":
                    depth -= 1
                    if depth == 0:
                        return

    # ---- operands: ("side", s) ("size", s) ("fit", s) ("acc", s) ("mem", x, y) ("int", n) ("elem", s) ("bool", rexpr)
    def iterator(self, which):
        """std::begin(x) / std::cbegin(x) / x.begin() / x.cbegin()  (which = begin|end) -> side"""
        names = {"std::" + which, "std::c" + which}
        if self.peek() in names:
            self.eat()
            self.eat("(")
            s = self.operand_side()
            self.eat(")")
            return s
        s = self.operand_side()
        self.eat(".")
        if self.eat() not in (which, "c" + which):
            raise Unparsed("iterator")
        self.eat("(")
        self.eat(")")
        return s

    def operand_side(self):
        name = self.eat()
        if name not in self.side:
            raise Unparsed("unknown object %r" % name)
        s = self.side[name]
        if self.mode == "mm":
            self.eat(".")
            if self.eat() != "fitness":
                raise Unparsed("expected .fitness")
        return s

    def comparator(self, default):
        if not self.accept(","):
            return default
        name = self.eat()
        if name not in COMPARATORS:
            raise Unparsed("comparator %r" % name)
        self.skip_template_args()
        self.eat("(")
        self.eat(")")
        return COMPARATORS[name]

    def primary(self):
        tk = self.peek()
        if tk == "(":
            self.eat()
            e = self.expr()
            self.eat(")")
            return e
        if tk in ("true", "false"):
            self.eat()
            return ("bool", "RConst %s" % tk)
        if tk is not None and re.fullmatch(r"\d+", tk):
            self.eat()
            return ("int", int(tk))
        if tk == "operator":
            self.eat()
            op = self.eat()
            if op not in RELOPS:
                raise Unparsed("operator%s" % op)
            self.eat("(")
            x = self.operand_side()
            self.eat(",")
            y = self.operand_side()
            self.eat(")")
            return ("bool", "RCall %s %s %s" % (RELOPS[op], x, y))
        if tk == "std::lexicographical_compare":
            self.eat()
            self.eat("(")
            x = self.iterator("begin")
            self.eat(",")
            x2 = self.iterator("end")
            self.eat(",")
            y = self.iterator("begin")
            self.eat(",")
            y2 = self.iterator("end")
            if x != x2 or y != y2:
                raise Unparsed("mixed ranges")
            c = self.comparator("CLt")
            self.eat(")")
            return ("bool", "RLex %s %s %s" % (x, y, c))
        if tk == "std::equal":
            self.eat()
            self.eat("(")
            x = self.iterator("begin")
            self.eat(",")
            x2 = self.iterator("end")
            self.eat(",")
            y = self.iterator("begin")
            four = False
            # a fourth iterator?
            save = self.i
            if self.accept(","):
                try:
                    y2 = self.iterator("end")
                    four = True
                    if y2 != y:
                        raise Unparsed("mixed ranges")
                except Unparsed:
                    self.i = save
            if x != x2:
                raise Unparsed("mixed ranges")
            c = self.comparator("CEq")
            self.eat(")")
            return ("bool", "%s %s %s %s" % ("REqual4" if four else "REqual3", x, y, c))
        if tk == "std::memcmp":
            self.eat()
            self.eat("(")
            x = self.iterator("begin")
            self.eat(",")
            y = self.iterator("begin")
            self.eat(",")
            n = self.product_size()
            self.eat(")")
            if n != x:
                raise Unparsed("memcmp length is not the size of its first range")
            return ("mem", x, y)
        if tk == "dominating" and self.mode == "mm":
            self.eat()
            self.eat("(")
            x = self.operand_side()
            self.eat(",")
            y = self.operand_side()
            self.eat(")")
            return ("bool", "RDom %s %s" % (x, y))
        if tk in self.locals:
            self.eat()
            return self.locals[tk]
        if tk in self.side:
            s = self.side[self.eat()]
            if self.peek() == ".":
                self.eat()
                f = self.eat()
                if f == "size":
                    self.eat("(")
                    self.eat(")")
                    if self.mode == "mm":
                        raise Unparsed("size of model_measurements")
                    return ("size", s)
                if self.mode == "mm" and f == "accuracy":
                    return ("acc", s)
                if self.mode == "mm" and f == "fitness":
                    return ("side", s)
                raise Unparsed("member %r" % f)
            if self.mode == "mm":
                raise Unparsed("whole model_measurements used as a value")
            return ("side", s)
        raise Unparsed("unexpected token %r" % tk)

    def product_size(self):
        """n * sizeof(T)  /  x.size() * sizeof(T)  -> side whose size it is"""
        a = self.primary()
        self.eat("*")
        if self.eat() != "sizeof":
            raise Unparsed("sizeof")
        self.eat("(")
        self.eat()
        self.eat(")")
        if a[0] != "size":
            raise Unparsed("memcmp length")
        return a[1]

    def as_bool(self, v):
        if v[0] == "bool":
            return v[1]
        raise Unparsed("not a boolean: %r" % (v,))

    def cmp_expr(self):
        a = self.primary()
        op = self.peek()
        if op in ECMP:
            self.eat()
            b = self.primary()
            if a[0] == "side" and b[0] == "side":
                return ("bool", "RCall %s %s %s" % (RELOPS[op], a[1], b[1]))
            if a[0] == "size" and b[0] == "size" and op in ("==", "!="):
                e = "RSizeEq %s %s" % (a[1], b[1])
                return ("bool", e if op == "==" else "RNot (%s)" % e)
            if a[0] == "acc" and b[0] == "acc":
                return ("bool", "RAcc %s %s %s" % (ECMP[op], a[1], b[1]))
            if a[0] == "mem" and b == ("int", 0) and op in ("==", "!="):
                e = "RMemEq %s %s" % (a[1], a[2])
                return ("bool", e if op == "==" else "RNot (%s)" % e)
            raise Unparsed("comparison of %r and %r" % (a, b))
        return a

    def not_expr(self):
        if self.accept("!"):
            return ("bool", "RNot (%s)" % self.as_bool(self.not_expr()))
        return self.cmp_expr()

    def and_expr(self):
        e = self.not_expr()
        while self.accept("&&"):
            e = ("bool", "RAnd (%s) (%s)" % (self.as_bool(e), self.as_bool(self.not_expr())))
        return e

    def expr(self):
        e = self.and_expr()
        while self.accept("||"):
            e = ("bool", "ROr (%s) (%s)" % (self.as_bool(e), self.as_bool(self.and_expr())))
        return e

    # ---- statements of a relational operator: -> rexpr text
    def block_or_stmt(self):
        if self.accept("{"):
            r = self.stmts()
            self.eat("}")
            return r
        return self.stmt(None)

    def stmts(self):
        """sequence ending with a return on every path"""
        tk = self.peek()
        if tk == "const" or tk == "auto":
            while self.peek() in ("const", "auto", "std::size_t", "size_t"):
                self.eat()
            name = self.eat()
            if self.accept("("):
                v = self.expr()
                self.eat(")")
            else:
                self.eat("=")
                v = self.expr()
            self.eat(";")
            if v[0] != "size":
                raise Unparsed("local %s is not a size" % name)
            self.locals[name] = v
            return self.stmts()
        return self.stmt(self.stmts)

    def stmt(self, rest):
        if self.accept("return"):
            e = self.as_bool(self.expr())
            self.eat(";")
            return e
        if self.accept("if"):
            if self.accept("constexpr"):
                self.eat("(")
                cond = []
                depth = 1
                while depth:
                    tk = self.eat()
                    depth += {"(": 1, ")": -1}.get(tk, 0)
                    cond.append(tk)
                ctext = "".join(cond[:-1])
                if not re.fullmatch(r"std::(is_arithmetic_v|is_floating_point_v)<T>", ctext):
                    raise Unparsed("if constexpr (%s)" % ctext)
                then = self.block_or_stmt()        # T = double: this branch
                if self.accept("else"):
                    save_locals = dict(self.locals)
                    self.block_or_stmt()           # parsed (must be well formed), not taken
                    self.locals = save_locals
                return then
            self.eat("(")
            c = self.as_bool(self.expr())
            self.eat(")")
            then = self.block_or_stmt()
            if self.accept("else"):
                els = self.block_or_stmt()
            else:
                if rest is None:
                    raise Unparsed("if without else at the end of a body")
                els = rest()
            return "RIte (%s) (%s) (%s)" % (c, then, els)
        raise Unparsed("statement starting with %r" % self.peek())


def parse_relational(body, params, mode="fitness"):
    p = P(tokenize(body), params, mode)
    e = p.stmts()
    if p.peek() is not None:
        raise Unparsed("trailing tokens after the last return: %r" % p.peek())
    return e


# ------------------------------------------------------------- dominating
class D(P):
    def sexpr_primary(self):
        if self.accept("("):
            e = self.sexpr()
            self.eat(")")
            return e
        if self.accept("!"):
            return "SNot (%s)" % self.sexpr_primary()
        tk = self.eat()
        if tk in ("true", "false"):
            return "SConst %s" % tk
        if tk in self.side:
            self.eat(".")
            f = self.eat()
            self.eat("(")
            self.eat(")")
            if f == "size":
                return "SNonEmpty %s" % self.side[tk]
            if f == "empty":
                return "SNot (SNonEmpty %s)" % self.side[tk]
        raise Unparsed("initial value of the flag: %r" % tk)

    def sexpr_and(self):
        e = self.sexpr_primary()
        while self.accept("&&"):
            e = "SAnd (%s) (%s)" % (e, self.sexpr_primary())
        return e

    def sexpr(self):
        e = self.sexpr_and()
        while self.accept("||"):
            e = "SOr (%s) (%s)" % (e, self.sexpr_and())
        return e

    def elem(self):
        name = self.eat()
        if name not in self.side:
            raise Unparsed("element of %r" % name)
        self.eat("[")
        if self.eat() != self.index:
            raise Unparsed("index")
        self.eat("]")
        return self.side[name]

    def cond(self):
        if self.accept("!"):
            return "CNot (%s)" % self.cond()
        if self.accept("("):
            c = self.cond_or()
            self.eat(")")
            return c
        if self.peek() in ("almost_equal", "vita::almost_equal"):
            self.eat()
            self.eat("(")
            x = self.elem()
            self.eat(",")
            y = self.elem()
            self.eat(")")
            if (x, y) != ("Lhs", "Rhs"):
                raise Unparsed("almost_equal argument order")
            return "CAlmost"
        x = self.elem()
        op = self.eat()
        if op not in ECMP:
            raise Unparsed("component test %r" % op)
        y = self.elem()
        if x == y:
            raise Unparsed("component compared with itself")
        c = ECMP[op]
        return c if x == "Lhs" else FLIP[c]

    def cond_or(self):
        c = self.cond()
        if self.peek() in ("&&", "||"):
            raise Unparsed("compound component test")
        return c

    def action(self):
        if self.accept("{"):
            a = self.action()
            self.eat("}")
            return a
        if self.accept("continue"):
            self.eat(";")
            return "DContinue"
        if self.accept("return"):
            v = self.eat()
            if v not in ("true", "false"):
                raise Unparsed("return %r inside the loop" % v)
            self.eat(";")
            return "DReturn %s" % v
        if self.peek() == self.flag:
            self.eat()
            self.eat("=")
            if self.eat() != "true":
                raise Unparsed("flag assignment")
            self.eat(";")
            return "DSetBetter"
        raise Unparsed("action %r" % self.peek())

    def dstmt_seq(self, closing):
        """sequence of if-statements up to `closing` (None: exactly one statement)"""
        if closing is not None and self.peek() == closing:
            return "DNil"
        if self.peek() != "if":
            raise Unparsed("loop statement starting with %r" % self.peek())
        self.eat("if")
        self.eat("(")
        c = self.cond_or()
        self.eat(")")
        t = self.action()
        els = "DNil"
        if self.accept("else"):
            if self.peek() == "if":
                els = self.dstmt_seq(None)
            else:
                els = "DIf CTrue (%s) DNil DNil" % self.action()
        nxt = "DNil" if closing is None else self.dstmt_seq(closing)
        return "DIf (%s) (%s) (%s) (%s)" % (c, t, els, nxt)

    def parse(self):
        # bool one_better(<sexpr>);
        self.eat("bool")
        self.flag = self.eat()
        if self.accept("("):
            init = self.sexpr()
            self.eat(")")
        else:
            self.eat("=")
            init = self.sexpr()
        self.eat(";")
        # const auto n(std::min(lhs.size(), rhs.size()));
        while self.peek() in ("const", "auto", "std::size_t", "size_t"):
            self.eat()
        nname = self.eat()
        paren = self.accept("(")
        if not paren:
            self.eat("=")
        if self.accept("std::min"):
            self.eat("(")
            a = self.size_of()
            self.eat(",")
            b = self.size_of()
            self.eat(")")
            if {a, b} != {"Lhs", "Rhs"}:
                raise Unparsed("loop bound")
            bound = "BMin"
        else:
            bound = "BLhs" if self.size_of() == "Lhs" else "BRhs"
        if paren:
            self.eat(")")
        self.eat(";")
        # for (std::size_t i(0); i < n; ++i)
        self.eat("for")
        self.eat("(")
        while self.peek() in ("const", "auto", "std::size_t", "size_t", "unsigned", "int"):
            self.eat()
        self.index = self.eat()
        if self.accept("("):
            self.eat("0")
            self.eat(")")
        else:
            self.eat("=")
            self.eat("0")
        self.eat(";")
        if (self.eat(), self.eat(), self.eat()) != (self.index, "<", nname):
            raise Unparsed("loop condition")
        self.eat(";")
        inc = [self.eat(), self.eat()]
        if sorted(inc) != sorted(["++", self.index]):
            raise Unparsed("loop increment")
        self.eat(")")
        if self.accept("{"):
            body = self.dstmt_seq("}")
            self.eat("}")
        else:
            body = self.dstmt_seq(None)
        self.eat("return")
        if self.eat() != self.flag:
            raise Unparsed("final return")
        self.eat(";")
        if self.peek() is not None:
            raise Unparsed("trailing tokens")
        return init, bound, body

    def size_of(self):
        name = self.eat()
        if name not in self.side:
            raise Unparsed("size of %r" % name)
        self.eat(".")
        if self.eat() != "size":
            raise Unparsed("size")
        self.eat("(")
        self.eat(")")
        return self.side[name]


FIT_SIG = r"bool\s+operator\s*%s\s*(?=\()"
HEADER = """(* GENERATED by translate/fitness_ops.py from src/kernel/fitness.tcc and
   src/kernel/model_measurements.h -- do not edit.  How the source defines each
   relational operator of basic_fitness_t, dominating() and
   model_measurements::operator>= (types and meaning: Fitness/FitnessSrc.v). *)
From Coq Require Import List Bool.
From VV Require Import Fitness.FitnessSrc.

"""


def generate(snap):
    """returns (text, problems)"""
    problems = []
    out = {}
    try:
        with open(os.path.join(snap, "kernel", "fitness.tcc")) as f:
            tcc = strip_comments(f.read())
        with open(os.path.join(snap, "kernel", "model_measurements.h")) as f:
            mmh = strip_comments(f.read())
    except OSError as e:
        return None, ["cannot read the sources: %s" % e]
    names = [("==", "op_eq_def"), ("!=", "op_ne_def"), ("<", "op_lt_def"), (">", "op_gt_def"),
             (">=", "op_ge_def"), ("<=", "op_le_def")]
    for op, name in names:
        try:
            params, body = find_function(tcc, FIT_SIG % re.escape(op))
            if len(params) != 2:
                raise Unparsed("two parameters expected")
            out[name] = parse_relational(body, params)
        except Unparsed as e:
            problems.append("operator%s: %s" % (op, e))
    try:
        params, body = find_function(tcc, r"bool\s+dominating\s*(?=\()")
        d = D(tokenize(body), params, "fitness")
        out["dom"] = d.parse()
    except Unparsed as e:
        problems.append("dominating: %s" % e)
    try:
        params, body = find_function(mmh, r"bool\s+operator\s*>=\s*(?=\()")
        out["mm_ge_def"] = parse_relational(body, params, mode="mm")
    except Unparsed as e:
        problems.append("model_measurements::operator>=: %s" % e)
    if problems:
        return None, problems
    t = HEADER
    for _, name in names:
        t += "Definition %s : rexpr := %s.\n" % (name, out[name])
    t += """
Definition op_defs (o : relop) : rexpr :=
  match o with
  | OpLt => op_lt_def | OpEq => op_eq_def | OpGt => op_gt_def
  | OpGe => op_ge_def | OpLe => op_le_def | OpNe => op_ne_def
  end.

"""
    init, bound, body = out["dom"]
    t += "Definition dominating_def : dom_def :=\n  {| d_init := %s;\n     d_bound := %s;\n     d_body := %s |}.\n\n" % (init, bound, body)
    t += "Definition mm_ge_def : rexpr := %s.\n" % out["mm_ge_def"]
    return t, []


if __name__ == "__main__":
    import sys
    text, probs = generate(sys.argv[1] if len(sys.argv) > 1 else "/repo/src")
    print(text if text else "PROBLEMS:\n" + "\n".join(probs))
