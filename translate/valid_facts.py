"""C16 -- translator: src/kernel/gp/src/holdout_validation.cc and dss.cc ->
coq/Gen/ValidFacts.v

The model coq/Valid/ValidDefs.v does not hard-code the following facts; it
interprets what this translator reads from the text of the definitions:

  holdout_validation::init
    gen_holdout_early_return run    the `if (<cond on run>) return;` before the split (false if absent)
    gen_holdout_skip available perc the expression bound to `skip` (unsigned / size_t arithmetic made explicit)
    gen_fy_first / gen_fy_count / gen_fy_wraps
    gen_holdout_tail                the statements after the loop (clone_schema / copy tail / erase tail)
                                    first index, number of iterations and "index wraps when skip = 0" of the
                                    Fisher-Yates loop header
  weight()                          gen_weight difficulty age  (uintmax_t arithmetic)
  dss::shake                        gen_shake_skips generation gap  (the guard that returns false)
                                    gen_shake_steps   calls made when the guard does not fire
  dss::init / dss::close            gen_init_steps / gen_close_steps  (calls, with `if (cond on the argument)`)
  dss::clear_evaluators             gen_clear_steps
  dss::move_to_validation           gen_move_steps  (clone_schema / move all / clear training)
  src_search::tune_parameters       gen_tune_{dss,perc}_open user   (the test that decides "left open by the user"),
                                    gen_tune_*_dynamic_typeid (typeid of the object, not of the pointer),
                                    gen_dflt_* (environment::init)
  dss::shake_impl                   gen_shake_impl_shape  (sequence of the recognised statements)
                                    gen_ratio / gen_target_size  (binary64 expressions -> Gen/ValidTargetFacts.v,
                                    generate_target)

generate(snapshot_dir) -> (text, problems).  When something falls outside the
recognised subset, problems is non-empty and the caller keeps the checked-in
file (tie = correspondence only)."""
import os
import re


# ------------------------------------------------------------------ C++ text
def strip_comments(src):
    src = re.sub(r"/\*.*?\*/", " ", src, flags=re.S)
    src = re.sub(r"//[^\n]*", " ", src)
    return src


def body_of(src, sig_re):
    m = re.search(sig_re, src)
    if not m:
        return None
    i = src.index("{", m.end() - 1)
    depth, j = 0, i
    while j < len(src):
        if src[j] == "{":
            depth += 1
        elif src[j] == "}":
            depth -= 1
            if depth == 0:
                return src[i + 1:j]
        j += 1
    return None


def statements(body):
    """top-level statements of a body: `...;` or `head { ... }` (if/for with a block)"""
    out, depth_p, depth_b, cur = [], 0, 0, ""
    i = 0
    while i < len(body):
        c = body[i]
        cur += c
        if c == "(":
            depth_p += 1
        elif c == ")":
            depth_p -= 1
        elif c == "{":
            depth_b += 1
        elif c == "}":
            depth_b -= 1
            if depth_b == 0 and depth_p == 0:
                # a block statement ends here unless it is a lambda / initializer inside an expression
                head = cur.strip()
                if re.match(r"(if|for|while|else)\b", head):
                    out.append(head)
                    cur = ""
        elif c == ";" and depth_p == 0 and depth_b == 0:
            out.append(cur.strip()[:-1].strip())
            cur = ""
        i += 1
    if cur.strip():
        out.append(cur.strip())
    return [s for s in out if s]


def squash(s):
    return re.sub(r"\s+", "", s)


IGNORABLE = [r"^Expects\(", r"^Ensures\(", r"^assert\(", r"^vitaDEBUG<<", r"^vitaWARNING<<", r"^vitaINFO<<",
             r"^constautoavg_\w+\(average_age_difficulty\(", r"^constautogap\(\*env_\.dss\)$",
             r"^constautos\(static_cast<double>\(validation_\.size\(\)\)\)$",
             r"^constdouble\w+\(", r"^constautoweight_sum\(std::accumulate\(",
             r"^constautoperc\(\*env_\.validation_percentage\)$", r"^constautoavailable\(training_\.size\(\)\)$",
             r"^constautofrom\(std::next\(training_\.begin\(\),skip\)\)$"]


def ignorable(st):
    q = squash(st)
    if any(re.match(p, q) for p in IGNORABLE):
        return True
    m = re.match(r"if\s*\((.*?)\)\s*\{(.*)\}\s*$", st, re.S)
    if m and all(ignorable(x) for x in statements(m.group(2))):
        return True          # an `if` whose block only logs / asserts
    return False


# --------------------------------------------------- integer expressions -> Z
RANK = {"int": 0, "u32": 1, "u64": 2}
WRAP = {"int": None, "u32": "two32", "u64": "two64"}


class Outside(Exception):
    pass


class Expr:
    """recursive-descent translator of the integer / boolean expressions used by the two files"""

    def __init__(self, text, env):
        self.toks = re.findall(r"static_cast<[^>]*>|std::max<[^()]*?(?:\([^()]*\))?>|std::max|[A-Za-z_][\w.]*|\d+|==|!=|>=|<=|"
                               r"\|\||&&|[-+*/%()<>,!]", text)
        if squash("".join(self.toks)) != squash(text):
            raise Outside("cannot tokenise `%s`" % text.strip()[:80])
        self.i = 0
        self.env = env

    def peek(self):
        return self.toks[self.i] if self.i < len(self.toks) else None

    def eat(self, t=None):
        x = self.peek()
        if t is not None and x != t:
            raise Outside("expected `%s`, found `%s`" % (t, x))
        self.i += 1
        return x

    def parse(self):
        r = self.p_or()
        if self.peek() is not None:
            raise Outside("trailing `%s`" % self.peek())
        return r

    @staticmethod
    def as_bool(v):
        return v if v[1] == "bool" else ("negb (%s =? 0)" % v[0], "bool")

    def p_or(self):
        a = self.p_and()
        while self.peek() == "||":
            self.eat()
            b = self.p_and()
            a = ("(%s || %s)" % (self.as_bool(a)[0], self.as_bool(b)[0]), "bool")
        return a

    def p_and(self):
        a = self.p_cmp()
        while self.peek() == "&&":
            self.eat()
            b = self.p_cmp()
            a = ("(%s && %s)" % (self.as_bool(a)[0], self.as_bool(b)[0]), "bool")
        return a

    def p_cmp(self):
        a = self.p_add()
        if self.peek() in ("==", "!=", ">", "<", ">=", "<="):
            op = self.eat()
            b = self.p_add()
            x, y = a[0], b[0]
            s = {"==": "(%s =? %s)" % (x, y), "!=": "negb (%s =? %s)" % (x, y), ">": "(%s <? %s)" % (y, x),
                 "<": "(%s <? %s)" % (x, y), ">=": "(%s <=? %s)" % (y, x), "<=": "(%s <=? %s)" % (x, y)}[op]
            return (s, "bool")
        return a

    @staticmethod
    def arith(op, a, b):
        t = a[1] if RANK[a[1]] >= RANK[b[1]] else b[1]
        core = "(%s %s %s)" % (a[0], op, b[0])
        if op in ("+", "-", "*") and WRAP[t]:
            core = "(%s mod %s)" % (core, WRAP[t])
        return (core, t)

    def p_add(self):
        a = self.p_mul()
        while self.peek() in ("+", "-"):
            op = self.eat()
            a = self.arith(op, a, self.p_mul())
        return a

    def p_mul(self):
        a = self.p_un()
        while self.peek() in ("*", "/", "%"):
            op = self.eat()
            b = self.p_un()
            a = self.arith({"*": "*", "/": "/", "%": "mod"}[op], a, b)
        return a

    def p_un(self):
        t = self.peek()
        if t is None:
            raise Outside("unexpected end of expression")
        if t == "(":
            self.eat()
            r = self.p_or()
            self.eat(")")
            return r
        if t.startswith("static_cast<"):
            self.eat()
            ty = t[len("static_cast<"):-1].strip()
            self.eat("(")
            r = self.p_or()
            self.eat(")")
            if ty in ("std::uintmax_t", "std::size_t", "decltype(available)"):
                return (r[0], "u64")
            if ty == "unsigned":
                return (r[0], "u32")
            raise Outside("static_cast to `%s`" % ty)
        if t.startswith("std::max"):
            self.eat()
            self.eat("(")
            a = self.p_or()
            self.eat(",")
            b = self.p_or()
            self.eat(")")
            ty = "u64" if "<" in t else (a[1] if RANK[a[1]] >= RANK[b[1]] else b[1])
            return ("(Z.max %s %s)" % (a[0], b[0]), ty)
        if re.fullmatch(r"\d+", t):
            self.eat()
            return (t, "int")
        if t in self.env:
            self.eat()
            return self.env[t]
        raise Outside("unknown identifier `%s`" % t)


def tr(text, env):
    return Expr(text, env).parse()


# ------------------------------------------------------------------ the facts
def holdout_facts(src, out, problems):
    body = body_of(src, r"void\s+holdout_validation::init\s*\(\s*unsigned\s+run\s*\)")
    if body is None:
        problems.append("holdout_validation::init(unsigned run) not found")
        return
    env = {"run": ("run", "u32"), "available": ("available", "u64"), "perc": ("perc", "u32")}
    early, skip, loop = "false", None, None
    seen_tail = []
    for st in statements(body):
        q = squash(st)
        m = re.match(r"if\s*\((.*)\)\s*return$", st, re.S)
        if m and skip is None:
            early = Expr.as_bool(tr(m.group(1), env))[0]
            continue
        m = re.match(r"const\s+auto\s+skip\s*\((.*)\)$", st, re.S)
        if m:
            skip = tr(m.group(1), env)
            if skip[1] != "u64":
                raise Outside("type of skip is %s" % skip[1])
            continue
        m = re.match(r"for\s*\((.*?);(.*?);(.*?)\)\s*\{(.*)\}$", st, re.S)
        if m:
            init, cond, step, blk = [x.strip() for x in m.groups()]
            if squash(blk) != squash("auto curr(std::next(training_.begin(), i));"
                                     "auto rand(std::next(training_.begin(), random::sup(i + 1)));"
                                     "std::iter_swap(curr, rand);"):
                raise Outside("body of the Fisher-Yates loop")
            mi = re.match(r"(?:std::size_t|auto)\s+i\s*\((.*)\)$", init, re.S)
            if not mi:
                raise Outside("loop initialisation `%s`" % init)
            envz = {"available": ("available", "int")}            # index arithmetic in plain Z (see ValidDefs)
            start = tr(mi.group(1), envz)[0]
            if squash(cond) == "i>=skip" and squash(step) == "--i":
                loop = (start, "(%s - skip + 1)" % start, "true")
            elif squash(cond) == "i-->skip" and step == "":
                loop = ("(%s - 1)" % start, "(%s - skip)" % start, "false")
            else:
                raise Outside("loop header `%s; %s`" % (cond, step))
            continue
        tail_tok = {"std::copy(from,training_.end(),std::back_inserter(validation_))": "TCopyTail",
                    "training_.erase(from,training_.end())": "TEraseTail",
                    "validation_.clone_schema(training_)": "TCloneSchema"}.get(q)
        if tail_tok:
            if loop is None and tail_tok != "TCloneSchema":
                raise Outside("`%s` before the Fisher-Yates loop" % st[:60])
            seen_tail.append(tail_tok)
            continue
        if ignorable(st) and not squash(st).startswith("constdouble"):
            continue
        raise Outside("statement of holdout_validation::init: `%s`" % st[:80])
    if skip is None or loop is None:
        raise Outside("holdout_validation::init: skip / loop not found")
    out.append("Definition gen_holdout_early_return (run : Z) : bool := %s." % early)
    out.append("Definition gen_holdout_skip (available perc : Z) : Z := %s." % skip[0])
    out.append("Definition gen_fy_first (available : Z) : Z := %s." % loop[0])
    out.append("Definition gen_fy_count (available skip : Z) : Z := %s." % loop[1])
    out.append("Definition gen_fy_wraps : bool := %s." % loop[2])
    out.append("Definition gen_holdout_tail : list tail_tok := [%s]." % "; ".join(seen_tail))


STEP_CALLS = {
    "reset_age_difficulty(training_)": "GResetT",
    "reset_age_difficulty(validation_)": "GResetV",
    "shake_impl()": "GShakeImpl",
    "clear_evaluators()": "GClearBoth",
    "move_to_validation()": "GMoveToValidation",
    "eva_t_.clear()": "GClearT",
    "eva_v_.clear()": "GClearV",
    "std::for_each(training_.begin(),training_.end(),inc_age)": "GIncAgeT",
    "std::for_each(validation_.begin(),validation_.end(),inc_age)": "GIncAgeV",
}


def step_of(st, arg):
    q = squash(st)
    if q in STEP_CALLS:
        return STEP_CALLS[q]
    m = re.match(r"if\s*\((.*?)\)\s*(?:\{(.*)\}|(.*))$", st, re.S)
    if m and arg:
        inner = statements(m.group(2)) if m.group(2) is not None else [m.group(3)]
        if len(inner) == 1:
            s = step_of(inner[0], arg)
            if s:
                c = Expr.as_bool(tr(m.group(1), {arg: (arg, "u32")}))[0]
                return "(GIf (fun %s : Z => %s) %s)" % (arg, c, s)
    return None


def steps_of(body, arg, what):
    res = []
    for st in statements(body):
        if squash(st) == "constautoinc_age([](dataframe::example&e){++e.age;})":
            continue
        if squash(st) == "returntrue":
            continue
        s = step_of(st, arg)
        if s:
            res.append(s)
        elif not ignorable(st):
            raise Outside("statement of %s: `%s`" % (what, st[:80]))
    return res


SHAPE = [
    ("move_to_validation()", "SMoveAll"),
    ("autopivot(std::partition(validation_.begin(),validation_.end(),[k](constauto&e){constautop1(static_cast<double>"
     "(weight(e))*k);constautoprob(std::min(p1,1.0));returnrandom::boolean(prob)==false;}))", "SPartition"),
    ("if(pivot==validation_.begin()||pivot==validation_.end())pivot=std::next(validation_.begin(),"
     "static_cast<std::ptrdiff_t>(target_size))", "SFallback"),
    ("std::move(pivot,validation_.end(),std::back_inserter(training_))", "SMoveSelected"),
    ("validation_.erase(pivot,validation_.end())", "SEraseSelected"),
    ("reset_age_difficulty(training_)", "SResetTraining"),
]


def dss_facts(src, out, problems):
    wb = body_of(src, r"auto\s+weight\s*\(\s*const\s+dataframe::example\s*&\s*v\s*\)")
    if wb is None:
        raise Outside("weight(const dataframe::example &v) not found")
    sts = statements(wb)
    if len(sts) != 1 or not sts[0].startswith("return"):
        raise Outside("body of weight()")
    w = tr(sts[0][len("return"):], {"v.difficulty": ("difficulty", "u64"), "v.age": ("age", "u32")})
    if w[1] != "u64":
        raise Outside("type of weight() is %s" % w[1])
    out.append("Definition gen_weight (difficulty age : Z) : Z := %s." % w[0])

    mb = body_of(src, r"void\s+dss::move_to_validation\s*\(\s*\)")
    if mb is None:
        raise Outside("dss::move_to_validation not found")
    mv = []
    for st in statements(mb):
        tok = {"std::move(training_.begin(),training_.end(),std::back_inserter(validation_))": "MMoveAll",
               "training_.clear()": "MClearTraining",
               "validation_.clone_schema(training_)": "MCloneSchema"}.get(squash(st))
        if tok:
            mv.append(tok)
        elif not ignorable(st):
            raise Outside("statement of dss::move_to_validation: `%s`" % st[:80])
    out.append("Definition gen_move_steps : list move_tok := [%s]." % "; ".join(mv))

    for name, arg, sig in (("clear", None, r"void\s+dss::clear_evaluators\s*\(\s*\)"),
                           ("init", "run", r"void\s+dss::init\s*\(\s*unsigned(?:\s+(\w+))?\s*\)"),
                           ("close", "run", r"void\s+dss::close\s*\(\s*unsigned(?:\s+(\w+))?\s*\)")):
        m = re.search(sig, src)
        if not m:
            raise Outside("dss::%s not found" % name)
        a = (m.group(1) if arg and m.lastindex else None)
        body = body_of(src, sig)
        st = steps_of(body, a, "dss::" + name)
        if a and a != arg:
            st = [s.replace("fun %s " % a, "fun %s " % arg).replace(a, arg) if "GIf" in s else s for s in st]
        out.append("Definition gen_%s_steps : list gstep := [%s]." % (name, "; ".join(st)))

    m = re.search(r"bool\s+dss::shake\s*\(\s*unsigned\s+(\w+)\s*\)", src)
    if not m:
        raise Outside("dss::shake not found")
    g = m.group(1)
    body = body_of(src, r"bool\s+dss::shake\s*\(\s*unsigned\s+\w+\s*\)")
    sts = statements(body)
    guard, rest = None, []
    for st in sts:
        mm = re.match(r"if\s*\((.*?)\)\s*\{(.*)\}$", st, re.S)
        if guard is None and mm and squash(statements(mm.group(2))[-1]) == "returnfalse":
            if not all(ignorable(x) for x in statements(mm.group(2))[:-1]):
                raise Outside("block of the guard of dss::shake")
            guard = Expr.as_bool(tr(mm.group(1), {g: ("generation", "u32"), "gap": ("gap", "u32")}))[0]
            continue
        if guard is None and not ignorable(st):
            raise Outside("statement before the guard of dss::shake: `%s`" % st[:80])
        if guard is not None:
            rest.append(st)
    if guard is None:
        raise Outside("guard of dss::shake not found")
    if squash(rest[-1]) != "returntrue":
        raise Outside("dss::shake does not end with `return true`")
    out.append("Definition gen_shake_skips (generation gap : Z) : bool := %s." % guard)
    out.append("Definition gen_shake_steps : list gstep := [%s]." %
               "; ".join(steps_of("; ".join(rest) + ";", None, "dss::shake")))

    body = body_of(src, r"void\s+dss::shake_impl\s*\(\s*\)")
    if body is None:
        raise Outside("dss::shake_impl not found")
    shape = []
    for st in statements(body):
        q = squash(st)
        tok = next((t for p, t in SHAPE if p == q), None)
        if tok:
            shape.append(tok)
        elif not ignorable(st):
            raise Outside("statement of dss::shake_impl: `%s`" % st[:80])
    out.append("Definition gen_shake_impl_shape : list shape_tok := [%s]." % "; ".join(shape))


# ------------------------------------ src_search::tune_parameters (search.tcc)
def tune_facts(snap, out):
    with open(os.path.join(snap, "kernel/gp/src/search.tcc")) as f:
        src = strip_comments(f.read())
    body = body_of(src, r"void\s+src_search<T,\s*ES>::tune_parameters\s*\(\s*\)")
    if body is None:
        raise Outside("src_search::tune_parameters not found")
    with open(os.path.join(snap, "kernel/environment.cc")) as f:
        esrc = strip_comments(f.read())
    ibody = body_of(esrc, r"environment\s*&\s*environment::init\s*\(\s*\)")
    if ibody is None:
        raise Outside("environment::init not found")
    for field, cls, tag in (("dss", "dss", "dss"), ("validation_percentage", "holdout_validation", "perc")):
        m = re.search(r"if\s*\(([^;{}]*?)\)\s*env\.%s\s*=\s*dflt\.%s\s*;" % (field, field), body, re.S)
        if not m:
            raise Outside("tune_parameters: no `if (...) env.%s = dflt.%s;`" % (field, field))
        parts = [squash(x) for x in m.group(1).split("&&")]
        if len(parts) != 2:
            raise Outside("tune_parameters: guard of env.%s" % field)
        a, b = parts
        if a == "!constrained.%s.has_value()" % field:
            opened = "(user =? sentinel)"
        else:
            mm = re.fullmatch(r"!constrained\.%s\.value_or\((\d+)\)" % field, a)
            if not mm:
                raise Outside("tune_parameters: `%s`" % a)
            opened = "((if user =? sentinel then %s else user) =? 0)" % mm.group(1)
        if b == "typeid(*this->vs_)==typeid(%s)" % cls:
            dyn = "true"
        elif b == "typeid(this->vs_.get())==typeid(%s)" % cls:
            dyn = "false"            # static type of a pointer: never the class type
        else:
            raise Outside("tune_parameters: `%s`" % b)
        d = re.search(r"(?<![\w.])%s\s*=\s*(\d+)\s*;" % field, ibody)
        if not d:
            raise Outside("environment::init: default of %s" % field)
        out.append("Definition gen_tune_%s_open (user : Z) : bool := %s." % (tag, opened))
        out.append("Definition gen_tune_%s_dynamic_typeid : bool := %s." % (tag, dyn))
        out.append("Definition gen_dflt_%s : Z := %s." % (tag, d.group(1)))


HEADER = """(* GENERATED by translate/valid_facts.py from kernel/gp/src/holdout_validation.cc and
   kernel/gp/src/dss.cc -- do not edit.  Definitions only; interpreted by Valid/ValidDefs.v. *)
From Coq Require Import ZArith List Bool.
Import ListNotations.
Local Open Scope Z_scope.
Local Open Scope bool_scope.

Definition two32 : Z := 4294967296.
Definition two64 : Z := 18446744073709551616.
(* facultative<unsigned>: the empty value is numeric_limits<unsigned>::max() *)
Definition sentinel : Z := 4294967295.

(* calls made by dss::init / shake / close / clear_evaluators, in order *)
Inductive gstep :=
| GResetT | GResetV | GIncAgeT | GIncAgeV | GShakeImpl | GClearBoth | GClearT | GClearV | GMoveToValidation
| GIf (c : Z -> bool) (s : gstep).

(* statements after the Fisher-Yates loop of holdout_validation::init, and of dss::move_to_validation, in
   order; *CloneSchema (validation_.clone_schema(training_): columns and class map only) does not touch the
   examples *)
Inductive tail_tok := TCloneSchema | TCopyTail | TEraseTail.
Inductive move_tok := MCloneSchema | MMoveAll | MClearTraining.

(* recognised statements of dss::shake_impl, in order *)
Inductive shape_tok := SMoveAll | SPartition | SFallback | SMoveSelected | SEraseSelected | SResetTraining.
"""


def generate(snap):
    problems, out = [], []
    try:
        with open(os.path.join(snap, "kernel/gp/src/holdout_validation.cc")) as f:
            holdout_facts(strip_comments(f.read()), out, problems)
        with open(os.path.join(snap, "kernel/gp/src/dss.cc")) as f:
            dss_facts(strip_comments(f.read()), out, problems)
        tune_facts(snap, out)
    except Outside as e:
        problems.append("outside the translated subset: %s" % e)
    except (OSError, IndexError) as e:
        problems.append("translator: %r" % e)
    return HEADER + "\n" + "\n".join(out) + "\n", problems


# ------------------------------------------- binary64 expressions -> Base/F64
class DExpr:
    """the double expressions of dss::shake_impl (ratio, target_size): literals, variables, + - * /,
    std::min / std::max, parentheses"""

    def __init__(self, text, variables):
        self.toks = re.findall(r"std::min|std::max|\d+\.\d*(?:[eE][-+]?\d+)?|[A-Za-z_]\w*|[-+*/(),]", text)
        if squash("".join(self.toks)) != squash(text):
            raise Outside("cannot tokenise `%s`" % text.strip()[:80])
        self.i = 0
        self.vars = variables

    def peek(self):
        return self.toks[self.i] if self.i < len(self.toks) else None

    def eat(self, t=None):
        x = self.peek()
        if t is not None and x != t:
            raise Outside("expected `%s`, found `%s`" % (t, x))
        self.i += 1
        return x

    def parse(self):
        r = self.p_add()
        if self.peek() is not None:
            raise Outside("trailing `%s`" % self.peek())
        return r

    def p_add(self):
        a = self.p_mul()
        while self.peek() in ("+", "-"):
            op = self.eat()
            a = "(F64.%s %s %s)" % ("add" if op == "+" else "sub", a, self.p_mul())
        return a

    def p_mul(self):
        a = self.p_atom()
        while self.peek() in ("*", "/"):
            op = self.eat()
            a = "(F64.%s %s %s)" % ("mul" if op == "*" else "div", a, self.p_atom())
        return a

    def p_atom(self):
        import struct
        t = self.eat()
        if t == "(":
            r = self.p_add()
            self.eat(")")
            return r
        if t in ("std::min", "std::max"):
            self.eat("(")
            a = self.p_add()
            self.eat(",")
            b = self.p_add()
            self.eat(")")
            return "(%s %s %s)" % ("std_min" if t == "std::min" else "std_max", a, b)
        if t is not None and re.fullmatch(r"\d+\.\d*(?:[eE][-+]?\d+)?", t):
            return "(F64.of_bits %d)" % struct.unpack("<Q", struct.pack("<d", float(t)))[0]
        if t in self.vars:
            return t
        raise Outside("`%s` in a double expression" % t)


TARGET_HEADER = """(* GENERATED by translate/valid_facts.py from dss::shake_impl (kernel/gp/src/dss.cc) -- do not edit.
   The binary64 expressions of `ratio` and `target_size`; literals are bit patterns. *)
From Coq Require Import ZArith.
From VV Require Import Base.F64.
Local Open Scope Z_scope.

(* std::min(a, b) = (b < a) ? b : a ;  std::max(a, b) = (a < b) ? b : a *)
Definition std_min (a b : f64) : f64 := if F64.ltb b a then b else a.
Definition std_max (a b : f64) : f64 := if F64.ltb a b then b else a.
"""


def generate_target(snap):
    problems, out = [], []
    try:
        with open(os.path.join(snap, "kernel/gp/src/dss.cc")) as f:
            src = strip_comments(f.read())
        body = body_of(src, r"void\s+dss::shake_impl\s*\(\s*\)")
        if body is None:
            raise Outside("dss::shake_impl not found")
        ratio = target = None
        sdecl = cast = False
        for st in statements(body):
            q = squash(st)
            if q == "constautos(static_cast<double>(validation_.size()))":
                sdecl = True
            m = re.match(r"const\s+double\s+ratio\s*\((.*)\)$", st, re.S)
            if m:
                ratio = DExpr(m.group(1), {"s"}).parse()
            m = re.match(r"const\s+double\s+target_size\s*\((.*)\)$", st, re.S)
            if m:
                target = DExpr(m.group(1), {"s", "ratio"}).parse()
            if "static_cast<std::ptrdiff_t>(target_size)" in q:
                cast = True
        if not (sdecl and ratio and target and cast):
            raise Outside("s / ratio / target_size / the cast to ptrdiff_t not all found in dss::shake_impl")
        out.append("Definition gen_ratio (s : f64) : f64 := %s." % ratio)
        out.append("Definition gen_target_size (s ratio : f64) : f64 := %s." % target)
    except Outside as e:
        problems.append("outside the translated subset: %s" % e)
    except (OSError, IndexError) as e:
        problems.append("translator: %r" % e)
    return TARGET_HEADER + "\n" + "\n".join(out) + "\n", problems


if __name__ == "__main__":
    import sys
    t, p = generate(sys.argv[1] if len(sys.argv) > 1 else "/repo/src")
    print(t)
    print("PROBLEMS:", p, file=sys.stderr)
    t, p = generate_target(sys.argv[1] if len(sys.argv) > 1 else "/repo/src")
    print(t)
    print("PROBLEMS:", p, file=sys.stderr)
