"""C20 -- translator: src/utility/small_vector.tcc -> coq/Gen/SmallVecOps.v

Extracts, from the text of the member definitions,
  * insert_shape_gen : the early exits of insert(i, b, e) (in source order), the
    condition that selects its "simple" branch, and for each of the two
    branches the sequence of range operations with their algorithm (std::move
    / std::move_backward / vita::uninitialized_move / std::copy /
    vita::uninitialized_copy / append of a moved range / the overwrite loop),
    whether the destination is assigned, constructed or chosen by
    local_storage_used(), and the pointer expressions of the arguments.
    SmallVec/SmallVecDefs.v INTERPRETS this value (interp_rcalls): a change of
    algorithm, direction, argument or guard changes the model's behaviour.
  * method_bodies : for every member definition the normalised statement list
    (comments, assert()s and VITA_SMALL_VECTOR_LOW_MEMORY blocks removed).
    SmallVec/SmallVecModelled.v holds the text the hand-written methods were
    modelled on; Props/Properties_C20.v states that the two are equal.

generate(snapshot_dir) -> (text, problems).  When something falls outside the
recognised subset, problems is non-empty and the caller keeps the checked-in
file (tie = correspondence only)."""
import os
import re
import sys


def strip_comments(src):
    src = re.sub(r"/\*.*?\*/", " ", src, flags=re.S)
    src = re.sub(r"//[^\n]*", " ", src)
    return src


def strip_preprocessor(src):
    """drop the VITA_SMALL_VECTOR_LOW_MEMORY blocks (not compiled) and all other directives"""
    out = []
    skip = 0
    for l in src.splitlines():
        s = l.strip()
        if s.startswith("#if"):
            if skip or "VITA_SMALL_VECTOR_LOW_MEMORY" in s:
                skip += 1
            continue
        if s.startswith("#endif"):
            if skip:
                skip -= 1
            continue
        if skip:
            continue
        if s.startswith("#"):
            continue
        out.append(l)
    return "\n".join(out)


def norm(t):
    t = " ".join(t.split())
    t = re.sub(r"\(\s+", "(", t)
    t = re.sub(r"\s+\)", ")", t)
    t = re.sub(r"\s*,\s*", ", ", t)
    t = re.sub(r"\s*;\s*", "; ", t)
    return t.strip()


# ---------------------------------------------------------------- statements
class ParseError(Exception):
    pass


def match_paren(t, i, op="(", cl=")"):
    assert t[i] == op
    d = 0
    while i < len(t):
        if t[i] == op:
            d += 1
        elif t[i] == cl:
            d -= 1
            if d == 0:
                return i
        i += 1
    raise ParseError("unbalanced " + op)


def skip_ws(t, i):
    while i < len(t) and t[i].isspace():
        i += 1
    return i


def parse_stmt(t, i):
    """returns (node, next index); node = ('s', text) | ('if', cond, then, else|None)
    | ('for', header, body) | ('block', [nodes])"""
    i = skip_ws(t, i)
    if i >= len(t):
        raise ParseError("statement expected")
    m = re.match(r"(if|for|while)\s*\(", t[i:])
    if m:
        kw = m.group(1)
        j = i + m.end() - 1
        k = match_paren(t, j)
        head = norm(t[j + 1:k])
        body, n = parse_stmt(t, k + 1)
        if kw == "if":
            n2 = skip_ws(t, n)
            if re.match(r"else\b", t[n2:]):
                els, n3 = parse_stmt(t, n2 + 4)
                return ("if", head, body, els), n3
            return ("if", head, body, None), n
        return (kw, head, body), n
    if t[i] == "{":
        k = match_paren(t, i, "{", "}")
        return ("block", parse_stmts(t[i + 1:k])), k + 1
    # simple statement up to ';' at depth 0
    d = 0
    j = i
    while j < len(t):
        c = t[j]
        if c in "([{":
            d += 1
        elif c in ")]}":
            d -= 1
        elif c == ";" and d == 0:
            return ("s", norm(t[i:j])), j + 1
        j += 1
    raise ParseError("';' expected after: " + t[i:i + 40])


def parse_stmts(t):
    out = []
    i = skip_ws(t, 0)
    while i < len(t):
        node, i = parse_stmt(t, i)
        out.append(node)
        i = skip_ws(t, i)
    return out


def drop_asserts(nodes):
    out = []
    for n in nodes:
        if n[0] == "s":
            if re.match(r"assert\(", n[1]) or n[1] == "":
                continue
            out.append(n)
        elif n[0] == "if":
            th = drop_asserts([n[2]])
            el = drop_asserts([n[3]]) if n[3] else []
            out.append(("if", n[1], th[0] if th else ("block", []), el[0] if el else None))
        elif n[0] in ("for", "while"):
            b = drop_asserts([n[2]])
            out.append((n[0], n[1], b[0] if b else ("block", [])))
        else:
            out.append(("block", drop_asserts(n[1])))
    return out


def flatten(nodes, out):
    for n in nodes:
        if n[0] == "s":
            out.append(n[1] + ";")
        elif n[0] == "if":
            out.append("if (%s)" % n[1])
            flatten([n[2]], out)
            if n[3]:
                out.append("else")
                flatten([n[3]], out)
        elif n[0] in ("for", "while"):
            out.append("%s (%s)" % (n[0], n[1]))
            flatten([n[2]], out)
        else:
            out.append("{")
            flatten(n[1], out)
            out.append("}")
    return out


# ------------------------------------------------------------------ methods
def member_defs(src):
    """[(key, params, body text)] of the small_vector<T, S>:: member definitions, in source order"""
    res = []
    for m in re.finditer(r"small_vector<T,\s*S>::(~?\w+|operator=)\s*\(", src):
        name = m.group(1)
        j = m.end() - 1
        k = match_paren(src, j)
        params = norm(src[j + 1:k])
        b = skip_ws(src, k + 1)
        if src[b] != "{":
            # e.g. a return type mentioning small_vector<T,S>::iterator
            continue
        e = match_paren(src, b, "{", "}")
        res.append((name, params, src[b + 1:e]))
    # the comparison operators (free function templates)
    for m in re.finditer(r"\bbool\s+(operator(?:==|!=|<=|>=|<|>))\s*\(", src):
        j = m.end() - 1
        k = match_paren(src, j)
        b = skip_ws(src, k + 1)
        if src[b] != "{":
            continue
        e = match_paren(src, b, "{", "}")
        res.append((m.group(1), norm(src[j + 1:k]), src[b + 1:e]))
    return res


# ------------------------------------------------------------- insert shape
def parse_ptr(t, problems):
    t = t.strip()
    # left-associative + / - at depth 0
    d = 0
    for j in range(len(t) - 1, -1, -1):
        c = t[j]
        if c == ")":
            d += 1
        elif c == "(":
            d -= 1
        elif c in "+-" and d == 0 and j > 0:
            left, right = t[:j].strip(), t[j + 1:].strip()
            num = {"n": "Nn", "overwritten": "Noverwritten"}.get(right)
            if num is None:
                problems.append("insert: offset '%s' outside subset" % right)
                return "PI"
            return "(%s %s %s)" % ("PPlus" if c == "+" else "PMinus", parse_ptr(left, problems), num)
    base = {"i": "PI", "end()": "PEnd", "old_end": "POldEnd"}.get(t)
    if base is None:
        problems.append("insert: pointer '%s' outside subset" % t)
        return "PI"
    return base


def split_args(t):
    out, d, cur = [], 0, ""
    for c in t:
        if c in "(<[":
            d += 1
        elif c in ")>]":
            d -= 1
        if c == "," and d == 0:
            out.append(cur.strip())
            cur = ""
        else:
            cur += c
    if cur.strip():
        out.append(cur.strip())
    return out


CALL_RE = re.compile(r"^(std::move_backward|std::move|vita::uninitialized_move|std::copy|vita::uninitialized_copy|append)\((.*)\)$")


def range_call(text, problems):
    """(kind, wsel, args) of a simple statement that is a range operation, or None"""
    m = CALL_RE.match(text)
    if not m:
        return None
    fn, args = m.group(1), split_args(m.group(2))
    if fn == "append":
        mm = [re.match(r"^std::move_iterator<iterator>\((.*)\)$", a) for a in args]
        if len(args) != 2 or not all(mm):
            problems.append("insert: append call outside subset: " + text)
            return None
        return ("append", None, [mm[0].group(1), mm[1].group(1)])
    if len(args) != 3:
        problems.append("insert: %s with %d arguments" % (fn, len(args)))
        return None
    kind = {"std::move_backward": "bwd", "std::move": "fwd", "vita::uninitialized_move": "fwd",
            "std::copy": "copy", "vita::uninitialized_copy": "copy"}[fn]
    w = "WConstruct" if fn.startswith("vita::uninitialized") else "WAssign"
    return (kind, w, args)


def emit_call(kind, w, args, problems):
    if kind == "append":
        return "RAppendMoved %s %s" % (parse_ptr(args[0], problems), parse_ptr(args[1], problems))
    if kind in ("fwd", "bwd"):
        return "RMove %s %s %s %s %s" % ("Fwd" if kind == "fwd" else "Bwd", w, parse_ptr(args[0], problems),
                                        parse_ptr(args[1], problems), parse_ptr(args[2], problems))
    # copy of the inserted range [b, e)
    if args[0] != "b" or args[1] != "e":
        problems.append("insert: copy of a range other than [b, e): %s" % args)
    return "RCopyIn %s %s" % (w, parse_ptr(args[2], problems))


def branch_calls(nodes, problems):
    out = []
    for n in nodes:
        if n[0] == "s":
            t = n[1]
            if t in ("const auto old_end(end())", "auto overwritten(old_end - i)", "return i"):
                continue
            if t == "size_ += n":
                out.append("RSizeAdd")
                continue
            rc = range_call(t, problems)
            if rc is None:
                problems.append("insert: statement outside subset: " + t)
                continue
            out.append(emit_call(*rc, problems))
        elif n[0] == "if" and n[1] == "local_storage_used()" and n[3] is not None \
                and n[2][0] == "s" and n[3][0] == "s":
            a = range_call(n[2][1], problems)
            b = range_call(n[3][1], problems)
            if a and b and a[0] == b[0] and a[2] == b[2] and a[1] == "WAssign" and b[1] == "WConstruct":
                out.append(emit_call(a[0], "WByStorage", a[2], problems))
            else:
                problems.append("insert: local_storage_used() selection outside subset")
        elif n[0] == "for" and n[1] == "auto j(i); overwritten; --overwritten, ++j, ++b" \
                and n[2] == ("s", "*j = *b"):
            out.append("ROverwrite")
        else:
            problems.append("insert: compound statement outside subset: %s (%s)" % (n[0], n[1] if len(n) > 1 else ""))
    return out


def insert_shape(body, problems):
    nodes = drop_asserts(parse_stmts(body))
    guards = []
    cond = None
    simple = over = None
    k = 0
    seen_reserve = False
    while k < len(nodes):
        n = nodes[k]
        if n[0] == "if" and n[3] is None and n[2][0] == "s" and not seen_reserve:
            if n[1] == "i == end()" and n[2][1] == "return append(b, e)":
                guards.append("IGAppendAtEnd")
            elif n[1] == "n == 0" and n[2][1] == "return i":
                guards.append("IGReturnIfEmpty")
            else:
                problems.append("insert: early exit outside subset: if (%s) %s" % (n[1], n[2][1]))
        elif n[0] == "s" and not seen_reserve:
            if n[1] == "reserve(size() + n)":
                seen_reserve = True
            elif n[1] not in ("const auto insert_index(static_cast<size_type>(i - begin()))",
                              "const auto n(static_cast<size_type>(std::distance(b, e)))"):
                problems.append("insert: statement outside subset: " + n[1])
        elif n[0] == "s" and n[1] == "i = begin() + insert_index":
            pass
        elif n[0] == "if" and n[3] is None and n[2][0] == "block" and seen_reserve and simple is None:
            cond = "ICondTailAtLeastN" if n[1] == "i + n <= end()" else "ICondOther"
            simple = branch_calls(n[2][1], problems)
            over = branch_calls(nodes[k + 1:], problems)
            break
        else:
            problems.append("insert: statement outside subset: %s" % (n[1] if len(n) > 1 else n[0]))
        k += 1
    if simple is None:
        problems.append("insert: two-branch structure not found")
        simple, over, cond = [], [], "ICondOther"
    return guards, cond, simple, over



# ------------------------------------------------- programs of the other members
class Outside(Exception):
    """a construct outside the recognised subset"""


def tokenize_expr(t):
    toks = re.findall(r"std::max|rhs\.size\(\)|v\.size\(\)|size\(\)|capacity\(\)|n_old|[A-Za-z_]\w*|\d+|[()+*/,?:<>=!-]", t)
    if "".join(toks).replace(" ", "") != t.replace(" ", ""):
        raise Outside("expression '%s'" % t)
    return toks


class ExprParser:
    def __init__(self, text):
        self.t = tokenize_expr(text)
        self.i = 0
        self.text = text

    def peek(self):
        return self.t[self.i] if self.i < len(self.t) else None

    def take(self, x=None):
        tok = self.peek()
        if tok is None or (x is not None and tok != x):
            raise Outside("expression '%s'" % self.text)
        self.i += 1
        return tok

    def ternary(self):
        a = self.additive()
        if self.peek() == ">":
            self.take()
            b = self.additive()
            self.take("?")
            t = self.ternary()
            self.take(":")
            e = self.ternary()
            return "(EIfGt %s %s %s %s)" % (a, b, t, e)
        return a

    def additive(self):
        a = self.mult()
        while self.peek() == "+":
            self.take()
            a = "(EAdd %s %s)" % (a, self.mult())
        return a

    def mult(self):
        a = self.atom()
        while self.peek() in ("*", "/"):
            op = self.take()
            a = "(%s %s %s)" % ("EMul" if op == "*" else "EDiv", a, self.atom())
        return a

    def atom(self):
        tok = self.take()
        if tok == "(":
            a = self.ternary()
            self.take(")")
            return a
        if tok == "std::max":
            self.take("(")
            a = self.ternary()
            self.take(",")
            b = self.ternary()
            self.take(")")
            return "(EMax %s %s)" % (a, b)
        simple = {"n": "EN", "n_old": "ENOld", "size()": "ESize", "capacity()": "ECap", "S": "ECapS",
                  "rhs.size()": "ERhsSize", "v.size()": "ERhsSize"}
        if tok in simple:
            return simple[tok]
        if tok.isdigit():
            return "(EConst %s)" % tok
        raise Outside("expression '%s'" % self.text)


def parse_nexp(text):
    p = ExprParser(text)
    e = p.ternary()
    if p.peek() is not None:
        raise Outside("expression '%s'" % text)
    return e


def parse_cond(text, ctx):
    t = text.strip()
    fixed = {"local_storage_used()": "CLocal", "!local_storage_used()": "CHeap",
             "std::is_trivially_default_constructible_v<T>": "CTrivial",
             "!std::is_trivially_default_constructible_v<T>": "CNonTrivial",
             "size_ == capacity_": "(CEq ESize ECap)"}
    if t in fixed:
        return fixed[t]
    if t in ctx.get("bools", {}):
        return ctx["bools"][t]
    if t == ctx.get("saved"):
        return "CSavedLocal"
    m = re.match(r"^(.*?)\s*(<=|>=|==|<|>)\s*(.*)$", t)
    if not m or "?" in t:
        raise Outside("condition '%s'" % t)
    a, op, b = parse_nexp(m.group(1)), m.group(2), parse_nexp(m.group(3))
    return {"<=": "(CLe %s %s)" % (a, b), ">=": "(CLe %s %s)" % (b, a), "<": "(CLt %s %s)" % (a, b),
            ">": "(CLt %s %s)" % (b, a), "==": "(CEq %s %s)" % (a, b)}[op]


SEQ_PATTERNS = [
    # (list of regexes over consecutive simple statements, action builder)
    ([r"^data_ = local_storage_$", r"^size_ = (?:data_|local_storage_) \+ n$", r"^capacity_ = (?:data_|local_storage_) \+ S$"],
     lambda m: "(ASetLocal EN)"),
    ([r"^data_ = local_storage_$", r"^size_ = data_$", r"^capacity_ = data_ \+ S$"], lambda m: "(ASetLocal (EConst 0))"),
    ([r"^data_ = static_cast<T \*>\(::operator new\(n \* sizeof\(T\)\)\)$", r"^capacity_ = size_ = data_ \+ n$"],
     lambda m: "ASetHeapNew"),
    ([r"^data_ = rhs\.data_$", r"^size_ = rhs\.size_$", r"^capacity_ = rhs\.capacity_$",
      r"^rhs\.data_ = rhs\.local_storage_$", r"^rhs\.size_ = rhs\.local_storage_$",
      r"^rhs\.capacity_ = rhs\.local_storage_ \+ S$"], lambda m: "AStealRhs"),
    ([r"^data_ = new_data$", r"^capacity_ = data_ \+ n$", r"^size_ = data_ \+ n_old$"], lambda m: "AAdoptNewData"),
]

ARGX = r"(?:x|std::forward<Args>\(args\)\.\.\.)"
SIMPLE_PATTERNS = [
    (r"^const auto n\(static_cast<size_type>\(std::distance\(b, e\)\)\)$", lambda m: "ALetNVals"),
    (r"^const auto n_old\(size\(\)\)$", lambda m: "ALetNOld"),
    (r"^const auto old_size\(size\(\)\)$", lambda m: "ALetOldSize"),
    (r"^const auto n\((.*)\)$", lambda m: "(ALetN %s)" % parse_nexp(m.group(1))),
    (r"^n = (.*)$", lambda m: "(ALetN %s)" % parse_nexp(m.group(1))),
    (r"^size_ = (?:begin\(\)|data_) \+ (.*)$", lambda m: "(ASetSize %s)" % parse_nexp(m.group(1))),
    (r"^\+\+size_$", lambda m: "AIncSize"),
    (r"^size_ \+= n$", lambda m: "AAddSizeN"),
    (r"^rhs\.size_ = rhs\.data_$", lambda m: "ARhsSetSize0"),
    (r"^free_heap_memory\(\)$", lambda m: "AFreeHeap"),
    (r"^std::copy\((?:rhs|v)\.begin\(\), (?:rhs|v)\.end\(\), begin\(\)\)$", lambda m: "(AFromRhs false WAssign)"),
    (r"^std::move\((?:rhs|v)\.begin\(\), (?:rhs|v)\.end\(\), begin\(\)\)$", lambda m: "(AFromRhs true WAssign)"),
    (r"^vita::uninitialized_copy\((?:rhs|v)\.begin\(\), (?:rhs|v)\.end\(\), (?:begin\(\)|data_)\)$",
     lambda m: "(AFromRhs false WConstruct)"),
    (r"^vita::uninitialized_move\((?:rhs|v)\.begin\(\), (?:rhs|v)\.end\(\), (?:begin\(\)|data_)\)$",
     lambda m: "(AFromRhs true WConstruct)"),
    (r"^destroy_range\(begin\(\) \+ n, end\(\)\)$", lambda m: "ADestroyTail"),
    (r"^std::fill\(end\(\), begin\(\) \+ n, T\(\)\)$", lambda m: "AFillTailDefault"),
    (r"^std::fill_n\(begin\(\), n, T\(\)\)$", lambda m: "AFillNDefault"),
    (r"^std::fill_n\(begin\(\), n, x\)$", lambda m: "AFillNArg"),
    (r"^T tmp\(%s\)$" % ARGX, lambda m: "ATmpFromArg"),
    (r"^new \(size_\) T\(std::move\(tmp\)\)$", lambda m: "AConstructEndTmp"),
    (r"^\*size_ = (?:x|T\(std::forward<Args>\(args\)\.\.\.\))$", lambda m: "AAssignEndArg"),
    (r"^new \(size_\) T\(%s\)$" % ARGX, lambda m: "AConstructEndArg"),
    (r"^auto new_data\(static_cast<T \*>\(::operator new\(n \* sizeof\(T\)\)\)\)$", lambda m: "ANewData"),
    (r"^vita::uninitialized_move\(begin\(\), end\(\), new_data\)$", lambda m: "AMoveToNewData"),
    (r"^grow\(\)$", lambda m: "ACallGrow"),
    (r"^grow\(n\)$", lambda m: "ACallGrowN"),
    (r"^reserve\((.*)\)$", lambda m: "(ACallReserve %s)" % parse_nexp(m.group(1).replace("old_size", "size()"))),
    (r"^std::copy\(b, e, end\(\)\)$", lambda m: "(AWriteVals WAssign)"),
    (r"^vita::uninitialized_copy\(b, e, end\(\)\)$", lambda m: "(AWriteVals WConstruct)"),
]

FOR_PATTERNS = [
    ("auto k(size()); k < n; ++k", "new (data_ + k) T()", "AConstructUpToN"),
    ("size_type k(0); k < n; ++k", "new (data_ + k) T()", "AConstructAllDefault"),
    ("size_type k(0); k < n; ++k", "new (data_ + k) T(x)", "AConstructAllArg"),
    ("; size_ < capacity_; ++size_", "new (size_) T()", "AConstructToCap"),
]

IGNORED = [r"^return \*this$", r"^return begin\(\) \+ old_size$"]


def prog_of(nodes, ctx):
    """Coq term of type prog for a statement list"""
    if not nodes:
        return "PNil"
    n = nodes[0]
    if n[0] == "block":
        return prog_of(n[1] + nodes[1:], ctx)
    if n[0] == "s":
        t = n[1]
        if any(re.match(p, t) for p in IGNORED):
            return prog_of(nodes[1:], ctx)
        m = re.match(r"^const bool (\w+)\((.*)\)$", t)
        if m:
            name, c = m.group(1), m.group(2)
            if c == "local_storage_used()":
                ctx = dict(ctx, saved=name)
                return "(PAct ASaveLocal %s)" % prog_of(nodes[1:], ctx)
            # any other bool must be consumed by the very next statement
            if len(nodes) < 2 or nodes[1][0] != "if" or nodes[1][1] != name:
                raise Outside("bool '%s' not used at once" % name)
            ctx2 = dict(ctx, bools=dict(ctx.get("bools", {}), **{name: parse_cond(c, ctx)}))
            return prog_of(nodes[1:], ctx2)
        for pats, build in SEQ_PATTERNS:
            k = len(pats)
            if len(nodes) >= k and all(x[0] == "s" and re.match(p, x[1]) for p, x in zip(pats, nodes[:k])):
                return "(PAct %s %s)" % (build(None), prog_of(nodes[k:], ctx))
        for pat, build in SIMPLE_PATTERNS:
            m = re.match(pat, t)
            if m:
                return "(PAct %s %s)" % (build(m), prog_of(nodes[1:], ctx))
        raise Outside("statement '%s'" % t)
    if n[0] == "if":
        c = parse_cond(n[1], ctx)
        th = prog_of([n[2]], ctx)
        el = prog_of([n[3]], ctx) if n[3] else "PNil"
        return "(PIf %s %s %s %s)" % (c, th, el, prog_of(nodes[1:], ctx))
    if n[0] == "for" and n[2][0] == "s":
        for head, body, act in FOR_PATTERNS:
            if n[1] == head and n[2][1] == body:
                return "(PAct %s %s)" % (act, prog_of(nodes[1:], ctx))
    raise Outside("%s (%s)" % (n[0], n[1] if len(n) > 1 and isinstance(n[1], str) else ""))


# member definitions that become programs: (field order of mkProgs, key)
PROG_METHODS = [
    ("operator=(const small_vector &rhs)", True), ("operator=(small_vector &&rhs)", True),
    ("small_vector(small_vector &&rhs)", False), ("push_back(const T &x)", False),
    ("emplace_back(Args &&... args)", False), ("resize(size_type n)", False), ("grow(size_type n)", False),
    ("grow()", False), ("reserve(size_type n)", False), ("append(IT b, IT e)", False),
    ("small_vector(size_type n)", False), ("small_vector(size_type n, const T &x)", False)]


def progs_text(defs, problems):
    by_key = {"%s(%s)" % (name, params): body for name, params, body in defs}
    items = []
    for key, self_guard in PROG_METHODS:
        if key not in by_key:
            problems.append("member %s not found" % key)
            continue
        try:
            nodes = drop_asserts(parse_stmts(by_key[key]))
            if self_guard:
                # if (this != &rhs) { ... }  return *this;
                if not (len(nodes) == 2 and nodes[0][0] == "if" and nodes[0][1] == "this != &rhs"
                        and nodes[0][3] is None and nodes[1] == ("s", "return *this")):
                    raise Outside("self-assignment guard")
                nodes = [nodes[0][2]]
            items.append("    (* %s *)\n    %s" % (key, prog_of(nodes, {})))
        except (Outside, ParseError) as e:
            problems.append("%s: outside subset: %s" % (key, e))
    return "Definition progs_gen : progs :=\n  mkProgs\n" + "\n".join(items) + ".\n"

# ------------------------------------------------------------------- output
def coq_string(t):
    return '"' + t.replace('"', '""') + '"'


def bodies_text(defs, ident):
    lines = ["Definition %s : list (string * list string) :=" % ident, "  ["]
    items = []
    for name, params, body in defs:
        toks = flatten(drop_asserts(parse_stmts(body)), [])
        items.append("   (%s,\n    [%s])" % (coq_string("%s(%s)" % (name, params)),
                                          ";\n     ".join(coq_string(t) for t in toks)))
    lines.append(";\n".join(items))
    lines.append("  ].")
    return "\n".join(lines)


HEADER = """(* GENERATED by translate/smallvec_ops.py from src/utility/small_vector.tcc -- do not edit.
   insert_shape_gen: early exits, branch condition and range operations of insert(i, b, e);
   progs_gen: the programs (guards, range operations, field updates) of the other mutating members;
   method_bodies: the normalised statements of every member definition. *)
From Coq Require Import List String.
From VV Require Import SmallVec.SmallVecAst.
Import ListNotations.
Local Open Scope string_scope.
"""

MODELLED_HEADER = """(* C20 -- the text of the member definitions of src/utility/small_vector.tcc
   (normalised statements, see translate/smallvec_ops.py) that the hand-written
   methods of SmallVec/SmallVecDefs.v were modelled on.  Maintained by hand
   together with the model: `python3 translate/smallvec_ops.py --modelled`
   prints the current text after the model has been brought in line. *)
From Coq Require Import List String.
Import ListNotations.
Local Open Scope string_scope.
"""


def read_defs(snap):
    path = os.path.join(snap, "utility", "small_vector.tcc")
    with open(path) as f:
        src = f.read()
    src = strip_preprocessor(strip_comments(src))
    return member_defs(src)


def generate(snap):
    problems = []
    try:
        defs = read_defs(snap)
        ins = [d for d in defs if d[0] == "insert"]
        if len(ins) != 1:
            problems.append("insert: %d definitions found" % len(ins))
            return "", problems
        guards, cond, simple, over = insert_shape(ins[0][2], problems)
        text = HEADER + "\nDefinition insert_shape_gen : insert_shape :=\n  mkInsertShape\n    [%s]\n    %s\n    [%s]\n    [%s].\n\n" % (
            "; ".join(guards), cond, "; ".join(simple), "; ".join(over))
        text += progs_text(defs, problems) + "\n"
        text += bodies_text(defs, "method_bodies") + "\n"
    except (ParseError, OSError, AssertionError) as e:
        problems.append("small_vector.tcc: %s" % e)
        return "", problems
    return text, problems


def modelled(snap):
    return MODELLED_HEADER + "\n" + bodies_text(read_defs(snap), "modelled_bodies") + "\n"


if __name__ == "__main__":
    snap = "/repo/src"
    args = [a for a in sys.argv[1:] if not a.startswith("--")]
    if args:
        snap = args[0]
    if "--modelled" in sys.argv:
        sys.stdout.write(modelled(snap))
    else:
        text, problems = generate(snap)
        for p in problems:
            print("PROBLEM:", p, file=sys.stderr)
        sys.stdout.write(text)
