#!/usr/bin/env python3
"""Generate the as-built summary tables for DESIGN.md from evidence/, known_findings.json and seeded/*/meta.json."""
import glob, json, os
V = os.path.dirname(os.path.dirname(os.path.abspath(__file__)))
props = [json.loads(l) for l in open(os.path.join(V, "properties.jsonl"))]
kf = json.load(open(os.path.join(V, "known_findings.json")))["findings"]
print("| id | theorems (discharged/obligations) | axioms printed | correspondence cases (distinct non-trivial) | tie | quick wall s | fixed defects | known findings |")
print("|----|----|----|----|----|----|----|----|")
for p in props:
    pid = p["id"]
    try:
        e = json.load(open(os.path.join(V, "evidence", pid + ".json")))
    except Exception:
        print("| %s | (no evidence) |" % pid); continue
    c = e["coverage"]
    ax = sorted({a.split(".")[-1] for t in c.get("theorems", {}).values() for al in t["axioms"].values() for a in al})
    nf = len([k for k in kf if k["property"] == pid and k.get("status") == "fixed"])
    nk = [k["key"] for k in kf if k["property"] == pid and k.get("status", "known") == "known"]
    print("| %s | %d/%d | %s | %d (%d) | %s | %.0f | %d | %s |" % (pid, c["discharged"], c["obligations"], ", ".join(ax) or "none (closed)",
          c["evaluations"], c["distinct_nontrivial"], c.get("tie", ""), e["wall_s"], nf, ", ".join(nk) or "-"))
print()
print("| seeded change | breaks | needs | caught by | how reported |")
print("|----|----|----|----|----|")
for d in sorted(glob.glob(os.path.join(V, "seeded", "*"))):
    try:
        m = json.load(open(os.path.join(d, "meta.json")))
    except Exception:
        continue
    cr = m.get("check_result", {})
    how = "MISSED"
    if cr.get("caught"):
        vl = cr.get("violation_lines", [])
        how = "no-failing-input-found" if vl and all("no-failing-input-found" in v for v in vl) else "VIOLATION with concrete replay"
    also = m.get("also_caught_by", "")
    print("| %s | %s | %s | %s | %s |" % (os.path.basename(d), (m.get("summary") or m.get("breaks") or "")[:110].replace("|", "/").replace("\n", " "),
          (m.get("needs") or "")[:110].replace("|", "/").replace("\n", " "), ("./check %s quick" % m.get("property", "?")) + (("; " + also) if also else ""), how))
