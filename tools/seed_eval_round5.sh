#!/bin/sh
# usage: tools/seed_eval_round2.sh Cnn...  -- import /tmp/seed-out5/Cnn/k as seeded/Cnn-r5-k and record the check outcome
cd "$(dirname "$0")/.."
for P in "$@"; do
for d in /tmp/seed-out5/$P/*/; do
  k=$(basename $d)
  [ -f $d/patch.diff ] || continue
  mkdir -p seeded/$P-r5-$k && cp -r $d/* seeded/$P-r5-$k/
  tools/seed_record.py $P seeded/$P-r5-$k 2>&1 | grep -v WARNING
done; done
echo "eval done"
