#!/bin/sh
# usage: tools/seed_confirm.sh <seed dir with patch.diff, demo.cc, demo.txt>
# Confirms independently: the patch applies to /repo HEAD, the whole tree builds,
# the existing test suite passes, the demonstration fails with the patch and
# passes without it.  Writes confirm.json into the seed dir.
set -u
DIR=$(cd "$1" && pwd)
W=/tmp/seed-confirm-$$
git -C /repo worktree add --detach $W HEAD >/dev/null 2>&1
R="{}"
out() { python3 - "$DIR" "$@" <<'PY'
import json,sys
d=sys.argv[1]; kv=dict(a.split('=',1) for a in sys.argv[2:])
p=d+'/confirm.json'
try: j=json.load(open(p))
except Exception: j={}
j.update(kv); json.dump(j,open(p,'w'),indent=1)
PY
}
rm -f $DIR/confirm.json
if ! git -C $W apply $DIR/patch.diff; then out applies=false; git -C /repo worktree remove --force $W; exit 1; fi
out applies=true
cmake -G Ninja -S $W/src -B $W/_build -DCMAKE_BUILD_TYPE=Release >/dev/null 2>&1
if cmake --build $W/_build -j${JOBS:-10} >$W/build.log 2>&1; then out builds=true; else out builds=false; tail -5 $W/build.log; fi
ctest --test-dir $W/_build/test -j8 --timeout 900 >$W/ctest.log 2>&1
out tests="$(grep 'tests passed' $W/ctest.log | head -1)"
# demonstration with the patch
DEMO=$(ls $DIR/demo.* | grep -v demo.txt | head -1)
FL="-std=c++17 -O1 -g -DNDEBUG -I$W/src -isystem $W/src/third_party"
run_demo() { # $1 = tree root with _build
  g++ $FL -fsanitize=undefined -fno-sanitize-recover=all $DEMO $1/_build/kernel/libvita.a $1/_build/third_party/tinyxml2/libtinyxml2.a -lpthread -o $W/demo.bin >$W/demo-build.log 2>&1 || { echo "build-failed"; return; }
  timeout 600 $W/demo.bin >$W/demo.out 2>&1; echo "exit=$?"
}
case "$DEMO" in
 *.cc|*.cpp)
  out demo_with_patch="$(run_demo $W)"
  cmake --build /repo/_build -j8 --target vita >/dev/null 2>&1   # the reference library must match /repo HEAD
  FL="-std=c++17 -O1 -g -DNDEBUG -I/repo/src -isystem /repo/src/third_party"
  out demo_without_patch="$(run_demo /repo)" ;;
 *) out demo_with_patch="not a C++ demo: run by hand per demo.txt" ;;
esac
cat $DIR/confirm.json
git -C /repo worktree remove --force $W
