#!/bin/sh
# usage: tools/seed_confirm_many.sh seeded/dir...
cd "$(dirname "$0")/.."
for d in "$@"; do JOBS=6 tools/seed_confirm.sh $d > .build/confirm-$(basename $d).log 2>&1; echo "$d $(tr -d '\n' < $d/confirm.json | cut -c1-200)"; done
