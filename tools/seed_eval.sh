#!/bin/sh
# usage: tools/seed_eval.sh Cnn <dir containing patch.diff> [quick|thorough]
# Runs the check of property Cnn against a scratch worktree of /repo with the
# seeded patch applied, from a scratch worktree of the committed /verif (so
# that running builders and the registered evidence are not disturbed).
# Prints the check's output; exit status = the check's.
set -u
PID=$1; DIR=$(cd "$2" && pwd); TIER=${3:-quick}
EV=/tmp/verif-eval; RW=/tmp/repo-eval-$$
HEAD=$(git -C /verif rev-parse HEAD)
if [ "${SEED_EVAL_DIRECT:-0}" = "1" ]; then
  # evaluate from /verif itself (no builders running): faster, caches are warm
  git -C /repo worktree add --detach $RW HEAD >/dev/null 2>&1
  if ! git -C $RW apply "$DIR/patch.diff"; then echo "PATCH DOES NOT APPLY"; git -C /repo worktree remove --force $RW; exit 3; fi
  cd /verif
  VV_REPO=$RW ./check $PID $TIER 2>/verif/.build/last-seed-stderr
  RC=$?
  echo "exit=$RC"
  git -C /repo worktree remove --force $RW
  git -C /verif checkout -q -- evidence/$PID.json coq/Gen 2>/dev/null
  exit $RC
fi
if [ ! -d $EV ]; then git -C /verif worktree add --detach $EV $HEAD >/dev/null 2>&1; fi
git -C $EV clean -fdq evidence >/dev/null 2>&1; git -C $EV checkout -q -f --detach $HEAD || { echo "EVAL WORKTREE CHECKOUT FAILED"; exit 4; }
git -C /repo worktree add --detach $RW HEAD >/dev/null 2>&1
if ! git -C $RW apply "$DIR/patch.diff"; then echo "PATCH DOES NOT APPLY"; git -C /repo worktree remove --force $RW; exit 3; fi
cd $EV
VV_REPO=$RW ./check $PID $TIER 2>$EV/.last-stderr
RC=$?
echo "exit=$RC"
git -C /repo worktree remove --force $RW
exit $RC
