#!/bin/sh
# usage: tools/seed_eval_only.sh Cnn...  -- import /tmp/seed-out/Cnn/k and record the check outcome (no confirmation build)
cd "$(dirname "$0")/.."
for P in "$@"; do
for d in /tmp/seed-out/$P/*/; do
  k=$(basename $d)
  [ -f $d/patch.diff ] || continue
  mkdir -p seeded/$P-$k && cp -r $d/* seeded/$P-$k/
  tools/seed_record.py $P seeded/$P-$k 2>&1 | grep -v WARNING
done; done
echo "eval done"
