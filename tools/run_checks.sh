#!/bin/sh
# usage: tools/run_checks.sh quick C01 C03 ...   (runs against /repo itself, sequentially)
TIER=$1; shift
cd "$(dirname "$0")/.."
for p in "$@"; do
  s=$(date +%s)
  ./check $p $TIER > .build/run-$p.log 2>&1
  rc=$?
  e=$(date +%s)
  echo "$p rc=$rc $((e-s))s $(grep -c '^VIOLATION' .build/run-$p.log) violations; $(grep -c '^KNOWN-FINDING' .build/run-$p.log) known; $(tail -1 .build/run-$p.log | cut -c1-150)"
done
