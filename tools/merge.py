#!/usr/bin/env python3
"""Merge checks/*.manifest.json into MANIFEST.json and findings/*.json into
known_findings.json (orchestrator tool; not used at check time)."""
import glob
import json
import os
import subprocess
import sys

V = os.path.dirname(os.path.dirname(os.path.abspath(__file__)))
props = [json.loads(l) for l in open(os.path.join(V, "properties.jsonl"))]
m = json.load(open(os.path.join(V, "MANIFEST.json")))
frags = {}
only = set(sys.argv[1:])   # claim only these (default: every fragment present)
for f in glob.glob(os.path.join(V, "checks", "*.manifest.json")):
    d = json.load(open(f))
    if not only or d["property_id"] in only:
        frags[d["property_id"]] = d
old_na = {e["property_id"]: e["reason"] for e in m.get("not_applicable", [])}
m["checks"] = []
m["not_applicable"] = []
served = []
for p in props:
    pid = p["id"]
    if pid in frags and os.path.exists(os.path.join(V, "checks", pid.lower() + ".py")):
        c = {"property_id": pid, "quick_cmd": "./check %s quick" % pid, "thorough_cmd": "./check %s thorough" % pid,
             "evidence_file": "evidence/%s.json" % pid, "replay_cmd_template": "./check %s quick --replay {path}" % pid,
             "engine": "vv"}
        c.update({k: v for k, v in frags[pid].items() if k in ("level_claimed", "level_note", "technique")})
        m["checks"].append(c)
        served.append(pid)
    else:
        m["not_applicable"].append({"property_id": pid, "reason": old_na.get(pid, "not yet built (planned, DESIGN.md section 5); not a claim that the technique cannot apply")})
m["engines"][0]["serves_properties"] = served
hooks = subprocess.run(["git", "-C", "/repo", "log", "--format=%h %s"], capture_output=True, text=True).stdout.splitlines()
m["hooks"]["source_commits"] = [l.split()[0] for l in hooks if "verif hook" in l]
json.dump(m, open(os.path.join(V, "MANIFEST.json"), "w"), indent=1)

kf = json.load(open(os.path.join(V, "known_findings.json")))
for f in sorted(glob.glob(os.path.join(V, "findings", "*.json"))):
    if only and os.path.basename(f)[:-5] not in only:
        continue
    for e in json.load(open(f)).get("findings", []):
        if not any(o.get("property") == e.get("property") and o.get("key") == e.get("key") for o in kf["findings"]):
            kf["findings"].append(e)
log = subprocess.run(["git", "-C", "/repo", "log", "--format=%h\t%s"], capture_output=True, text=True).stdout.splitlines()
for e in kf["findings"]:
    if e.get("status") == "fixed":
        c = e.get("commit", "")
        hit = next((l.split("\t")[0] for l in log if c and (l.split("\t")[0] == c[:7] or l.split("\t")[1].startswith(c[:60]))), None)
        if hit:
            e["repo_commit"] = hit
        else:
            e["repo_commit"] = "NOT FOUND IN /repo"
json.dump(kf, open(os.path.join(V, "known_findings.json"), "w"), indent=1)
print("claimed:", served)
