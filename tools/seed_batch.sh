#!/bin/sh
# usage: tools/seed_batch.sh Cnn   -- imports /tmp/seed-out/Cnn/k into seeded/Cnn-k, evaluates and confirms each
P=$1
cd "$(dirname "$0")/.."
for d in /tmp/seed-out/$P/*/; do
  k=$(basename $d)
  mkdir -p seeded/$P-$k && cp -r $d/* seeded/$P-$k/
  tools/seed_record.py $P seeded/$P-$k 2>&1 | grep -v WARNING
done
for d in /tmp/seed-out/$P/*/; do
  k=$(basename $d)
  JOBS=8 tools/seed_confirm.sh seeded/$P-$k > .build/confirm-$P-$k.log 2>&1
  tools/seed_record.py $P seeded/$P-$k >/dev/null 2>&1   # re-record to merge confirm.json (cheap: caches warm)
done
echo "batch $P done"
