#!/usr/bin/env python3
"""usage: tools/seed_record.py Cnn seeded/<dir> [quick|thorough]
Runs tools/seed_eval.sh on the seeded patch and records the outcome in
<dir>/meta.json (fields check_result / caught / violation_lines / what_we_ran)."""
import json, os, subprocess, sys
pid, d = sys.argv[1], sys.argv[2].rstrip("/")
tier = sys.argv[3] if len(sys.argv) > 3 else "quick"
V = os.path.dirname(os.path.dirname(os.path.abspath(__file__)))
p = subprocess.run([os.path.join(V, "tools/seed_eval.sh"), pid, d, tier], capture_output=True, text=True)
out = [l for l in p.stdout.splitlines() if not l.startswith("WARNING")]
viol = [l for l in out if l.startswith("VIOLATION")]
mp = os.path.join(d, "meta.json")
if any("PATCH DOES NOT APPLY" in l or "EVAL WORKTREE CHECKOUT FAILED" in l for l in out):
    try:
        m0 = json.load(open(mp))
    except Exception:
        m0 = {}
    m0["regression_note"] = "the patch no longer applies to /repo HEAD (later fix: commits touched the same lines); last recorded outcome kept"
    json.dump(m0, open(mp, "w"), indent=1)
    print(d, "patch no longer applies; outcome kept")
    sys.exit(0)
try:
    m = json.load(open(mp))
except Exception:
    m = {}
m["property"] = pid
m["breaks"] = m.get("summary", m.get("breaks", ""))
cf = os.path.join(d, "confirm.json")
if os.path.exists(cf):
    m["confirmed_by_orchestrator"] = json.load(open(cf))
m["what_we_ran"] = ["tools/seed_confirm.sh %s  (scratch worktree: apply, full cmake build, ctest, demo with/without patch)" % d,
                    "tools/seed_eval.sh %s %s %s  (check run against a scratch worktree of /repo with the patch applied)" % (pid, d, tier)]
prev = m.get("check_result")
if prev and "first_result" not in m and (not prev.get("caught") or all("no-failing-input-found" in v for v in prev.get("violation_lines", ["x"]))):
    m["first_result"] = {"caught": prev.get("caught"), "violation_lines": prev.get("violation_lines"),
                         "note": "outcome with the check as first built; the check was then strengthened (see DESIGN.md 10.4)"}
m["check_result"] = {"tier": tier, "exit": p.returncode, "caught": bool(viol) and p.returncode == 1,
                     "violation_lines": [l.replace("/tmp/verif-eval", "/verif") for l in viol],
                     "summary_line": next((l for l in out if l.startswith("[" + pid)), "")}
json.dump(m, open(mp, "w"), indent=1)
print(d, "caught" if m["check_result"]["caught"] else "MISSED", viol[:2])
