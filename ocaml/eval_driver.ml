(* Model driver for the evaluators (C05).
   input : <kind> <classes> <nrows> { <x1> <x2> <target> <difficulty> <out> <tag> }*
             kind: mae rmae mse count [.fast | .pinned]  binary dynslot gaussian
             tag : <label>:<hex sureness>  or  -
           ga <hex>
           con <hexpenalty> <hexvalue>
   output: fit=<hex,...> diff=<dec,...> [tags=<label>:<hex>,...]
           THROW diff=<dec,...>   (std::bad_variant_access; dataset as left)
           UNDEFINED              (the C++ indexes out of bounds / converts NaN)
   dyn_slot / gaussian build the classifier themselves (model of C08) with
   glibc's atan / exp; the <tag> column is ignored.                        *)
let f64_of_hex h = F64.of_bits (z_of_hex h)
let hex_of_f64 f = hex_of_z (F64.to_bits f)

let float_of_f64 f = Int64.float_of_bits (int64_bits_of_z (F64.to_bits f))
let f64_of_float x = F64.of_bits (z_of_int64_bits (Int64.bits_of_float x))
let lift1 g = fun f -> f64_of_float (g (float_of_f64 f))
let m_atan = lift1 atan
let m_exp = lift1 exp

let parse_pout (t : string) : pout =
  if t = "v" then PVoid
  else
    let p = String.sub t 2 (String.length t - 2) in
    match t.[0] with
    | 'i' -> PInt (z_of_int (int_of_string p))
    | 'd' -> PDouble (f64_of_hex p)
    | 's' ->
        (* s:<hex bytes>[:<what std::stod answers: hex64 | T (throws)>] *)
        (match String.split_on_char ':' p with
         | [b] | [b; "T"] ->
             PString (List.init (String.length b / 2) (fun i -> z_of_int (int_of_string ("0x" ^ String.sub b (2 * i) 2))), None)
         | [b; c] ->
             PString (List.init (String.length b / 2) (fun i -> z_of_int (int_of_string ("0x" ^ String.sub b (2 * i) 2))),
                      Some (f64_of_hex c))
         | _ -> failwith "string value")
    | _ -> failwith "value"

let rec n_of_z (x : z) : n = match x with Z0 -> N0 | Zpos p -> Npos p | Zneg _ -> failwith "n_of_z"
let z_of_n (x : n) : z = match x with N0 -> Z0 | Npos p -> Zpos p
(* decimal strings up to 2^64: go through hex *)
let n_of_dec (s : string) : n = n_of_z (z_of_hex (Printf.sprintf "%Lx" (Int64.of_string ("0u" ^ s))))
let dec_of_n (x : n) : string = Printf.sprintf "%Lu" (Int64.of_string ("0x" ^ hex_of_z (z_of_n x)))

let show_fit f = "fit=" ^ String.concat "," (List.map hex_of_f64 f)
let show_diff (d : example list) = "diff=" ^ String.concat "," (List.map (fun e -> dec_of_n e.ex_diff) d)

let rec chunks6 = function
  | a :: b :: c :: d :: e :: f :: r -> (a, b, c, d, e, f) :: chunks6 r
  | [] -> []
  | _ -> failwith "row"

let () =
  try
    while true do
      let line = input_line stdin in
      (try
        match split_ws line with
        | "tdist" :: ids ->
            let fs = test_distinct_run (fun a b -> a = b) [] (List.map int_of_string ids) in
            print_endline ("fit=" ^ String.concat "|" (List.map (fun f -> String.concat "," (List.map hex_of_f64 f)) fs))
        | ["tfixed"; _] -> print_endline (show_fit (test_fixed 0))
        | ["ga"; h] -> print_endline (show_fit (ga_eval (f64_of_hex h)))
        | ["con"; p; v] -> print_endline (show_fit (constrained_eval (f64_of_hex p) (ga_eval (f64_of_hex v))))
        | kind :: classes :: _n :: rest ->
            let rows = chunks6 rest in
            let key (i : pout list) = String.concat " " (List.map (function
              | PVoid -> "v" | PInt z -> "i:" ^ dec_of_z z | PDouble f -> "d:" ^ hex_of_f64 f
              | PString (b, _) -> "s:" ^ String.concat "" (List.map (fun c -> Printf.sprintf "%02x" (int_of_z c)) b)) i) in
            let tbl = Hashtbl.create 16 in
            let mtbl : (int * string, pout) Hashtbl.t = Hashtbl.create 16 in     (* (member, inputs) -> output *)
            let nmembers = ref 0 in
            let ttbl = Hashtbl.create 16 in
            let exs = List.map (fun (x1, x2, t, d, o, tg) ->
              let inp = [parse_pout x1; parse_pout x2] in
              (* a team: the <out> column holds the members' outputs m1/m2/...; the
                 team's output is the running mean of the defined ones *)
              let ov = if String.contains o '/' then begin
                           let ms = List.map parse_pout (String.split_on_char '/' o) in
                           List.iteri (fun k m -> Hashtbl.replace mtbl (k, key inp) m) ms;
                           nmembers := List.length ms;
                           team_out ms end
                       else parse_pout o in
              Hashtbl.replace tbl (key inp) ov;
              (if tg <> "-" then
                 match String.split_on_char ':' tg with
                 | [l; s] -> Hashtbl.replace ttbl (key inp) (z_of_int (int_of_string l), f64_of_hex s)
                 | _ -> failwith "tag");
              { ex_in = inp; ex_out = parse_pout t; ex_diff = n_of_dec d; ex_age = N0 }) rows in
            let out i = Hashtbl.find tbl (key i) in
            let tag i = Hashtbl.find ttbl (key i) in
            let pr (d, f) = print_endline (show_fit f ^ " " ^ show_diff d) in
            (* operator() / fast() with the exception path of lexical_cast (std::stod) *)
            let prx errf step =
              match sum_of_errors_impl_x (err_throws out) errf (nat_of_int step) exs with
              | (d, Some f) -> pr (d, f)
              | (d, None) -> print_endline ("THROW " ^ show_diff d) in
            let show_tags = function
              | None -> ""
              | Some l -> " tags=" ^ String.concat "," (List.map (fun (lab, su) -> dec_of_z lab ^ ":" ^ hex_of_f64 su) l) in
            let pro tags = function
              | Done (d, f) -> print_endline (show_fit f ^ " " ^ show_diff d ^ show_tags tags)
              | Thrown d -> print_endline ("THROW " ^ show_diff d)
              | Undefined -> print_endline "UNDEFINED" in
            let ncls = nat_of_int (int_of_string classes) in
            let mouts = List.init !nmembers (fun k -> fun i -> Hashtbl.find mtbl (k, key i)) in
            let prt (o, tags) = pro tags o in
            (match kind with
             | "binary" when !nmembers > 0 -> prt (binary_eval_team mouts exs)
             | "dynslot" when !nmembers > 0 -> prt (dyn_slot_eval_team m_atan mouts ncls (nat_of_int 10) exs)
             | "gaussian" when !nmembers > 0 -> prt (gaussian_eval_team m_exp mouts ncls exs)
             | "mae" -> prx (mae_err out) 1
             | "mse" -> prx (mse_err out) 1
             | "rmae" -> prx (rmae_err out) 1
             | "count" -> prx (count_err out) 1
             | "mae.fast" -> prx (mae_err out) 5
             | "mse.fast" -> prx (mse_err out) 5
             | "rmae.fast" -> prx (rmae_err out) 5
             | "count.fast" -> prx (count_err out) 5
             | "mae.pinned" -> pr (soe_eval_pinned (mae_err out) exs)
             | "mse.pinned" -> pr (soe_eval_pinned (mse_err out) exs)
             | "rmae.pinned" -> pr (soe_eval_pinned (rmae_err_pinned out) exs)
             | "count.pinned" -> pr (soe_eval_pinned (count_err out) exs)
             | "binary" -> pro (Some (List.map (fun e -> binary_tag out e.ex_in) exs)) (binary_eval_real out exs)
             | "dynslot" -> pro (dyn_tags_real m_atan out ncls (nat_of_int 10) exs)
                                (dyn_slot_eval_real m_atan out ncls (nat_of_int 10) exs)
             | "gaussian" -> pro (gauss_tags_real m_exp out ncls exs) (gaussian_eval_real m_exp out ncls exs)
             | _ -> print_endline "UNKNOWN")
        | _ -> print_endline "BADLINE"
      with Not_found -> print_endline "NOORACLE" | Failure m -> print_endline ("BADLINE " ^ m))
    done
  with End_of_file -> ()
