(* Model driver for the vector individuals (C17).  Ints are decimal, doubles 16
   hex digits (bit patterns).  A case line is the harness' case followed by
   " | " and the draws the real run logged through hook H1:
      i:<lo>:<hi>:<v>   r:<lo>:<hi>:<v>   b:<p>:<0|1>
   commands (the leading <seed> is used by the harness only):
     gacreate <seed> <n> lo hi ...
     gamut    <seed> <pgm> <n> lo hi ... <age> g...
     gacross  <seed> <n> <agel> l... <ager> r...
     decreate <seed> <n> lo hi ...
     decross  <seed> <p> <flo> <fhi> <n> <aget> t... <agea> a... <ageb> b... <agec> c...
     decrossa <seed> <alias> <p> ...   the same with aliased operands: <alias> = 4 digits for target, a, b, c; equal digits = one object
     gaacc <seed> <n> <age> g... <i> <v>          accessors: size empty x[i] | x[i]=v -> genome | inc_age | ==
     deacc <seed> <n> <age> g... <i> <v> <m> w...  the same for i_de, then operator=(vector w of length m)
   When the part after "|" is the word SEED the operators are run FROM THE SEED of the case line (vita::random::seed)
   through the modelled engine and libstdc++ distributions; the output then ends with "| <the draws the model made>".
   output:  g <genes> age <a> [n <changed>] [cuts c1 c2 | F <hex>] rest <unconsumed draws>   or  NONE *)
let f64_of_hex h = F64.of_bits (z_of_hex h)
let hex_of_f64 f = if F64.is_nan f then "7ff8000000000000" else hex_of_z (F64.to_bits f)
let zi s = z_of_int (int_of_string s)
let parse_draw (t : string) : draw =
  match String.split_on_char ':' t with
  | ["i"; lo; hi; v] -> DInt (zi lo, zi hi, zi v)
  | ["r"; lo; hi; v] -> DReal (f64_of_hex lo, f64_of_hex hi, f64_of_hex v)
  | ["b"; p; v] -> DBool (f64_of_hex p, v = "1")
  | _ -> failwith ("draw " ^ t)
let rec take n l = if n = 0 then ([], l) else match l with x :: r -> let (a, b) = take (n - 1) r in (x :: a, b) | [] -> failwith "short line"
let rec pairs f = function a :: b :: r -> (f a, f b) :: pairs f r | [] -> [] | _ -> failwith "odd"
let show_ints l = String.concat " " (List.map dec_of_z l)
let show_f64s l = String.concat " " (List.map hex_of_f64 l)
let nrest ds = string_of_int (List.length ds)
(* decrossa <seed> <alias pattern> ... is decross with some of the four operands being the SAME C++ object; for the model
   that only means equal vectors in those roles, which the case line already spells out *)
let case_words (case : string) : string list =
  match split_ws case with
  | "decrossa" :: seed :: _alias :: rest -> "decross" :: seed :: rest
  | w -> w
let show_draw = function
  | DInt (lo, hi, v) -> "i:" ^ dec_of_z lo ^ ":" ^ dec_of_z hi ^ ":" ^ dec_of_z v
  | DReal (lo, hi, v) -> "r:" ^ hex_of_f64 lo ^ ":" ^ hex_of_f64 hi ^ ":" ^ hex_of_f64 v
  | DBool (p, b) -> "b:" ^ hex_of_f64 p ^ ":" ^ (if b then "1" else "0")
let show_trace tr = String.concat " " (List.map show_draw tr)
let fuel = nat_of_int 1000
let seed_state s = random_seed zero_state (Z.to_N (z_of_int (int_of_string s)))

let () =
  try
    while true do
      let line = input_line stdin in
      let (case, draws) =
        match String.index_opt line '|' with
        | Some i -> (String.sub line 0 i, String.sub line (i + 1) (String.length line - i - 1))
        | None -> (line, "") in
      let seeded = (String.trim draws = "SEED") in
      let ds = if seeded then [] else List.map parse_draw (split_ws draws) in
      (try
        if seeded then
        (match case_words case with
         | "gacreate" :: seed :: n :: rest ->
             let (rg, _) = take (2 * int_of_string n) rest in
             (match sga_create fuel (pairs zi rg) (seed_state seed) with
              | Some ((x, _), tr) -> print_endline ("g " ^ show_ints x.ga_genome ^ " age " ^ dec_of_z x.ga_age ^ " rest 0 | " ^ show_trace tr)
              | None -> print_endline "NONE")
         | "gamut" :: seed :: pgm :: n :: rest ->
             let n = int_of_string n in
             let (rg, rest) = take (2 * n) rest in
             let (age, rest) = (List.hd rest, List.tl rest) in
             let (g, _) = take n rest in
             (match sga_mutation fuel (f64_of_hex pgm) (pairs zi rg) { ga_genome = List.map zi g; ga_age = zi age } (seed_state seed) with
              | Some (((x, k), _), tr) ->
                  print_endline ("g " ^ show_ints x.ga_genome ^ " age " ^ dec_of_z x.ga_age ^ " n " ^ dec_of_z k ^ " rest 0 | " ^ show_trace tr)
              | None -> print_endline "NONE")
         | "gacross" :: seed :: n :: rest ->
             let n = int_of_string n in
             let (agel, rest) = (List.hd rest, List.tl rest) in
             let (l, rest) = take n rest in
             let (ager, rest) = (List.hd rest, List.tl rest) in
             let (r, _) = take n rest in
             let lhs = { ga_genome = List.map zi l; ga_age = zi agel } in
             let rhs = { ga_genome = List.map zi r; ga_age = zi ager } in
             (match sga_crossover fuel lhs rhs (seed_state seed) with
              | Some ((x, _), tr) -> print_endline ("g " ^ show_ints x.ga_genome ^ " age " ^ dec_of_z x.ga_age ^ " rest 0 | " ^ show_trace tr)
              | None -> print_endline "NONE")
         | "decreate" :: seed :: n :: rest ->
             let (rg, _) = take (2 * int_of_string n) rest in
             (match sde_create fuel (pairs f64_of_hex rg) (seed_state seed) with
              | Some ((x, _), tr) -> print_endline ("g " ^ show_f64s x.de_genome ^ " age " ^ dec_of_z x.de_age ^ " rest 0 | " ^ show_trace tr)
              | None -> print_endline "NONE")
         | "decross" :: seed :: p :: flo :: fhi :: n :: rest ->
             let n = int_of_string n in
             let ind rest =
               let (age, rest) = (List.hd rest, List.tl rest) in
               let (g, rest) = take n rest in
               ({ de_genome = List.map f64_of_hex g; de_age = zi age }, rest) in
             let (t, rest) = ind rest in
             let (a, rest) = ind rest in
             let (b, rest) = ind rest in
             let (c, _) = ind rest in
             (match sde_crossover (f64_of_hex p) (f64_of_hex flo) (f64_of_hex fhi) t a b c (seed_state seed) with
              | Some ((x, _), tr) -> print_endline ("g " ^ show_f64s x.de_genome ^ " age " ^ dec_of_z x.de_age ^ " rest 0 | " ^ show_trace tr)
              | None -> print_endline "NONE")
         | _ -> print_endline "BADLINE")
        else
        (match case_words case with
         | "gacreate" :: _ :: n :: rest ->
             let (rg, _) = take (2 * int_of_string n) rest in
             (match ga_create (pairs zi rg) ds with
              | Some (x, ds') -> print_endline ("g " ^ show_ints x.ga_genome ^ " age " ^ dec_of_z x.ga_age ^ " rest " ^ nrest ds')
              | None -> print_endline "NONE")
         | "gamut" :: _ :: pgm :: n :: rest ->
             let n = int_of_string n in
             let (rg, rest) = take (2 * n) rest in
             let (age, rest) = (List.hd rest, List.tl rest) in
             let (g, _) = take n rest in
             (match ga_mutation (f64_of_hex pgm) (pairs zi rg) { ga_genome = List.map zi g; ga_age = zi age } ds with
              | Some ((x, k), ds') ->
                  print_endline ("g " ^ show_ints x.ga_genome ^ " age " ^ dec_of_z x.ga_age ^ " n " ^ dec_of_z k ^ " rest " ^ nrest ds')
              | None -> print_endline "NONE")
         | "gacross" :: _ :: n :: rest ->
             let n = int_of_string n in
             let (agel, rest) = (List.hd rest, List.tl rest) in
             let (l, rest) = take n rest in
             let (ager, rest) = (List.hd rest, List.tl rest) in
             let (r, _) = take n rest in
             let lhs = { ga_genome = List.map zi l; ga_age = zi agel } in
             let rhs = { ga_genome = List.map zi r; ga_age = zi ager } in
             (match ga_crossover lhs rhs ds, ga_cuts lhs ds with
              | Some (x, ds'), Some (c1, c2) ->
                  print_endline ("g " ^ show_ints x.ga_genome ^ " age " ^ dec_of_z x.ga_age ^ " cuts " ^ dec_of_z c1 ^ " " ^ dec_of_z c2
                                 ^ " rest " ^ nrest ds')
              | _ -> print_endline "NONE")
         | "decreate" :: _ :: n :: rest ->
             let (rg, _) = take (2 * int_of_string n) rest in
             (match de_create (pairs f64_of_hex rg) ds with
              | Some (x, ds') -> print_endline ("g " ^ show_f64s x.de_genome ^ " age " ^ dec_of_z x.de_age ^ " rest " ^ nrest ds')
              | None -> print_endline "NONE")
         | "gaacc" :: _ :: n :: age :: rest ->
             let n = int_of_string n in
             let (g, rest) = take n rest in
             let (i, v) = (match rest with i :: v :: _ -> (int_of_string i, zi v) | _ -> failwith "gaacc") in
             let x = { ga_genome = List.map zi g; ga_age = zi age } in
             let rd = (match ga_get x (nat_of_int i) with Some z -> dec_of_z z | None -> "OOB") in
             let wr = (match ga_set x (nat_of_int i) v with
                       | Some y -> "g " ^ show_ints y.ga_genome ^ " age " ^ dec_of_z y.ga_age ^ " eq " ^ (if ga_eqb x y then "1" else "0")
                       | None -> "OOB") in
             print_endline ("size " ^ dec_of_z (ga_size x) ^ " empty " ^ (if ga_empty x then "1" else "0") ^ " get " ^ rd
                            ^ " set " ^ wr ^ " incage " ^ dec_of_z (ga_inc_age x).ga_age ^ " self " ^ (if ga_eqb x x then "1" else "0"))
         | "deacc" :: _ :: n :: age :: rest ->
             let n = int_of_string n in
             let (g, rest) = take n rest in
             let (i, v, rest) = (match rest with i :: v :: r -> (int_of_string i, f64_of_hex v, r) | _ -> failwith "deacc") in
             let (m, rest) = (int_of_string (List.hd rest), List.tl rest) in
             let (w, _) = take m rest in
             let x = { de_genome = List.map f64_of_hex g; de_age = zi age } in
             let rd = (match de_get x (nat_of_int i) with Some z -> hex_of_f64 z | None -> "OOB") in
             let wr = (match de_set x (nat_of_int i) v with
                       | Some y -> "g " ^ show_f64s y.de_genome ^ " age " ^ dec_of_z y.de_age ^ " eq " ^ (if de_eqb x y then "1" else "0")
                       | None -> "OOB") in
             let asg = (match de_assign x (List.map f64_of_hex w) with
                        | Some y -> "g " ^ show_f64s y.de_genome ^ " age " ^ dec_of_z y.de_age ^ " eq " ^ (if de_eqb x y then "1" else "0")
                        | None -> "SIZE") in
             print_endline ("size " ^ dec_of_z (de_size x) ^ " get " ^ rd ^ " set " ^ wr ^ " assign " ^ asg
                            ^ " incage " ^ dec_of_z (de_inc_age x).de_age ^ " self " ^ (if de_eqb x x then "1" else "0"))
         | "decross" :: _ :: p :: flo :: fhi :: n :: rest ->
             let n = int_of_string n in
             let ind rest =
               let (age, rest) = (List.hd rest, List.tl rest) in
               let (g, rest) = take n rest in
               ({ de_genome = List.map f64_of_hex g; de_age = zi age }, rest) in
             let (t, rest) = ind rest in
             let (a, rest) = ind rest in
             let (b, rest) = ind rest in
             let (c, _) = ind rest in
             (match de_crossover (f64_of_hex p) (f64_of_hex flo) (f64_of_hex fhi) t a b c ds,
                    de_factor (f64_of_hex flo) (f64_of_hex fhi) ds with
              | Some (x, ds'), Some f ->
                  print_endline ("g " ^ show_f64s x.de_genome ^ " age " ^ dec_of_z x.de_age ^ " F " ^ hex_of_f64 f ^ " rest " ^ nrest ds')
              | _ -> print_endline "NONE")
         | _ -> print_endline "BADLINE")
      with Failure m -> print_endline ("BADLINE " ^ m))
    done
  with End_of_file -> ()
