(* Model driver for C02.
   input : <case line> @@ <harness output line>          (see harness/h_mep.cc)
   output: one record per operation, joined by " ; ":
             <model dump | NONE> # <model count> # <unconsumed draws> # <oracle flags on the IMPLEMENTATION's output>
   The model replays every operation from the draws the real code logged; the
   oracle flags are the extracted boolean predicates of the theorems evaluated
   on the implementation's individuals. *)
let ten = z_of_int 10
let z_of_dec_big (s : string) : z =
  let neg = String.length s > 0 && s.[0] = '-' in
  let body = if neg then String.sub s 1 (String.length s - 1) else s in
  let v =
    if String.length body <= 17 then z_of_int (int_of_string body)
    else begin
      let acc = ref Z0 in
      String.iter (fun c -> acc := Z.add (Z.mul !acc ten) (z_of_int (Char.code c - 48))) body;
      !acc
    end in
  if neg then Z.opp v else v

let n_of_int (k : int) : n = if k = 0 then N0 else Npos (pos_of_int k)
let int_of_n (x : n) : int = match x with N0 -> 0 | Npos p -> int_of_pos p
let f64_of_hex h = F64.of_bits (z_of_hex h)
let hex_of_f64 f = hex_of_z (F64.to_bits f)

let split_on (sep : string) (s : string) : string list =
  Str.split_delim (Str.regexp_string sep) s

(* ---- symbols *)
let mk_sym id cat argcats par =
  { s_opcode = z_of_int id; s_cat = nat_of_int cat; s_argcats = List.map nat_of_int argcats;
    s_parametric = par; s_strat = Ret Stuck }

(* ---- genomes backed by arrays *)
let genome_of_array (r : int) (c : int) (arr : gene option array array) (b : locus) : genome =
  { rows = nat_of_int r; cats = nat_of_int c;
    cell = (fun i j -> let i = int_of_nat i and j = int_of_nat j in
                       if i < r && j < c then arr.(i).(j) else None);
    best = b }
let normalise (g : genome) : genome =
  let r = int_of_nat g.rows and c = int_of_nat g.cats in
  let arr = Array.init r (fun i -> Array.init c (fun j -> g.cell (nat_of_int i) (nat_of_int j))) in
  genome_of_array r c arr g.best
let norm_ind (i : ind) : ind = { i with i_gen = normalise i.i_gen }

let parse_cell (syms : sym array) (t : string) : gene option =
  if t = "-" || t = "?" then None
  else
    match String.split_on_char ',' t with
    | [] -> None
    | hd :: args ->
        let id, par =
          match String.split_on_char '/' hd with
          | [i; p] -> int_of_string i, f64_of_hex p
          | _ -> int_of_string hd, F64.of_bits Z0 in
        Some { g_sym = syms.(id); g_par = par; g_args = List.map (fun a -> nat_of_int (int_of_string a)) args }

let parse_ind (syms : sym array) (s : string) : ind =
  match split_ws s with
  | r :: c :: bi :: bc :: age :: xt :: cells ->
      let r = int_of_string r and c = int_of_string c in
      let cells = Array.of_list cells in
      let arr = Array.init r (fun i -> Array.init c (fun j -> parse_cell syms cells.(i * c + j))) in
      { i_gen = genome_of_array r c arr { l_index = nat_of_int (int_of_string bi); l_cat = nat_of_int (int_of_string bc) };
        i_age = n_of_int (int_of_string age); i_xt = xover_of_Z (z_of_int (int_of_string xt)) }
  | _ -> failwith "dump"

let show_ind (i : ind) : string =
  let g = i.i_gen in
  let r = int_of_nat g.rows and c = int_of_nat g.cats in
  let b = Buffer.create 256 in
  Buffer.add_string b (Printf.sprintf "%d %d %d %d %d %d" r c (int_of_nat g.best.l_index) (int_of_nat g.best.l_cat)
                         (int_of_n i.i_age) (int_of_z (z_of_xover i.i_xt)));
  for x = 0 to r - 1 do
    for y = 0 to c - 1 do
      Buffer.add_char b ' ';
      match g.cell (nat_of_int x) (nat_of_int y) with
      | None -> Buffer.add_char b '-'
      | Some ge ->
          Buffer.add_string b (string_of_int (int_of_z ge.g_sym.s_opcode));
          if ge.g_sym.s_argcats = [] && ge.g_sym.s_parametric then
            (Buffer.add_char b '/'; Buffer.add_string b (hex_of_f64 ge.g_par));
          List.iter (fun a -> Buffer.add_char b ','; Buffer.add_string b (string_of_int (int_of_nat a))) ge.g_args
    done
  done;
  Buffer.contents b

let parse_draw (t : string) : draw =
  match String.split_on_char ':' t with
  | ["i"; lo; hi; v] -> DInt (z_of_dec_big lo, z_of_dec_big hi, z_of_dec_big v)
  | ["b"; p; v] -> DBool (z_of_hex p, v = "1")
  | ["r"; h] -> DReal (z_of_hex h)
  | _ -> failwith ("draw " ^ t)

let b2s b = if b then "1" else "0"

(* slots hold either an individual or a team (list) *)
let run_case (line : string) : string =
  match split_on " @@ " line with
  | [case; hout] ->
      let w = Array.of_list (split_ws case) in
      let is_team = w.(0) = "T" in
      let rws = int_of_string w.(2) and patch = int_of_string w.(3) and tsize = int_of_string w.(4)
      and nslots = int_of_string w.(5) in
      let pos = ref 7 in
      let next () = let t = w.(!pos) in incr pos; t in
      let nexti () = int_of_string (next ()) in
      let ncats = nexti () in
      let nsyms = nexti () in
      let syms = Array.init nsyms (fun id ->
        let cat = nexti () in
        let kind = next () in
        let _ = next () in
        let na = nexti () in
        let ac = List.init na (fun _ -> nexti ()) in
        mk_sym id cat ac (kind = "p" || kind = "q" || kind = "n")) in
      if next () <> "O" then failwith "O expected";
      let recs = Array.of_list (split_on " ; " hout) in
      (* wheels *)
      let wt = split_ws recs.(0) in
      let funs = ref [] and terms = ref [] and cur = ref [] and mode = ref ' ' in
      List.iter (fun t ->
        match t with
        | "W" -> ()
        | "F" -> cur := []; mode := 'F'
        | "T" -> funs := List.rev !cur :: !funs; cur := []; mode := 'T'
        | "E" -> terms := List.rev !cur :: !terms; cur := []
        | _ -> (match String.split_on_char ':' t with
                | [id; wgt] -> cur := (syms.(int_of_string id), z_of_int (int_of_string wgt)) :: !cur
                | _ -> failwith "wheel")) wt;
      let ss = { ss_cats = nat_of_int ncats; ss_funs = List.rev !funs; ss_terms = List.rev !terms } in
      (* the problem's code/patch length can change during a history (op E): current values, and per slot
         the smallest patch length its lineage has been created / mutated under (ind_ok_b is monotone in it) *)
      let cur_rows = ref rws and cur_patch = ref patch in
      let spatch : int array = Array.make nslots patch in
      let exp_rows : int array = Array.make nslots rws in
      let mslots : ind list array = Array.make nslots [] in     (* model state *)
      let islots : ind list array = Array.make nslots [] in     (* implementation state *)
      let out = Buffer.create 4096 in
      Buffer.add_string out ("S wf_sset=" ^ b2s (wf_sset_b ss));
      let ri = ref 1 in
      let nops = Array.length w in
      while !pos < nops do
        let op = next () in
        if op = "E" then begin
          cur_rows := nexti (); cur_patch := nexti (); incr ri;
          Buffer.add_string out " ; E # - # 0 #"
        end else begin
        let nrows = nat_of_int !cur_rows and npatch = nat_of_int !cur_patch in
        let fields = split_on " # " recs.(!ri) in
        incr ri;
        let draws_s, extra, idump =
          match fields with
          | [d; e; u] -> d, e, u
          | _ -> failwith "record" in
        let draws = List.map parse_draw (split_ws draws_s) in
        let impl = List.map (parse_ind syms) (List.map String.trim (split_on " | " idump)) in
        let flags = Buffer.create 64 in
        let flag n b = Buffer.add_string flags (" " ^ n ^ "=" ^ b2s b) in
        (* model result: Some (inds, count, rest) *)
        let lift1 (f : ind -> (ind * draw list) option) (t : ind list) ds =
          match t with [i] -> (match f i with Some (i', r) -> Some ([i'], r) | None -> None) | _ -> None in
        let k, res, cnt =
          match op with
          | "N" ->
              let k = nexti () in
              let r =
                if is_team then random_team ss nrows npatch (nat_of_int tsize) draws
                else (match random_ind ss nrows npatch draws with Some (i, r) -> Some ([i], r) | None -> None) in
              k, r, "-"
          | "M" ->
              let k = nexti () in
              let pgm = z_of_hex (next ()) in
              let r = team_mutation ss npatch pgm mslots.(k) draws in
              (match r with
               | Some ((t, n), rest) ->
                   (* oracle: probability zero changes nothing *)
                   k, Some (t, rest), string_of_int (int_of_nat n)
               | None -> k, None, "?")
          | "F" ->
              let k = nexti () in
              let x = xover_of_Z (z_of_int (nexti ())) in
              k, Some (List.map (fun i -> force_xover i x) mslots.(k), draws), "-"
          | "A" ->
              let k = nexti () in
              k, Some (List.map inc_age mslots.(k), draws), "-"
          | "X" ->
              let a = nexti () in
              let b = nexti () in
              let k = nexti () in
              (* oracle on the implementation: provenance, size, age *)
              exp_rows.(k) <- exp_rows.(a); spatch.(k) <- min spatch.(a) spatch.(b);
              (try
                 flag "xok" (List.for_all2 (fun (p1, p2) c -> crossover_ok_b p1 p2 c)
                               (List.combine islots.(a) islots.(b)) impl)
               with Invalid_argument _ -> flag "xok" false);
              k, team_crossover mslots.(a) mslots.(b) draws, "-"
          | "B" ->
              let k = nexti () in
              let i = nexti () in
              let c = nexti () in
              let l = { l_index = nat_of_int i; l_cat = nat_of_int c } in
              k, lift1 (fun x -> Some (get_block x l, draws)) mslots.(k) draws, "-"
          | "R" ->
              let k = nexti () in
              let i = nexti () in
              let c = nexti () in
              let sid = nexti () in
              let par = f64_of_hex (next ()) in
              let na = nexti () in
              let args = List.init na (fun _ -> nat_of_int (nexti ())) in
              let l = { l_index = nat_of_int i; l_cat = nat_of_int c } in
              let ge = { g_sym = syms.(sid); g_par = par; g_args = args } in
              k, lift1 (fun x -> Some (replace x l ge, draws)) mslots.(k) draws, "-"
          | "D" ->
              let k = nexti () in
              let i = nexti () in
              k, lift1 (fun x -> destroy_block ss x (nat_of_int i) draws) mslots.(k) draws, "-"
          | "W" ->
              let k = nexti () in
              let show_loci ls = String.concat "" (List.map (fun l -> Printf.sprintf ",%d.%d" (int_of_nat l.l_index) (int_of_nat l.l_cat)) ls) in
              let cnt =
                match mslots.(k) with
                | [x] ->
                    (match active_loci x.i_gen, active_symbols x.i_gen, blocks x.i_gen with
                     | Some w, Some n, Some b ->
                         (* std::set<locus> blocks(): sorted = visiting order *)
                         "w" ^ show_loci w ^ "|n" ^ string_of_int (int_of_nat n) ^ "|b" ^ show_loci b
                     | _ -> "?")
                | _ -> "?" in
              k, Some (mslots.(k), draws), cnt
          | "C" ->
              let k = nexti () in
              k, lift1 (fun x -> match cse x with Some y -> Some (y, draws) | None -> None) mslots.(k) draws, "-"
          | _ -> failwith ("op " ^ op) in
        (* the size the result must have, and the patch length its well-formedness is relative to *)
        (match op with
         | "N" -> exp_rows.(k) <- !cur_rows; spatch.(k) <- !cur_patch
         | "M" -> spatch.(k) <- min spatch.(k) !cur_patch
         | _ -> ());
        (* oracle: well-formedness of what the implementation produced *)
        flag "wf" (List.for_all (fun i -> ind_ok_b ss (nat_of_int spatch.(k)) i.i_gen) impl);
        flag "shape" (List.for_all (fun i -> int_of_nat i.i_gen.rows = exp_rows.(k) && int_of_nat i.i_gen.cats = ncats) impl);
        (match op with
         | "M" ->
             let prev = islots.(k) in
             let same = (try List.for_all2 ind_same_b prev impl with Invalid_argument _ -> false) in
             flag "same" same
         | _ -> ());
        islots.(k) <- impl;
        Buffer.add_string out " ; ";
        (match res with
         | Some (t, rest) ->
             let t = List.map norm_ind t in
             mslots.(k) <- t;
             Buffer.add_string out (String.concat " | " (List.map show_ind t));
             Buffer.add_string out (" # " ^ cnt ^ " # " ^ string_of_int (List.length rest))
         | None ->
             mslots.(k) <- impl;          (* resynchronise on the implementation's state *)
             Buffer.add_string out ("NONE # " ^ cnt ^ " # 0"));
        Buffer.add_string out (" #" ^ Buffer.contents flags);
        ignore extra
        end
      done;
      Buffer.contents out
  | _ -> "BADLINE"

let () =
  try
    while true do
      let line = input_line stdin in
      (try print_endline (run_case line)
       with e -> print_endline ("DRIVER-EXC " ^ Printexc.to_string e))
    done
  with End_of_file -> ()
