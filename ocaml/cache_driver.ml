(* Model driver for the fitness cache (C04); same line protocol as
   harness/h_cache.cc (see there). *)
let n_of_hex (s : string) : n = match z_of_hex s with Z0 -> N0 | Zpos p -> Npos p | Zneg _ -> N0
let n_of_int (i : int) : n = if i = 0 then N0 else Npos (pos_of_int i)
let int_of_n (x : n) : int = match x with N0 -> 0 | Npos p -> int_of_pos p
let hex_of_n (x : n) : string =
  match x with
  | N0 -> "0"
  | Npos p ->
      let bits = Array.of_list (bits_of_pos p) in
      let nb = Array.length bits in
      let nd = (nb + 3) / 4 in
      String.init nd (fun k ->
        let base = (nd - 1 - k) * 4 in
        let b i = if base + i < nb && bits.(base + i) then 1 lsl i else 0 in
        "0123456789abcdef".[b 0 + b 1 + b 2 + b 3])

let show_fit (f : n list) : string =
  match f with [] -> "-" | _ -> String.concat "," (List.map hex_of_n f)

let show_dump (t : table) : string =
  let (sl, l) = now_dump t in
  String.concat ";"
    (string_of_int (int_of_n sl) ::
     List.map (fun (i, s) ->
       let (k0, k1) = s.skey in
       Printf.sprintf "%d:%s:%s:%s" (int_of_n i) (hex_of_n k0) (hex_of_n k1) (show_fit s.sfit)) l)

let key_of p = (n_of_hex (List.nth p 1), n_of_hex (List.nth p 2))
let rec drop n l = if n = 0 then l else match l with [] -> [] | _ :: r -> drop (n - 1) r
let fit_of p = List.map n_of_hex (drop 3 p)

let table_script bits ops =
  let buf = Buffer.create 256 in
  let t = ref (now_fresh (n_of_int bits)) in
  List.iter (fun o ->
    let p = String.split_on_char ',' o in
    match (List.hd p).[0] with
    | 'I' -> t := now_step !t (Insert (key_of p, fit_of p))
    | 'F' -> Buffer.add_string buf ("f=" ^ show_fit (now_find !t (key_of p)) ^ " ")
    | 'C' -> t := now_step !t Clear
    | 'X' -> t := now_step !t (ClearOne (key_of p))
    | 'S' ->
        let (ok, t2) = now_load (now_save !t) (now_fresh !t.tbits) in
        Buffer.add_string buf
          (Printf.sprintf "s=%d|%s|%s " (if ok then 1 else 0) (show_dump !t) (show_dump t2));
        t := t2
    | 'W' -> t := warp !t (n_of_int (int_of_string (List.nth p 1)))
    | 'N' ->
        let n = int_of_string (List.nth p 1) in
        if n <= 1000 then (for _ = 1 to n do t := now_clear !t done)
        else t := clears_fast (nat_of_int 4) (n_of_int n) !t
    | _ -> Buffer.add_string buf "BADOP ") ops;
  Buffer.add_string buf ("D=" ^ show_dump !t);
  Buffer.contents buf

let proxy_script bits ops =
  let buf = Buffer.create 256 in
  let t = ref (now_fresh (n_of_int bits)) in
  List.iter (fun o ->
    let p = String.split_on_char ',' o in
    match (List.hd p).[0] with
    | 'E' ->
        let ((f, called), t2) = now_proxy_eval !t (key_of p) (fit_of p) in
        Buffer.add_string buf (Printf.sprintf "e=%s/%d " (show_fit f) (if called then 1 else 0));
        t := t2
    | 'A' ->
        let (f, t2) = proxy_fast !t (key_of p) (fit_of p) in
        Buffer.add_string buf (Printf.sprintf "a=%s/10 " (show_fit f));
        t := t2
    | 'C' -> t := now_clear !t
    | 'S' ->
        let m = n_of_int 4242 in
        let (ok, t2) = now_proxy_load m (now_proxy_save m !t) (now_fresh !t.tbits) in
        Buffer.add_string buf
          (Printf.sprintf "s=%d|%s|%s " (if ok then 1 else 0) (show_dump !t) (show_dump t2));
        t := t2
    | _ -> Buffer.add_string buf "BADOP ") ops;
  Buffer.add_string buf ("D=" ^ show_dump !t);
  Buffer.contents buf

let () =
  try
    while true do
      let line = input_line stdin in
      match split_ws line with
      | "T" :: bits :: ops -> print_endline (table_script (int_of_string bits) ops)
      | "P" :: bits :: ops -> print_endline (proxy_script (int_of_string bits) ops)
      | _ -> print_endline "BADLINE"
    done
  with End_of_file -> ()
